#!/usr/bin/env python3
# Regenerates MANIFEST.json from the table below (claimed checks) + properties.jsonl (everything else -> not_applicable).
import json, subprocess
props=[json.loads(l) for l in open('/verif/properties.jsonl')]
T="explicit-state BFS over the real handler/EndBlocker (all action sequences up to depth/block/message bounds)"
claimed={
 "C01": ("state invariant 'escrow balance = pending fees + provider earnings' from a raw store scan, evaluated on every reachable state of the S-LIFE and S-PRICE explorations (all interleavings of call/respond x3 kinds/pause/start/kill/update/withdraw/E within the bounds, zero and sub-unit prices, a consumer that cannot pay)", "4/C01"),
 "C02": ("money ledger step oracle: for every transition every balance, earnings record and the supply must move exactly as predicted from the observed settlements (response ok/no-output -> provider+owner earnings and floor(fee*tax) to the fee collector; malformed output or expiry -> consumer refund; issuance -> consumer debit); any unexplained movement or a request leaving the pending set without cause is a violation", "4/C02"),
 "C03": ("invariant 'deposit account = sum of binding deposits' on every state plus step oracle on every transition of S-BIND: deposits move only by the message's deposit (owner debited), by sequential floor slashes (supply falls) or by a full refund, and a successful refund had unavailable binding, non-zero deposit and block time >= disabled+arbitration+complaint", "4/C03"),
 "C04": ("step oracle on every transition of S-BIND and S-LIFE: slash events and deposit change per binding equal one floor(deposit*fraction) per failure observed in that step (expired non-super request, malformed response) and nothing otherwise; supply falls by the same; availability and disabling time after the slash as predicted from the published pricing text", "4/C04"),
 "C13": ("invariant 'owner earnings = sum of its providers' earnings' (constructed keys, orphan detection) on every state of S-FEES and step oracle on every withdraw/set-withdraw-address/respond transition: exact payout to the withdrawal address, exactly the paid records reset, all other records untouched; includes a provider address that is a byte-prefix of the others and wrong signers", "4/C13"),
 "C14": ("invariant 'available => deposit >= max(MinDeposit, base price x multiple)' with the base price parsed from the binding's published pricing text, on every state of S-BIND (bind/update price up+down/top-up/qos-only/disable/enable/refund/slash around the thresholds)", "4/C14"),
}
m={"version":1,"setup_cmd":"./setup.sh",
 "hooks":{"guard":"verif","enable":"no hooks are needed: ./check builds /repo's working tree as is (go.mod: replace github.com/irismod/service => /repo); the guard name is reserved","baseline_off_cmd":"cd /repo && GOFLAGS=-mod=mod GOPROXY=off GOSUMDB=off GOTOOLCHAIN=local go test -vet=off -count=1 ./...","source_commits":[],"add_only":True},
 "engines":[{"name":"svcmc","path":"mc","serves_properties":sorted(claimed),"kind_free_text":"hand-written explicit-state model checker (Go): level-synchronous BFS whose transition function is the real service.NewHandler / service.EndBlocker on real cosmos-sdk auth/bank/params keepers; state identity = SHA-256 of the complete KV dump + height/time + history variables"}],
 "checks":[],"not_applicable":[],
 "notes":"fix: commits in /repo are listed in known_findings.json (fixed entries). Violation replays: ./out/violations/*.json, re-run with mc/svcmc replay <file>."}
for p in props:
    i=p['id']
    if i in claimed:
        text,ref=claimed[i]
        m["checks"].append({"property_id":i,"quick_cmd":"./check %s quick"%i,"thorough_cmd":"./check %s thorough"%i,
          "evidence_file":"evidence/%s.json"%i,"replay_cmd_template":"cd mc && go build -o svcmc . && VERIF_DIR=/verif ./svcmc replay {path}","engine":"svcmc",
          "level_claimed":{"category":"model_checking","text":text,"design_ref":"DESIGN.md section "+ref},
          "level_note":"Bounded: depth / blocks / messages-per-block bounds and the finite alphabet listed in the evidence file; prices in the base denomination only; trusted base = Go toolchain, cosmos-sdk store/bank/auth/params code, the harness's own oracles (written from the property text with math/big).",
          "technique":T})
    else:
        m["not_applicable"].append({"property_id":i,"reason":"check not implemented yet in this revision (planned: DESIGN.md section 4)"})
json.dump(m,open('/verif/MANIFEST.json','w'),indent=1)
print(len(m["checks"]),"checks;",len(m["not_applicable"]),"not applicable")
