module deliver
