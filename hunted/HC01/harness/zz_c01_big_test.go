package service_test

import (
	"testing"

	sdk "github.com/cosmos/cosmos-sdk/types"
	banktypes "github.com/cosmos/cosmos-sdk/x/bank/types"

	"github.com/irismod/service/types"
)

func TestBig(t *testing.T) {
	w := newWorld(t, 1)
	owner, consumer, prov := w.accs[1], w.accs[2], w.accs[3]
	big, _ := sdk.NewIntFromString("340282366920938463463374607431768211455") // 2^128-1
	huge := big.MulRaw(1 << 20)
	if _, err := w.app.BankKeeper.AddCoins(w.ctx, consumer, sdk.NewCoins(sdk.NewCoin("stake", huge))); err != nil {
		t.Fatal(err)
	}
	if _, err := w.app.BankKeeper.AddCoins(w.ctx, owner, sdk.NewCoins(sdk.NewCoin("stake", huge))); err != nil {
		t.Fatal(err)
	}
	w.app.BankKeeper.SetSupply(w.ctx, banktypes.NewSupply(w.app.BankKeeper.GetSupply(w.ctx).GetTotal().Add(sdk.NewCoin("stake", huge.MulRaw(2)))))
	p := w.k.GetParams(w.ctx)
	p.MinDepositMultiple = 1
	p.ServiceFeeTax = sdk.MustNewDecFromStr("0.999999999999999999")
	w.k.SetParams(w.ctx, p)
	w.deliver("define", types.NewMsgDefineService("big", "", nil, owner, "", schemas))
	ok := w.deliver("bind", types.NewMsgBindService("big", prov, sdk.NewCoins(sdk.NewCoin("stake", big)), `{"price":"`+big.String()+`stake","promotions_by_volume":[{"volume":1,"discount":"0.999999999999999999"}]}`, 1, "{}", owner))
	t.Log("bind", ok)
	for i := 0; i < 3; i++ {
		ok = w.deliver("call", types.NewMsgCallService("big", []sdk.AccAddress{prov}, consumer, `{"header":{}}`, sdk.NewCoins(sdk.NewCoin("stake", huge)), 2, false, false, 0, 0))
		w.endBlock()
		id, cr, found := w.randActive()
		t.Log("call", ok, found, cr.ServiceFee, w.escrow())
		if found && i < 2 {
			ok = w.deliver("respond", types.NewMsgRespondService(id, cr.Provider, `{"code":200,"message":""}`, `{"header":{},"body":{}}`))
			t.Log("respond", ok, w.escrow())
		}
		w.endBlock()
		w.endBlock()
		w.endBlock()
	}
	w.deliver("withdraw", types.NewMsgWithdrawEarnedFees(owner, nil))
	t.Log(w.escrow())
	for _, l := range w.log {
		if len(l) > 300 {
			l = l[:300]
		}
		t.Log(l)
	}
}
