package service_test

import (
	"bytes"
	"fmt"
	"math/rand"
	"os"
	"strconv"
	"testing"
	"time"

	"github.com/tendermint/tendermint/crypto/tmhash"
	tmbytes "github.com/tendermint/tendermint/libs/bytes"
	tmproto "github.com/tendermint/tendermint/proto/tendermint/types"

	sdk "github.com/cosmos/cosmos-sdk/types"

	"github.com/irismod/service"
	simapp "github.com/irismod/service/app"
	"github.com/irismod/service/keeper"
	"github.com/irismod/service/types"
)

type world struct {
	t     *testing.T
	app   *simapp.SimApp
	ctx   sdk.Context
	k     keeper.Keeper
	h     sdk.Handler
	r     *rand.Rand
	accs  []sdk.AccAddress
	odd   []sdk.AccAddress
	svcs  []string
	txn   int
	log   []string
	inEnd bool
	bad   bool
}

var stats = map[string]int{}

const schemas = `{"input":{"type":"object"},"output":{"type":"object"}}`

func (w *world) logf(f string, a ...interface{}) {
	w.log = append(w.log, fmt.Sprintf("[h=%d] ", w.ctx.BlockHeight())+fmt.Sprintf(f, a...))
}

func (w *world) escrow() sdk.Int {
	addr := w.app.AccountKeeper.GetModuleAddress(types.RequestAccName)
	return w.app.BankKeeper.GetBalance(w.ctx, addr, "stake").Amount
}

func (w *world) obligations(ctx sdk.Context) (pending, pending2, earned sdk.Int, msg string) {
	store := ctx.KVStore(w.app.GetKey(types.StoreKey))
	pending = sdk.ZeroInt()
	pending2 = sdk.ZeroInt()
	earned = sdk.ZeroInt()
	it := sdk.KVStorePrefixIterator(store, types.ActiveRequestByIDKey)
	n1 := 0
	for ; it.Valid(); it.Next() {
		id := it.Key()[1:]
		cr, found := w.k.GetCompactRequest(ctx, id)
		if !found {
			msg += fmt.Sprintf("active request %X has no record; ", id)
			continue
		}
		if _, f := w.k.GetRequestContext(ctx, cr.RequestContextId); !f {
			msg += fmt.Sprintf("active request %X has no context; ", id)
		}
		pending = pending.Add(cr.ServiceFee.AmountOf("stake"))
		n1++
	}
	it.Close()
	it = sdk.KVStorePrefixIterator(store, types.ActiveRequestKey)
	n2 := 0
	for ; it.Valid(); it.Next() {
		k := it.Key()
		id := k[len(k)-types.RequestIDLen:]
		cr, found := w.k.GetCompactRequest(ctx, id)
		if !found {
			msg += fmt.Sprintf("active(binding) request %X has no record; ", id)
			continue
		}
		pending2 = pending2.Add(cr.ServiceFee.AmountOf("stake"))
		n2++
	}
	it.Close()
	if n1 != n2 {
		msg += fmt.Sprintf("active index mismatch %d vs %d; ", n1, n2)
	}
	it = sdk.KVStorePrefixIterator(store, types.EarnedFeesKey)
	for ; it.Valid(); it.Next() {
		var c sdk.Coin
		w.app.AppCodec().MustUnmarshalBinaryBare(it.Value(), &c)
		earned = earned.Add(c.Amount)
	}
	it.Close()
	return
}

func (w *world) check(where string) {
	p, p2, e, msg := w.obligations(w.ctx)
	bal := w.escrow()
	if !bal.Equal(p.Add(e)) || !p.Equal(p2) || msg != "" {
		w.bad = true
		for _, l := range w.log {
			w.t.Log(l)
		}
		w.t.Fatalf("VIOLATION at %s: escrow=%s pending=%s pending(binding)=%s earned=%s %s", where, bal, p, p2, e, msg)
	}
	// owner earned == sum providers earned
}

func (w *world) deliver(name string, msg sdk.Msg) bool {
	if err := msg.ValidateBasic(); err != nil {
		return false
	}
	w.txn++
	cctx, write := w.ctx.CacheContext()
	cctx = cctx.WithValue(types.TxHash, tmhash.Sum([]byte("tx"+strconv.Itoa(w.txn)))).WithValue(types.MsgIndex, int64(0))
	ok := false
	func() {
		defer func() {
			if r := recover(); r != nil {
				w.logf("tx %s PANIC %v", name, r)
			}
		}()
		_, err := w.h(cctx, msg)
		if err == nil {
			ok = true
		} else {
			w.logf("tx %s failed: %v", name, err)
		}
	}()
	if ok {
		write()
		w.logf("tx %s ok: %v", name, msg)
		stats[name]++
	} else {
		stats[name+"-fail"]++
	}
	w.check("after tx " + name)
	return ok
}

// module "tx": a different module's handler calling the keeper API
func (w *world) modTx(name string, f func(ctx sdk.Context) error) bool {
	w.txn++
	cctx, write := w.ctx.CacheContext()
	cctx = cctx.WithValue(types.TxHash, tmhash.Sum([]byte("tx"+strconv.Itoa(w.txn)))).WithValue(types.MsgIndex, int64(0))
	ok := false
	func() {
		defer func() {
			if r := recover(); r != nil {
				w.logf("modtx %s PANIC %v", name, r)
			}
		}()
		if err := f(cctx); err == nil {
			ok = true
		} else {
			w.logf("modtx %s failed: %v", name, err)
		}
	}()
	if ok {
		write()
		w.logf("modtx %s ok", name)
		stats[name]++
	} else {
		stats[name+"-fail"]++
	}
	w.check("after modtx " + name)
	return ok
}

func (w *world) acc() sdk.AccAddress { return w.accs[w.r.Intn(len(w.accs))] }
func (w *world) prov() sdk.AccAddress {
	if w.r.Intn(6) == 0 {
		return w.odd[w.r.Intn(len(w.odd))]
	}
	return w.accs[w.r.Intn(len(w.accs))]
}
func (w *world) svc() string { return w.svcs[w.r.Intn(len(w.svcs))] }

func (w *world) pricing() string {
	prices := []string{"0stake", "1stake", "2stake", "3stake", "7stake", "0.5stake", "10stake", "100stake", "1.9stake"}
	p := prices[w.r.Intn(len(prices))]
	s := `{"price":"` + p + `"`
	discs := []string{"0.5", "0.1", "0.9", "0.33", "0.000000000000000001", "0.999999999999999999", "0.7"}
	if w.r.Intn(2) == 0 {
		t0 := w.ctx.BlockTime().Add(time.Duration(w.r.Intn(40)-10) * time.Second)
		t1 := t0.Add(time.Duration(1+w.r.Intn(60)) * time.Second)
		s += fmt.Sprintf(`,"promotions_by_time":[{"start_time":"%s","end_time":"%s","discount":"%s"}]`,
			t0.UTC().Format(time.RFC3339), t1.UTC().Format(time.RFC3339), discs[w.r.Intn(len(discs))])
	}
	if w.r.Intn(2) == 0 {
		v := 1 + w.r.Intn(3)
		s += fmt.Sprintf(`,"promotions_by_volume":[{"volume":%d,"discount":"%s"},{"volume":%d,"discount":"%s"}]`,
			v, discs[w.r.Intn(len(discs))], v+1+w.r.Intn(3), discs[w.r.Intn(len(discs))])
	}
	return s + "}"
}

func (w *world) randBinding() (types.ServiceBinding, bool) {
	var bs []types.ServiceBinding
	w.k.IterateServiceBindings(w.ctx, func(b types.ServiceBinding) bool { bs = append(bs, b); return false })
	if len(bs) == 0 {
		return types.ServiceBinding{}, false
	}
	return bs[w.r.Intn(len(bs))], true
}

func (w *world) ownerFor(p sdk.AccAddress) sdk.AccAddress {
	if o, ok := w.k.GetOwner(w.ctx, p); ok && w.r.Intn(10) != 0 {
		return o
	}
	return w.acc()
}

func (w *world) coins(n int64) sdk.Coins { return sdk.NewCoins(sdk.NewInt64Coin("stake", n)) }

func (w *world) randCtx(ctx sdk.Context) (tmbytes.HexBytes, types.RequestContext, bool) {
	var ids []tmbytes.HexBytes
	var rcs []types.RequestContext
	w.k.IterateRequestContexts(ctx, func(id tmbytes.HexBytes, rc types.RequestContext) bool {
		ids = append(ids, append([]byte{}, id...))
		rcs = append(rcs, rc)
		return false
	})
	if len(ids) == 0 {
		return nil, types.RequestContext{}, false
	}
	i := w.r.Intn(len(ids))
	return ids[i], rcs[i], true
}

func (w *world) randActive() (tmbytes.HexBytes, types.CompactRequest, bool) {
	store := w.ctx.KVStore(w.app.GetKey(types.StoreKey))
	it := sdk.KVStorePrefixIterator(store, types.ActiveRequestByIDKey)
	defer it.Close()
	var ids []tmbytes.HexBytes
	for ; it.Valid(); it.Next() {
		ids = append(ids, append([]byte{}, it.Key()[1:]...))
	}
	if len(ids) == 0 {
		return nil, types.CompactRequest{}, false
	}
	id := ids[w.r.Intn(len(ids))]
	cr, _ := w.k.GetCompactRequest(w.ctx, id)
	return id, cr, true
}

func (w *world) provs() []sdk.AccAddress {
	n := 1 + w.r.Intn(4)
	seen := map[string]bool{}
	var ps []sdk.AccAddress
	for i := 0; i < n; i++ {
		p := w.prov()
		if seen[string(p)] {
			continue
		}
		seen[string(p)] = true
		ps = append(ps, p)
	}
	return ps
}

// what a module does from inside a callback
func (w *world) modAction(ctx sdk.Context, self tmbytes.HexBytes) {
	for n := w.r.Intn(3); n > 0; n-- {
		id := self
		rc, found := w.k.GetRequestContext(ctx, id)
		if w.r.Intn(3) == 0 {
			oid, orc, ok := w.randCtx(ctx)
			if ok && orc.ModuleName == "mod" {
				id, rc, found = oid, orc, true
			}
		}
		if !found {
			continue
		}
		var err error
		var what string
		switch w.r.Intn(6) {
		case 0:
			what = "pause"
			err = w.k.PauseRequestContext(ctx, id, rc.Consumer)
		case 1, 2:
			what = "start"
			err = w.k.StartRequestContext(ctx, id, rc.Consumer)
		case 3:
			what = "kill"
			err = w.k.KillRequestContext(ctx, id, rc.Consumer)
		case 4:
			what = "update"
			err = w.k.UpdateRequestContext(ctx, id, w.provs(), 0, w.coins(int64(1+w.r.Intn(20))), int64(w.r.Intn(5)), uint64(w.r.Intn(8)), int64(w.r.Intn(6)-1), rc.Consumer)
		case 5:
			what = "create"
			if ctx.Value(types.TxHash) == nil {
				continue
			}
			_, err = w.k.CreateRequestContext(ctx, w.svc(), w.provs(), w.acc(), `{"header":{}}`, w.coins(int64(1+w.r.Intn(20))),
				int64(1+w.r.Intn(4)), false, w.r.Intn(2) == 0, uint64(w.r.Intn(8)), int64(1+w.r.Intn(4)), types.RUNNING, 1, "mod")
		}
		w.log = append(w.log, fmt.Sprintf("   callback %s on %X (self %v): %v", what, id[:4], bytes.Equal(id, self), err))
	}
}

func newWorld(t *testing.T, seed int64) *world {
	app := simapp.Setup(false)
	ctx := app.BaseApp.NewContext(false, tmproto.Header{Height: 1, Time: time.Unix(1600000000, 0).UTC()})
	w := &world{t: t, app: app, ctx: ctx, k: app.ServiceKeeper, r: rand.New(rand.NewSource(seed))}
	w.h = service.NewHandler(w.k)
	w.k.SetParams(ctx, types.DefaultParams())
	p := types.DefaultParams()
	p.MinDeposit = w.coins(10)
	p.MinDepositMultiple = 2
	p.MaxRequestTimeout = 10
	p.ComplaintRetrospect = 5 * time.Second
	p.ArbitrationTimeLimit = 5 * time.Second
	w.k.SetParams(ctx, p)
	w.accs = simapp.AddTestAddrsIncremental(app, ctx, 6, sdk.NewInt(int64(50+w.r.Intn(3000))))
	base := w.accs[0]
	w.odd = []sdk.AccAddress{
		append(append(sdk.AccAddress{}, base...), []byte("stake")...),
		append(append(sdk.AccAddress{}, base...), 0x00),
		sdk.AccAddress(base[:10]),
		sdk.AccAddress([]byte{0x01}),
	}
	w.svcs = []string{"svc", "svcb", "sv"}
	_ = w.k.RegisterResponseCallback("mod", func(ctx sdk.Context, id tmbytes.HexBytes, out []string, err error) {
		w.log = append(w.log, fmt.Sprintf("   resp callback %X outs=%d err=%v", id[:4], len(out), err))
		w.modAction(ctx, id)
	})
	_ = w.k.RegisterStateCallback("mod", func(ctx sdk.Context, id tmbytes.HexBytes, cause string) {
		w.log = append(w.log, fmt.Sprintf("   state callback %X %s", id[:4], cause))
		w.modAction(ctx, id)
	})
	return w
}

func (w *world) step() {
	switch w.r.Intn(26) {
	case 0:
		w.deliver("define", types.NewMsgDefineService(w.svc(), "", nil, w.acc(), "", schemas))
	case 1, 2:
		pv := w.prov()
		w.deliver("bind", types.NewMsgBindService(w.svc(), pv, w.coins(int64(10+w.r.Intn(300))), w.pricing(), uint64(1+w.r.Intn(5)), "{}", w.ownerFor(pv)))
	case 3:
		pr := ""
		if w.r.Intn(2) == 0 {
			pr = w.pricing()
		}
		var dep sdk.Coins
		if w.r.Intn(2) == 0 {
			dep = w.coins(int64(1 + w.r.Intn(50)))
		}
		b, ok := w.randBinding()
		if !ok {
			return
		}
		w.deliver("updbind", types.NewMsgUpdateServiceBinding(b.ServiceName, b.Provider, dep, pr, uint64(w.r.Intn(5)), "{}", w.ownerFor(b.Provider)))
	case 4:
		b, ok := w.randBinding()
		if !ok {
			return
		}
		w.deliver("disable", types.NewMsgDisableServiceBinding(b.ServiceName, b.Provider, w.ownerFor(b.Provider)))
	case 5:
		var dep sdk.Coins
		if w.r.Intn(2) == 0 {
			dep = w.coins(int64(1 + w.r.Intn(50)))
		}
		b, ok := w.randBinding()
		if !ok {
			return
		}
		w.deliver("enable", types.NewMsgEnableServiceBinding(b.ServiceName, b.Provider, dep, w.ownerFor(b.Provider)))
	case 6:
		b, ok := w.randBinding()
		if !ok {
			return
		}
		w.deliver("refund", types.NewMsgRefundServiceDeposit(b.ServiceName, b.Provider, w.ownerFor(b.Provider)))
	case 7, 8, 9:
		rep := w.r.Intn(2) == 0
		to := int64(1 + w.r.Intn(4))
		w.deliver("call", types.NewMsgCallService(w.svc(), w.provs(), w.acc(), `{"header":{}}`, w.coins(int64(1+w.r.Intn(30))), to,
			w.r.Intn(8) == 0, rep, uint64(w.r.Intn(3))*uint64(to), int64(1+w.r.Intn(4))))
	case 10, 11, 12, 13, 22, 23, 24, 25:
		id, cr, ok := w.randActive()
		if !ok {
			return
		}
		switch w.r.Intn(5) {
		case 0:
			w.deliver("respond-bad", types.NewMsgRespondService(id, cr.Provider, `{"code":200,"message":""}`, `{"x":1}`))
		case 1:
			w.deliver("respond-400", types.NewMsgRespondService(id, cr.Provider, `{"code":400,"message":"e"}`, ``))
		default:
			w.deliver("respond", types.NewMsgRespondService(id, cr.Provider, `{"code":200,"message":""}`, `{"header":{},"body":{}}`))
		}
	case 14:
		id, rc, ok := w.randCtx(w.ctx)
		if !ok {
			return
		}
		switch w.r.Intn(4) {
		case 0:
			w.deliver("pause", types.NewMsgPauseRequestContext(id, rc.Consumer))
		case 1:
			w.deliver("start", types.NewMsgStartRequestContext(id, rc.Consumer))
		case 2:
			w.deliver("kill", types.NewMsgKillRequestContext(id, rc.Consumer))
		case 3:
			w.deliver("updctx", types.NewMsgUpdateRequestContext(id, w.provs(), w.coins(int64(1+w.r.Intn(30))), int64(w.r.Intn(5)), uint64(w.r.Intn(9)), int64(w.r.Intn(6)-1), rc.Consumer))
		}
	case 15:
		var p sdk.AccAddress
		if w.r.Intn(2) == 0 {
			p = w.prov()
		}
		o := w.acc()
		if p != nil {
			o = w.ownerFor(p)
		}
		w.deliver("withdraw", types.NewMsgWithdrawEarnedFees(o, p))
	case 16:
		w.deliver("setwd", types.NewMsgSetWithdrawAddress(w.acc(), w.prov()))
	case 17:
		p := w.k.GetParams(w.ctx)
		switch w.r.Intn(5) {
		case 0:
			taxes := []string{"0", "0.1", "0.5", "0.999999999999999999", "0.000000000000000001", "0.05", "0.34"}
			p.ServiceFeeTax = sdk.MustNewDecFromStr(taxes[w.r.Intn(len(taxes))])
		case 1:
			sl := []string{"0", "1", "0.001", "0.5"}
			p.SlashFraction = sdk.MustNewDecFromStr(sl[w.r.Intn(len(sl))])
		case 2:
			p.MaxRequestTimeout = int64(1 + w.r.Intn(10))
		case 3:
			p.MinDeposit = w.coins(int64(1 + w.r.Intn(100)))
		case 4:
			p.MinDepositMultiple = int64(1 + w.r.Intn(20))
		}
		w.k.SetParams(w.ctx, p)
		w.logf("params %v", p)
	case 18, 19:
		// module creates
		w.modTx("mod-create", func(ctx sdk.Context) error {
			st := types.RUNNING
			if w.r.Intn(3) == 0 {
				st = types.PAUSED
			}
			ps := w.provs()
			_, err := w.k.CreateRequestContext(ctx, w.svc(), ps, w.acc(), `{"header":{}}`, w.coins(int64(1+w.r.Intn(20))),
				int64(1+w.r.Intn(4)), w.r.Intn(8) == 0, w.r.Intn(2) == 0, uint64(w.r.Intn(8)), int64(1+w.r.Intn(4)), st, uint32(1+w.r.Intn(len(ps))), "mod")
			return err
		})
	case 20:
		id, rc, ok := w.randCtx(w.ctx)
		if !ok || rc.ModuleName != "mod" {
			return
		}
		w.modTx("mod-act", func(ctx sdk.Context) error { w.modAction(ctx, id); return nil })
	case 21:
		// bank transfer between users (not to module accounts)
		from, to := w.acc(), w.acc()
		amt := w.coins(int64(1 + w.r.Intn(100)))
		if err := w.app.BankKeeper.SendCoins(w.ctx, from, to, amt); err == nil {
			w.logf("bank send %s %s->%s", amt, from, to)
		}
	}
}

func (w *world) endBlock() {
	w.logf("EndBlocker")
	w.inEnd = true
	service.EndBlocker(w.ctx, w.k)
	w.inEnd = false
	w.check("after EndBlocker")
	w.ctx = w.ctx.WithBlockHeight(w.ctx.BlockHeight() + 1).WithBlockTime(w.ctx.BlockTime().Add(time.Duration(1+w.r.Intn(20)) * time.Second))
}

func TestFuzzC01(t *testing.T) {
	seeds := 200
	if s := os.Getenv("FUZZ_SEEDS"); s != "" {
		seeds, _ = strconv.Atoi(s)
	}
	start := int64(0)
	if s := os.Getenv("FUZZ_START"); s != "" {
		v, _ := strconv.Atoi(s)
		start = int64(v)
	}
	for seed := start; seed < start+int64(seeds); seed++ {
		seed := seed
		func() {
			w := newWorld(t, seed)
			defer func() {
				if r := recover(); r != nil {
					if w.bad {
						panic(r)
					}
					for _, l := range w.log[max(0, len(w.log)-30):] {
						t.Log(l)
					}
					t.Logf("seed %d: PANIC outside tx: %v", seed, r)
				}
			}()
			// setup: a few definitions and bindings
			for _, s := range w.svcs {
				w.deliver("define", types.NewMsgDefineService(s, "", nil, w.acc(), "", schemas))
			}
			mp := sdk.AccAddress([]byte("module-provider-addr"))
			if seed%2 == 0 {
				mp = w.accs[5]
			}
			w.deliver("bind", types.NewMsgBindService("svcb", mp, w.coins(200), w.pricing(), 1, "{}", w.accs[4]))
			_ = w.k.RegisterModuleService("m", &types.ModuleService{ServiceName: "svcb", Provider: mp, ReuquestService: func(ctx sdk.Context, input string) (string, string) {
				switch w.r.Intn(4) {
				case 0:
					return `{"code":200,"message":""}`, `{"x":1}`
				case 1:
					return `{"code":500,"message":""}`, ``
				}
				return `{"code":200,"message":""}`, `{"header":{},"body":{}}`
			}})
			for b := 0; b < 300; b++ {
				for n := w.r.Intn(6); n > 0; n-- {
					w.step()
				}
				w.endBlock()
			}
		}()
	}
	t.Logf("stats: %v", stats)
}

func init() { _ = stats }

func max(a, b int) int {
	if a > b {
		return a
	}
	return b
}
