package service_test

import (
	"testing"

	sdk "github.com/cosmos/cosmos-sdk/types"

	"github.com/irismod/service/types"
)

func TestModSvc(t *testing.T) {
	w := newWorld(t, 1)
	owner, consumer := w.accs[1], w.accs[2]
	modProv := sdk.AccAddress([]byte("module-provider-addr"))
	if !w.deliver("define", types.NewMsgDefineService("msvc", "", nil, owner, "", schemas)) {
		t.Fatal("define")
	}
	if !w.deliver("bind", types.NewMsgBindService("msvc", modProv, w.coins(100), `{"price":"7stake"}`, 1, "{}", owner)) {
		t.Fatal("bind")
	}
	out := `{"header":{},"body":{}}`
	res := `{"code":200,"message":""}`
	_ = w.k.RegisterModuleService("m", &types.ModuleService{ServiceName: "msvc", Provider: modProv, ReuquestService: func(ctx sdk.Context, input string) (string, string) {
		return res, out
	}})
	for i := 0; i < 5; i++ {
		ok := w.deliver("call", types.NewMsgCallService("msvc", []sdk.AccAddress{w.accs[3]}, consumer, `{"header":{}}`, w.coins(int64(5+i)), 3, false, true, 5, 3))
		t.Logf("call %d ok=%v escrow=%s", i, ok, w.escrow())
		if i == 2 {
			out = `{"x":1}`
		}
		if i == 3 {
			out = ``
			res = `{"code":500,"message":""}`
		}
		w.endBlock()
		w.endBlock()
	}
	w.deliver("withdraw", types.NewMsgWithdrawEarnedFees(owner, nil))
	t.Logf("escrow=%s", w.escrow())
	for _, l := range w.log {
		t.Log(l)
	}
}
