package service_test

// Finding 1 (property C02): a request whose timeout makes "height + timeout" wrap around
// is given an expiry block that has already ended, is never settled by the end-of-block
// logic, and can be answered (and paid) arbitrarily long after that expiry.
//
// Place this file in the module root (package service_test) and run
//   go test -vet=off -count=1 -run TestFinding1 .

import (
	"fmt"
	"math"
	"testing"

	"github.com/stretchr/testify/require"

	"github.com/tendermint/tendermint/crypto/tmhash"
	tmbytes "github.com/tendermint/tendermint/libs/bytes"
	tmproto "github.com/tendermint/tendermint/proto/tendermint/types"

	sdk "github.com/cosmos/cosmos-sdk/types"

	service "github.com/irismod/service"
	simapp "github.com/irismod/service/app"
	"github.com/irismod/service/types"
)

func TestFinding1(t *testing.T) {
	app := simapp.Setup(false)
	height := int64(1)
	ctx := app.BaseApp.NewContext(false, tmproto.Header{Height: height})
	k := app.ServiceKeeper
	k.SetParams(ctx, types.DefaultParams())
	h := service.NewHandler(k)

	addrs := simapp.AddTestAddrs(app, ctx, 4, sdk.NewInt(1000000000))
	author, owner, provider, consumer := addrs[0], addrs[1], addrs[2], addrs[3]

	// baseapp-like delivery: ValidateBasic, handler on a cache context, written back on success only
	txSeq := 0
	deliver := func(msg sdk.Msg) (err error) {
		if err := msg.ValidateBasic(); err != nil {
			return err
		}
		txSeq++
		c := ctx.WithValue(types.TxHash, tmhash.Sum([]byte(fmt.Sprintf("tx-%d", txSeq)))).WithValue(types.MsgIndex, int64(0))
		cc, write := c.CacheContext()
		defer func() {
			if r := recover(); r != nil {
				err = fmt.Errorf("panic: %v", r)
			}
		}()
		if _, err = h(cc, msg); err == nil {
			write()
		}
		return err
	}
	endBlock := func() {
		service.EndBlocker(ctx, k)
		height++
		ctx = ctx.WithBlockHeight(height)
	}
	bal := func(a sdk.AccAddress) sdk.Int { return app.BankKeeper.GetBalance(ctx, a, "stake").Amount }
	activeRequests := func() (ids []tmbytes.HexBytes, reqs []types.Request) {
		k.IterateRequests(ctx, func(id tmbytes.HexBytes, _ types.CompactRequest) bool {
			if k.IsRequestActive(ctx, id) {
				req, _ := k.GetRequest(ctx, id)
				ids = append(ids, append(tmbytes.HexBytes{}, id...))
				reqs = append(reqs, req)
			}
			return false
		})
		return
	}

	// a service with one provider, price 100stake
	require.NoError(t, deliver(types.NewMsgDefineService("svc", "", nil, author, "",
		`{"input":{"type":"object"},"output":{"type":"object"}}`)))
	require.NoError(t, deliver(types.NewMsgBindService("svc", provider,
		sdk.NewCoins(sdk.NewInt64Coin("stake", 1000000)), `{"price":"100stake"}`, 1, "{}", owner)))

	// governance raises the maximum request timeout (any positive int64 is accepted by the parameter store)
	require.NoError(t, types.DefaultParams().Validate())
	params := k.GetParams(ctx)
	params.MaxRequestTimeout = math.MaxInt64
	require.NoError(t, params.Validate())
	k.SetParams(ctx, params)

	// the consumer calls the service once (not repeated) with the longest timeout now allowed
	consumerBefore := bal(consumer)
	if err := deliver(types.NewMsgCallService("svc", []sdk.AccAddress{provider}, consumer, `{"header":{}}`,
		sdk.NewCoins(sdk.NewInt64Coin("stake", 100)), math.MaxInt64, false, false, 0, 0)); err != nil {
		// a repaired module may refuse such a timeout: then nothing is issued and nothing is charged
		endBlock()
		require.Equal(t, consumerBefore, bal(consumer), "a refused call must not cost anything")
		t.Logf("call refused (%v): no request, no fee, property holds", err)
		return
	}
	endBlock() // block 1 ends: the batch is started, the consumer is debited

	ids, reqs := activeRequests()
	require.Len(t, reqs, 1)
	req := reqs[0]
	fee := req.ServiceFee.AmountOf("stake")
	require.Equal(t, int64(100), fee.Int64())
	require.Equal(t, fee, consumerBefore.Sub(bal(consumer)), "the consumer is debited the fee at batch start")

	// nobody responds; some blocks pass
	for i := 0; i < 5; i++ {
		endBlock()
	}

	// C02: no response arrived before the request's expiry block ended => the whole fee is back with the consumer
	_, reqs = activeRequests()
	for _, r := range reqs {
		if r.ExpirationHeight < height {
			t.Errorf("C02 violated: request issued at height %d with fee %s has expiry block %d, which has ended "+
				"(now at height %d) without a response, but it was not settled: it is still active and the consumer "+
				"is still out of %s (the refund never happens: the expiry is queued at a height that no block will ever have)",
				r.RequestHeight, r.ServiceFee, r.ExpirationHeight, height, consumerBefore.Sub(bal(consumer)))
		}
	}

	// ... and the provider can still cash the fee long after that expiry block
	earnedBefore, _ := k.GetEarnedFees(ctx, provider)
	err := deliver(types.NewMsgRespondService(ids[0], provider, `{"code":200,"message":""}`, `{"header":{},"body":{}}`))
	earnedAfter, _ := k.GetEarnedFees(ctx, provider)
	if err == nil && earnedAfter.AmountOf("stake").GT(earnedBefore.AmountOf("stake")) {
		t.Errorf("C02 violated: a response delivered at height %d, after the request's expiry block %d had ended, "+
			"was accepted and paid: provider earnings went from %s to %s instead of the fee going back to the consumer",
			height, req.ExpirationHeight, earnedBefore, earnedAfter)
	}
}
