module deliver
