module deliver
