package service_test

import (
	"math"
	"math/big"
	"testing"
	"time"

	gogotypes "github.com/gogo/protobuf/types"
	tmproto "github.com/tendermint/tendermint/proto/tendermint/types"

	sdk "github.com/cosmos/cosmos-sdk/types"
	banktypes "github.com/cosmos/cosmos-sdk/x/bank/types"

	service "github.com/irismod/service"
	simapp "github.com/irismod/service/app"
	"github.com/irismod/service/types"
)

func TestHC03Extremes(t *testing.T) {
	app := simapp.Setup(false)
	t0 := time.Date(2021, 1, 1, 0, 0, 0, 0, time.UTC)
	ctx := app.BaseApp.NewContext(false, tmproto.Header{Height: 1, Time: t0})
	k := app.ServiceKeeper
	p := types.DefaultParams()
	p.ArbitrationTimeLimit = time.Duration(math.MaxInt64)
	p.ComplaintRetrospect = time.Duration(math.MaxInt64)
	p.SlashFraction = sdk.NewDecWithPrec(999999999999999999, 18)
	k.SetParams(ctx, p)
	e := &hc03Env{t: t, app: app, k: k, ctx: ctx, h: service.NewHandler(k)}
	addrs := simapp.AddTestAddrs(app, ctx, 3, sdk.NewInt(1000000))
	owner, consumer := addrs[1], addrs[2]
	huge := sdk.NewIntFromBigInt(new(big.Int).Sub(new(big.Int).Lsh(big.NewInt(1), 128), big.NewInt(1)))
	hc := sdk.NewCoins(sdk.NewCoin("stake", huge))
	_, err := app.BankKeeper.AddCoins(ctx, owner, hc)
	if err != nil {
		t.Fatal(err)
	}
	app.BankKeeper.SetSupply(ctx, banktypes.NewSupply(app.BankKeeper.GetSupply(ctx).GetTotal().Add(hc...)))
	schemas := `{"input":{"type":"object"},"output":{"type":"object"}}`
	if err := e.deliver(types.NewMsgDefineService("a", "", nil, addrs[0], "", schemas)); err != nil {
		t.Fatal(err)
	}
	long := make([]byte, 3000)
	for i := range long {
		long[i] = byte(i)
	}
	for _, prov := range []sdk.AccAddress{owner, long} {
		if err := e.deliver(types.NewMsgBindService("a", prov, sdk.NewCoins(sdk.NewCoin("stake", sdk.NewInt(10000))), `{"price":"1stake"}`, 1, "{}", owner)); err != nil {
			t.Fatal(err)
		}
	}
	if err := e.deliver(types.NewMsgUpdateServiceBinding("a", owner, sdk.NewCoins(sdk.NewCoin("stake", huge.SubRaw(10000))), "", 0, "{}", owner)); err != nil {
		t.Fatal(err)
	}
	t.Log(e.depositBalance())
	if err := e.deliver(types.NewMsgUpdateServiceBinding("a", owner, sdk.NewCoins(sdk.NewCoin("stake", sdk.NewInt(1))), "", 0, "{}", owner)); err == nil {
		t.Fatal("expected too large")
	}
	// call + expire => slash
	if err := e.deliver(types.NewMsgCallService("a", []sdk.AccAddress{owner, long}, consumer, `{"header":{},"body":{}}`, sdk.NewCoins(sdk.NewInt64Coin("stake", 50)), 2, false, false, 0, 0)); err != nil {
		t.Fatal(err)
	}
	service.EndBlocker(e.ctx, k)
	it := k.ActiveRequestsIterator(e.ctx, "a", owner)
	var id gogotypes.BytesValue
	app.AppCodec().MustUnmarshalBinaryBare(it.Value(), &id)
	it.Close()
	sb := e.supply()
	if err := e.deliver(types.NewMsgRespondService(id.Value, owner, `{"code":200,"message":""}`, `{}`)); err != nil {
		t.Fatal(err)
	}
	b, _ := k.GetServiceBinding(e.ctx, "a", owner)
	t.Log(b.Deposit, b.Available, sb.Sub(e.supply()), e.depositBalance())
	e.ctx = e.ctx.WithBlockHeight(3).WithBlockTime(t0.Add(time.Hour))
	sb = e.supply()
	service.EndBlocker(e.ctx, k)
	b2, _ := k.GetServiceBinding(e.ctx, "a", long)
	t.Log(b2.Deposit, b2.Available, b2.DisabledTime, sb.Sub(e.supply()), e.depositBalance())
	sum := b2.Deposit.AmountOf("stake")
	bb, _ := k.GetServiceBinding(e.ctx, "a", owner)
	sum = sum.Add(bb.Deposit.AmountOf("stake"))
	if !sum.Equal(e.depositBalance()) {
		t.Fatalf("sum %s bal %s", sum, e.depositBalance())
	}
	// refund timing with maximal periods
	rt := b2.DisabledTime.Add(p.ArbitrationTimeLimit).Add(p.ComplaintRetrospect)
	t.Log(rt)
	e.ctx = e.ctx.WithBlockHeight(4).WithBlockTime(rt.Add(-1))
	if err := e.deliver(types.NewMsgRefundServiceDeposit("a", long, owner)); err == nil {
		t.Fatal("early refund")
	}
	e.ctx = e.ctx.WithBlockHeight(5).WithBlockTime(rt)
	if err := e.deliver(types.NewMsgRefundServiceDeposit("a", long, owner)); err != nil {
		t.Fatal(err)
	}
	if err := e.deliver(types.NewMsgRefundServiceDeposit("a", long, owner)); err == nil {
		t.Fatal("double refund")
	}
}
