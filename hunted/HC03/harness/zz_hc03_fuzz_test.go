package service_test

import (
	"fmt"
	"math/rand"
	"testing"
	"time"

	gogotypes "github.com/gogo/protobuf/types"
	"github.com/tendermint/tendermint/crypto/tmhash"
	tmproto "github.com/tendermint/tendermint/proto/tendermint/types"

	sdk "github.com/cosmos/cosmos-sdk/types"

	service "github.com/irismod/service"
	simapp "github.com/irismod/service/app"
	"github.com/irismod/service/keeper"
	"github.com/irismod/service/types"
)

type hc03Env struct {
	t       *testing.T
	app     *simapp.SimApp
	k       keeper.Keeper
	ctx     sdk.Context
	h       sdk.Handler
	txCount int
}

func (e *hc03Env) deliver(msg sdk.Msg) (err error) {
	if err := msg.ValidateBasic(); err != nil {
		return err
	}
	e.txCount++
	ctx := e.ctx.WithValue(types.TxHash, tmhash.Sum([]byte(fmt.Sprintf("tx-%d", e.txCount)))).WithValue(types.MsgIndex, int64(0))
	cctx, write := ctx.CacheContext()
	defer func() {
		if r := recover(); r != nil {
			err = fmt.Errorf("panic: %v", r)
		}
	}()
	_, err = e.h(cctx, msg)
	if err == nil {
		write()
	}
	return err
}

func (e *hc03Env) depositBalance() sdk.Int {
	addr := e.k.GetServiceDepositAccount(e.ctx).GetAddress()
	return e.app.BankKeeper.GetBalance(e.ctx, addr, "stake").Amount
}

func (e *hc03Env) bindings() map[string]types.ServiceBinding {
	res := map[string]types.ServiceBinding{}
	e.k.IterateServiceBindings(e.ctx, func(b types.ServiceBinding) bool {
		res[b.ServiceName+"/"+string(b.Provider)] = b
		return false
	})
	return res
}

func (e *hc03Env) supply() sdk.Int {
	return e.app.BankKeeper.GetSupply(e.ctx).GetTotal().AmountOf("stake")
}

func (e *hc03Env) bal(a sdk.AccAddress) sdk.Int {
	return e.app.BankKeeper.GetBalance(e.ctx, a, "stake").Amount
}

var hc03Stats = map[string]int{}

func TestHC03Fuzz(t *testing.T) {
	for seed := int64(1); seed <= 40; seed++ {
		runHC03(t, seed)
	}
	t.Logf("%v", hc03Stats)
}

func runHC03(t *testing.T, seed int64) {
	r := rand.New(rand.NewSource(seed))
	app := simapp.Setup(false)
	ctx := app.BaseApp.NewContext(false, tmproto.Header{Height: 1, Time: time.Date(2021, 1, 1, 0, 0, 0, 0, time.UTC)})
	k := app.ServiceKeeper
	p := types.DefaultParams()
	p.ArbitrationTimeLimit = 10 * time.Second
	p.ComplaintRetrospect = 5 * time.Second
	p.MinDeposit = sdk.NewCoins(sdk.NewInt64Coin("stake", 100))
	p.MinDepositMultiple = 10
	k.SetParams(ctx, p)
	e := &hc03Env{t: t, app: app, k: k, ctx: ctx, h: service.NewHandler(k)}

	addrs := simapp.AddTestAddrs(app, ctx, 6, sdk.NewInt(1000000))
	author, owners, consumers := addrs[0], addrs[1:4], addrs[4:6]
	base := addrs[1]
	providers := []sdk.AccAddress{
		owners[0], owners[1], addrs[4],
		sdk.AccAddress([]byte{1}),
		sdk.AccAddress(append(append([]byte{}, base...), []byte("stake")...)),
		sdk.AccAddress(append(append([]byte{}, base...), 0)),
		k.GetServiceDepositAccount(ctx).GetAddress(),
		sdk.AccAddress(base[:19]),
	}
	services := []string{"a", "ab", "a-b"}
	schemas := `{"input":{"type":"object"},"output":{"type":"object"}}`
	for _, s := range services {
		if err := e.deliver(types.NewMsgDefineService(s, "", nil, author, "", schemas)); err != nil {
			t.Fatal(err)
		}
	}

	pricings := []string{`{"price":"1stake"}`, `{"price":"20stake"}`, `{"price":"0stake"}`, `{"price":"7stake","promotions_by_volume":[{"volume":1,"discount":"0.5"}]}`}

	for step := 0; step < 400; step++ {
		before := e.bindings()
		supplyBefore := e.supply()
		ownerBal := map[string]sdk.Int{}
		for _, o := range owners {
			ownerBal[string(o)] = e.bal(o)
		}
		params := k.GetParams(e.ctx)

		svc := services[r.Intn(len(services))]
		prov := providers[r.Intn(len(providers))]
		owner := owners[r.Intn(len(owners))]
		key := svc + "/" + string(prov)
		amt := sdk.NewCoins(sdk.NewInt64Coin("stake", int64(1+r.Intn(500))))
		desc := ""
		var err error
		kind := ""
		switch op := r.Intn(14); op {
		case 0, 1:
			kind = "bind"
			err = e.deliver(types.NewMsgBindService(svc, prov, amt, pricings[r.Intn(len(pricings))], uint64(1+r.Intn(10)), "{}", owner))
		case 2:
			kind = "update"
			dep := amt
			if r.Intn(2) == 0 {
				dep = nil
			}
			pr := ""
			if r.Intn(2) == 0 {
				pr = pricings[r.Intn(len(pricings))]
			}
			if b, ok := before[key]; ok && r.Intn(4) > 0 {
				owner = b.Owner
			}
			err = e.deliver(types.NewMsgUpdateServiceBinding(svc, prov, dep, pr, uint64(r.Intn(5)), "{}", owner))
			amt = dep
		case 3:
			kind = "disable"
			if b, ok := before[key]; ok && r.Intn(4) > 0 {
				owner = b.Owner
			}
			err = e.deliver(types.NewMsgDisableServiceBinding(svc, prov, owner))
		case 4:
			kind = "enable"
			dep := amt
			if r.Intn(2) == 0 {
				dep = nil
			}
			if b, ok := before[key]; ok && r.Intn(4) > 0 {
				owner = b.Owner
			}
			err = e.deliver(types.NewMsgEnableServiceBinding(svc, prov, dep, owner))
			amt = dep
		case 5, 6:
			kind = "refund"
			if b, ok := before[key]; ok && r.Intn(4) > 0 {
				owner = b.Owner
			}
			err = e.deliver(types.NewMsgRefundServiceDeposit(svc, prov, owner))
		case 7:
			kind = "params"
			np := params
			np.SlashFraction = []sdk.Dec{sdk.ZeroDec(), sdk.OneDec(), sdk.NewDecWithPrec(1, 3), sdk.NewDecWithPrec(5, 1), sdk.NewDecWithPrec(999999999999999999, 18)}[r.Intn(5)]
			np.ArbitrationTimeLimit = time.Duration(1 + r.Intn(20000000000))
			np.ComplaintRetrospect = time.Duration(1 + r.Intn(20000000000))
			np.MinDeposit = []sdk.Coins{{}, sdk.NewCoins(sdk.NewInt64Coin("stake", 1)), sdk.NewCoins(sdk.NewInt64Coin("stake", 300)), sdk.NewCoins(sdk.NewInt64Coin("aaa", 1), sdk.NewInt64Coin("stake", 50))}[r.Intn(4)]
			np.MinDepositMultiple = int64(1 + r.Intn(30))
			k.SetParams(e.ctx, np)
		case 8, 9:
			kind = "call"
			n := 1 + r.Intn(3)
			ps := []sdk.AccAddress{}
			seen := map[string]bool{}
			for len(ps) < n {
				q := providers[r.Intn(len(providers))]
				if !seen[string(q)] {
					seen[string(q)] = true
					ps = append(ps, q)
				}
			}
			err = e.deliver(types.NewMsgCallService(svc, ps, consumers[r.Intn(2)], `{"header":{},"body":{}}`, sdk.NewCoins(sdk.NewInt64Coin("stake", 50)), int64(2+r.Intn(10)), r.Intn(5) == 0, r.Intn(2) == 0, uint64(12+r.Intn(5)), int64(1+r.Intn(3))))
		case 10, 11:
			kind = "respond"
			// only 20-byte providers can sign
			if len(prov) != 20 {
				continue
			}
			it := k.ActiveRequestsIterator(e.ctx, svc, prov)
			var ids [][]byte
			for ; it.Valid(); it.Next() {
				var id gogotypes.BytesValue
				app.AppCodec().MustUnmarshalBinaryBare(it.Value(), &id)
				ids = append(ids, id.Value)
			}
			it.Close()
			if len(ids) == 0 {
				continue
			}
			out := `{"header":{},"body":{}}`
			if r.Intn(2) == 0 {
				out = `{}`
			}
			err = e.deliver(types.NewMsgRespondService(ids[r.Intn(len(ids))], prov, `{"code":200,"message":""}`, out))
		case 12, 13:
			kind = "endblock"
			service.EndBlocker(e.ctx, k)
			dt := time.Duration(r.Intn(8000000000))
			e.ctx = e.ctx.WithBlockHeight(e.ctx.BlockHeight() + 1).WithBlockTime(e.ctx.BlockTime().Add(dt))
		}
		desc = fmt.Sprintf("seed %d step %d %s svc=%s prov=%x owner=%x amt=%s err=%v", seed, step, kind, svc, []byte(prov), []byte(owner), amt, err)

		hc03Stats[kind+fmt.Sprintf("/%v", err == nil)]++
		after := e.bindings()
		sum := sdk.ZeroInt()
		for _, b := range after {
			sum = sum.Add(b.Deposit.AmountOf("stake"))
			if len(b.Deposit) > 1 {
				t.Fatalf("%s: multi denom deposit %s", desc, b.Deposit)
			}
		}
		if !sum.Equal(e.depositBalance()) {
			t.Fatalf("%s: sum %s != balance %s", desc, sum, e.depositBalance())
		}
		burned := sdk.ZeroInt()
		for kk, a := range after {
			b, existed := before[kk]
			da := a.Deposit.AmountOf("stake")
			db := sdk.ZeroInt()
			if existed {
				db = b.Deposit.AmountOf("stake")
			}
			if da.Equal(db) {
				if kind == "refund" && err == nil && kk == key {
					t.Fatalf("%s: refund success without change", desc)
				}
				continue
			}
			if da.GT(db) {
				if !(kind == "bind" || kind == "update" || kind == "enable") || err != nil || kk != key {
					t.Fatalf("%s: deposit grew %s -> %s", desc, db, da)
				}
				if !da.Sub(db).Equal(amt.AmountOf("stake")) {
					t.Fatalf("%s: grew by wrong amount %s -> %s", desc, db, da)
				}
				if !ownerBal[string(a.Owner)].Sub(e.bal(a.Owner)).Equal(da.Sub(db)) {
					t.Fatalf("%s: owner debited %s", desc, ownerBal[string(a.Owner)].Sub(e.bal(a.Owner)))
				}
				if !a.Owner.Equals(owner) {
					t.Fatalf("%s: not owner", desc)
				}
				continue
			}
			// shrank
			if kind == "refund" {
				if err != nil || kk != key {
					t.Fatalf("%s: shrank on failed refund", desc)
				}
				if !da.IsZero() {
					t.Fatalf("%s: partial refund", desc)
				}
				if b.Available || db.IsZero() {
					t.Fatalf("%s: refund of available/zero", desc)
				}
				rt := b.DisabledTime.Add(params.ArbitrationTimeLimit).Add(params.ComplaintRetrospect)
				if e.ctx.BlockTime().Before(rt) {
					t.Fatalf("%s: early refund", desc)
				}
				if !e.bal(b.Owner).Sub(ownerBal[string(b.Owner)]).Equal(db) {
					t.Fatalf("%s: owner not credited", desc)
				}
				continue
			}
			if kind == "respond" || kind == "endblock" {
				hc03Stats["slash-"+kind]++
				burned = burned.Add(db.Sub(da))
				continue
			}
			t.Fatalf("%s: deposit shrank %s -> %s", desc, db, da)
		}
		if kind == "refund" && err == nil {
			b := before[key]
			if b.Available || b.Deposit.IsZero() {
				t.Fatalf("%s: refund ok on available/zero", desc)
			}
		}
		if !supplyBefore.Sub(e.supply()).Equal(burned) {
			t.Fatalf("%s: supply fell by %s, burned %s", desc, supplyBefore.Sub(e.supply()), burned)
		}
		for kk := range before {
			if _, ok := after[kk]; !ok {
				t.Fatalf("%s: binding vanished", desc)
			}
		}
		// availability -> disabled time consistency
		for kk, a := range after {
			if !a.Available && a.DisabledTime.IsZero() && len(a.Owner) > 0 {
				t.Fatalf("%s: unavailable binding %q without disabled time", desc, kk)
			}
		}
	}
}
