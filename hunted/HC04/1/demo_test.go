package service_test

import (
	"math"
	"testing"
	"time"

	"github.com/stretchr/testify/require"
	"github.com/tendermint/tendermint/crypto/tmhash"
	tmbytes "github.com/tendermint/tendermint/libs/bytes"
	tmproto "github.com/tendermint/tendermint/proto/tendermint/types"

	sdk "github.com/cosmos/cosmos-sdk/types"

	service "github.com/irismod/service"
	simapp "github.com/irismod/service/app"
	"github.com/irismod/service/types"
)

// TestFinding1: a request whose timeout makes "request height + timeout" overflow int64 gets an
// expiration height in the past, is never expired by the end blocker, and its provider is never slashed.
func TestFinding1(t *testing.T) {
	const (
		schemas = `{"input":{"type":"object"},"output":{"type":"object"}}`
		input   = `{"header":{},"body":{}}`
	)

	app := simapp.Setup(false)
	now := time.Date(2021, 1, 1, 0, 0, 0, 0, time.UTC)
	height := int64(10)
	ctx := app.BaseApp.NewContext(false, tmproto.Header{}).WithBlockHeight(height).WithBlockTime(now)
	k := app.ServiceKeeper
	k.SetParams(ctx, types.DefaultParams())

	addrs := simapp.AddTestAddrs(app, ctx, 4, sdk.NewInt(1000000))
	author, owner, provider, consumer := addrs[0], addrs[1], addrs[2], addrs[3]

	h := service.NewHandler(k)
	txn := 0
	deliver := func(msg sdk.Msg) (err error) { // the way baseapp delivers a message
		if err := msg.ValidateBasic(); err != nil {
			return err
		}
		txn++
		txCtx := ctx.WithValue(types.TxHash, tmhash.Sum([]byte{byte(txn)})).WithValue(types.MsgIndex, int64(0))
		cacheCtx, write := txCtx.CacheContext()
		defer func() {
			if r := recover(); r != nil {
				err = r.(error)
			}
		}()
		if _, err = h(cacheCtx, msg); err == nil {
			write()
		}
		return err
	}

	require.NoError(t, deliver(types.NewMsgDefineService("svc", "", nil, author, "", schemas)))
	deposit := sdk.NewCoins(sdk.NewCoin("stake", sdk.NewInt(10000)))
	require.NoError(t, deliver(types.NewMsgBindService("svc", provider, deposit, `{"price":"1stake"}`, 1, "{}", owner)))

	// governance: any value the parameter store accepts; the slash fraction is 50%
	params := k.GetParams(ctx)
	params.MaxRequestTimeout = math.MaxInt64
	params.SlashFraction = sdk.NewDecWithPrec(5, 1)
	if err := params.Validate(); err != nil {
		t.Logf("the parameter store refuses this value, the history is not possible: %v", err)
		return
	}
	k.SetParams(ctx, params)

	// an ordinary (not super mode), one-off call with the largest accepted timeout
	feeCap := sdk.NewCoins(sdk.NewCoin("stake", sdk.NewInt(10)))
	if err := deliver(types.NewMsgCallService(
		"svc", []sdk.AccAddress{provider}, consumer, input, feeCap, math.MaxInt64, false, false, 0, 0,
	)); err != nil {
		t.Logf("the call is refused, the history is not possible: %v", err)
		return
	}

	// end of block 10: the request is issued
	service.EndBlocker(ctx, k)

	var requestID tmbytes.HexBytes
	var request types.Request
	k.IterateRequests(ctx, func(id tmbytes.HexBytes, _ types.CompactRequest) bool {
		requestID = append(tmbytes.HexBytes{}, id...)
		return true
	})
	require.NotNil(t, requestID, "the request must have been issued")
	request, found := k.GetRequest(ctx, requestID)
	require.True(t, found)
	require.False(t, request.SuperMode)
	t.Logf("request issued at height %d, recorded expiration height %d", request.RequestHeight, request.ExpirationHeight)

	// a few more blocks; nobody answers
	for i := 0; i < 5; i++ {
		height++
		now = now.Add(5 * time.Second)
		ctx = ctx.WithBlockHeight(height).WithBlockTime(now)
		service.EndBlocker(ctx, k)
	}

	binding, _ := k.GetServiceBinding(ctx, "svc", provider)
	stillActive := k.IsRequestActive(ctx, requestID)

	// The chain is at height 15, the request's expiration height lies in the past, it was never answered and it
	// is not a super mode request: by C04 the provider must have been slashed exactly once (10000 -> 5000).
	if request.ExpirationHeight < height {
		require.Falsef(t, stillActive,
			"C04 violated: request %s expired at height %d (now %d) unanswered but is still active and was never timed out",
			requestID, request.ExpirationHeight, height)
		require.Equalf(t, "5000stake", binding.Deposit.String(),
			"C04 violated: request expired at height %d (now %d) unanswered, but the provider's deposit was not slashed once",
			request.ExpirationHeight, height)
	}
}
