package service_test

import (
	"fmt"
	"strings"
	"math/rand"
	"os"
	"strconv"
	"testing"
	"time"

	"github.com/tendermint/tendermint/crypto/tmhash"
	tmbytes "github.com/tendermint/tendermint/libs/bytes"
	tmproto "github.com/tendermint/tendermint/proto/tendermint/types"

	sdk "github.com/cosmos/cosmos-sdk/types"

	service "github.com/irismod/service"
	simapp "github.com/irismod/service/app"
	"github.com/irismod/service/keeper"
	"github.com/irismod/service/types"
)

const (
	fzSchemas = `{"input":{"type":"object"},"output":{"type":"object"}}`
	fzInput   = `{"header":{},"body":{}}`
	fzGoodOut = `{"header":{},"body":{}}`
	fzBadOut  = `{"body":{}}`
	fzRes200  = `{"code":200,"message":""}`
	fzRes500  = `{"code":500,"message":"x"}`
)

type fzBind struct {
	svc  string
	prov sdk.AccAddress
}

type fzSnap struct {
	deposit   sdk.Int
	available bool
	disabled  time.Time
}

type fz struct {
	t       *testing.T
	rng     *rand.Rand
	app     *simapp.SimApp
	k       keeper.Keeper
	ctx     sdk.Context
	h       sdk.Handler
	height  int64
	now     time.Time
	txn     int
	authors []sdk.AccAddress
	owners  []sdk.AccAddress
	provs   []sdk.AccAddress
	cons    []sdk.AccAddress
	svcs    []string
	binds   []fzBind
	ctxIDs  []tmbytes.HexBytes
	modIDs  []tmbytes.HexBytes
	log     []string
	inCb    int
	fail    bool
}

var fzStats = map[string]int{}

func (f *fz) logf(s string, a ...interface{}) {
	f.log = append(f.log, fmt.Sprintf("[h=%d] ", f.height)+fmt.Sprintf(s, a...))
}

func (f *fz) violation(s string, a ...interface{}) {
	f.fail = true
	msg := fmt.Sprintf(s, a...)
	n := len(f.log)
	start := 0
	if n > 400 {
		start = n - 400
	}
	f.t.Errorf("VIOLATION: %s\nhistory:\n", msg)
	for _, l := range f.log[start:] {
		f.t.Log(l)
	}
}

func newFz(t *testing.T, seed int64) *fz {
	app := simapp.Setup(false)
	ctx := app.BaseApp.NewContext(false, tmproto.Header{})
	f := &fz{t: t, rng: rand.New(rand.NewSource(seed)), app: app, k: app.ServiceKeeper}
	f.now = time.Date(2021, 1, 1, 0, 0, 0, 0, time.UTC)
	f.height = 10
	f.ctx = ctx.WithBlockHeight(f.height).WithBlockTime(f.now)
	f.k.SetParams(f.ctx, types.DefaultParams())
	addrs := simapp.AddTestAddrs(app, f.ctx, 9, sdk.NewInt(1000000000))
	f.authors = addrs[0:1]
	f.owners = addrs[1:3]
	f.provs = append([]sdk.AccAddress{}, addrs[3:6]...)
	// a provider address that is a strict prefix of another provider and one longer
	f.provs = append(f.provs, sdk.AccAddress(addrs[3][:10]))
	f.provs = append(f.provs, sdk.AccAddress(append(append([]byte{}, addrs[4]...), 0x01, 0x02)))
	f.cons = addrs[6:9]
	f.svcs = []string{"svc", "svc-a"}
	f.h = service.NewHandler(f.k)
	// the module's consumer and one user consumer are poor
	for _, c := range []sdk.AccAddress{f.cons[0], f.cons[1]} {
		bal := f.app.BankKeeper.GetBalance(f.ctx, c, "stake")
		if err := f.app.BankKeeper.SendCoins(f.ctx, c, f.authors[0], sdk.NewCoins(bal.Sub(sdk.NewCoin("stake", sdk.NewInt(40))))); err != nil {
			panic(err)
		}
	}
	return f
}

func (f *fz) txCtx() sdk.Context {
	f.txn++
	return f.ctx.WithValue(types.TxHash, tmhash.Sum([]byte("tx"+strconv.Itoa(f.txn)))).WithValue(types.MsgIndex, int64(0))
}

// deliver like baseapp
func (f *fz) deliver(msg sdk.Msg) (err error) {
	if e := msg.ValidateBasic(); e != nil {
		return e
	}
	ctx := f.txCtx()
	cctx, write := ctx.CacheContext()
	defer func() {
		if r := recover(); r != nil {
			err = fmt.Errorf("panic: %v", r)
		}
	}()
	_, err = f.h(cctx, msg)
	if err == nil {
		write()
	}
	return err
}

func (f *fz) snapshot() map[string]fzSnap {
	m := map[string]fzSnap{}
	f.k.IterateServiceBindings(f.ctx, func(b types.ServiceBinding) bool {
		m[b.ServiceName+"/"+b.Provider.String()] = fzSnap{b.Deposit.AmountOf("stake"), b.Available, b.DisabledTime}
		return false
	})
	return m
}

type fzReq struct {
	id    tmbytes.HexBytes
	req   types.Request
	found bool
}

func (f *fz) activeRequests() []fzReq {
	var out []fzReq
	f.k.IterateRequests(f.ctx, func(id tmbytes.HexBytes, r types.CompactRequest) bool {
		idc := append(tmbytes.HexBytes{}, id...)
		if f.k.IsRequestActive(f.ctx, idc) {
			req, found := f.k.GetRequest(f.ctx, idc)
			out = append(out, fzReq{idc, req, found})
		}
		return false
	})
	return out
}

func (f *fz) minDeposit(svc string, prov sdk.AccAddress) sdk.Int {
	p := f.k.GetParams(f.ctx)
	pricing := f.k.GetPricing(f.ctx, svc, prov)
	m := pricing.Price.AmountOf("stake").Mul(sdk.NewInt(p.MinDepositMultiple))
	if m.LT(p.MinDeposit.AmountOf("stake")) {
		m = p.MinDeposit.AmountOf("stake")
	}
	return m
}

func (f *fz) totals() (supply sdk.Int, depAcc sdk.Int, sumDep sdk.Int) {
	supply = f.app.BankKeeper.GetSupply(f.ctx).GetTotal().AmountOf("stake")
	depAcc = f.app.BankKeeper.GetBalance(f.ctx, f.k.GetServiceDepositAccount(f.ctx).GetAddress(), "stake").Amount
	sumDep = sdk.ZeroInt()
	f.k.IterateServiceBindings(f.ctx, func(b types.ServiceBinding) bool {
		sumDep = sumDep.Add(b.Deposit.AmountOf("stake"))
		return false
	})
	return
}

// check compares the state after a step with the expectation.
// delta: explicit deposit changes by binding key (may be nil); refunded: binding keys set to zero
// slashes: number of expected slashes by binding key
func (f *fz) check(what string, before map[string]fzSnap, supplyBefore sdk.Int, delta map[string]sdk.Int, refunded map[string]bool, slashes map[string]int, availChange map[string]*bool) {
	after := f.snapshot()
	frac := f.k.GetParams(f.ctx).SlashFraction
	burned := sdk.ZeroInt()
	for key, a := range after {
		b, existed := before[key]
		if !existed {
			continue
		}
		exp := b.deposit
		if d, ok := delta[key]; ok {
			exp = exp.Add(d)
		}
		if refunded[key] {
			exp = sdk.ZeroInt()
		}
		n := slashes[key]
		for i := 0; i < n; i++ {
			// floor(exp * frac)
			sl := sdk.NewDecFromInt(exp).MulTruncate(frac).TruncateInt()
			burned = burned.Add(sl)
			exp = exp.Sub(sl)
		}
		if !a.deposit.Equal(exp) {
			f.violation("%s: binding %s deposit %s, expected %s (before %s, %d slashes at fraction %s)", what, key, a.deposit, exp, b.deposit, n, frac)
		}
		// availability
		expAvail := b.available
		expDisabled := b.disabled
		if ac, ok := availChange[key]; ok && ac != nil {
			expAvail = *ac
			if expAvail {
				expDisabled = time.Time{}
			} else {
				expDisabled = f.now
			}
		}
		if n > 0 && expAvail {
			var svc string
			var prov sdk.AccAddress
			for _, bd := range f.binds {
				if bd.svc+"/"+bd.prov.String() == key {
					svc, prov = bd.svc, bd.prov
				}
			}
			if exp.LT(f.minDeposit(svc, prov)) {
				expAvail = false
				expDisabled = f.now
			}
		}
		if a.available != expAvail {
			f.violation("%s: binding %s available=%v, expected %v (deposit %s, min %s, slashes %d)", what, key, a.available, expAvail, a.deposit, "?", n)
		} else if !a.disabled.Equal(expDisabled) {
			f.violation("%s: binding %s disabled time %v, expected %v", what, key, a.disabled, expDisabled)
		}
	}
	supply, depAcc, sumDep := f.totals()
	if !supplyBefore.Sub(burned).Equal(supply) {
		f.violation("%s: supply %s, expected %s - %s", what, supply, supplyBefore, burned)
	}
	if !depAcc.Equal(sumDep) {
		f.violation("%s: deposit account holds %s but bindings' deposits sum to %s", what, depAcc, sumDep)
	}
}

func (f *fz) pick(a []sdk.AccAddress) sdk.AccAddress { return a[f.rng.Intn(len(a))] }

func (f *fz) randPricing() string {
	prices := []string{"0stake", "1stake", "2stake", "5stake", "30stake", "100stake"}
	p := prices[f.rng.Intn(len(prices))]
	if f.rng.Intn(3) == 0 {
		return fmt.Sprintf(`{"price":"%s","promotions_by_volume":[{"volume":1,"discount":"0.5"}]}`, p)
	}
	return fmt.Sprintf(`{"price":"%s"}`, p)
}

func (f *fz) randDeposit() sdk.Coins {
	amts := []int64{1, 100, 5999, 6000, 6001, 6007, 10000, 20000, 1000003}
	return sdk.NewCoins(sdk.NewCoin("stake", sdk.NewInt(amts[f.rng.Intn(len(amts))])))
}

func (f *fz) bindingOwner(prov sdk.AccAddress) sdk.AccAddress {
	if o, ok := f.k.GetOwner(f.ctx, prov); ok {
		return o
	}
	return f.pick(f.owners)
}

func (f *fz) stepTx() {
	before := f.snapshot()
	supplyBefore, _, _ := f.totals()
	delta := map[string]sdk.Int{}
	refunded := map[string]bool{}
	slashes := map[string]int{}
	avail := map[string]*bool{}
	tr, fa := true, false
	what := ""

	switch c := f.rng.Intn(100); {
	case c < 8: // bind
		svc := f.svcs[f.rng.Intn(len(f.svcs))]
		prov := f.pick(f.provs)
		owner := f.bindingOwner(prov)
		dep := f.randDeposit()
		msg := types.NewMsgBindService(svc, prov, dep, f.randPricing(), uint64(1+f.rng.Intn(5)), "{}", owner)
		err := f.deliver(msg)
		what = fmt.Sprintf("bind %s/%X dep=%s pricing=%s err=%v", svc, prov.Bytes(), dep, msg.Pricing, err)
		if err == nil {
			f.binds = append(f.binds, fzBind{svc, prov})
		}
	case c < 14: // update binding
		if len(f.binds) == 0 {
			return
		}
		b := f.binds[f.rng.Intn(len(f.binds))]
		var dep sdk.Coins
		if f.rng.Intn(2) == 0 {
			dep = f.randDeposit()
		}
		pr := ""
		if f.rng.Intn(2) == 0 {
			pr = f.randPricing()
		}
		msg := types.NewMsgUpdateServiceBinding(b.svc, b.prov, dep, pr, uint64(f.rng.Intn(5)), "{}", f.bindingOwner(b.prov))
		err := f.deliver(msg)
		what = fmt.Sprintf("update %s/%X dep=%s pricing=%s err=%v", b.svc, b.prov.Bytes(), dep, pr, err)
		if err == nil && !dep.Empty() {
			delta[b.svc+"/"+b.prov.String()] = dep.AmountOf("stake")
		}
	case c < 18: // disable
		if len(f.binds) == 0 {
			return
		}
		b := f.binds[f.rng.Intn(len(f.binds))]
		err := f.deliver(types.NewMsgDisableServiceBinding(b.svc, b.prov, f.bindingOwner(b.prov)))
		what = fmt.Sprintf("disable %s/%X err=%v", b.svc, b.prov.Bytes(), err)
		if err == nil {
			avail[b.svc+"/"+b.prov.String()] = &fa
		}
	case c < 24: // enable
		if len(f.binds) == 0 {
			return
		}
		b := f.binds[f.rng.Intn(len(f.binds))]
		var dep sdk.Coins
		if f.rng.Intn(2) == 0 {
			dep = f.randDeposit()
		}
		err := f.deliver(types.NewMsgEnableServiceBinding(b.svc, b.prov, dep, f.bindingOwner(b.prov)))
		what = fmt.Sprintf("enable %s/%X dep=%s err=%v", b.svc, b.prov.Bytes(), dep, err)
		if err == nil {
			avail[b.svc+"/"+b.prov.String()] = &tr
			if !dep.Empty() {
				delta[b.svc+"/"+b.prov.String()] = dep.AmountOf("stake")
			}
		}
	case c < 28: // refund
		if len(f.binds) == 0 {
			return
		}
		b := f.binds[f.rng.Intn(len(f.binds))]
		err := f.deliver(types.NewMsgRefundServiceDeposit(b.svc, b.prov, f.bindingOwner(b.prov)))
		what = fmt.Sprintf("refund %s/%X err=%v", b.svc, b.prov.Bytes(), err)
		if err == nil {
			refunded[b.svc+"/"+b.prov.String()] = true
		}
	case c < 42: // call
		svc := f.svcs[f.rng.Intn(len(f.svcs))]
		n := 1 + f.rng.Intn(3)
		var provs []sdk.AccAddress
		seen := map[string]bool{}
		for i := 0; i < n; i++ {
			p := f.pick(f.provs)
			if !seen[p.String()] {
				seen[p.String()] = true
				provs = append(provs, p)
			}
		}
		timeout := int64(1 + f.rng.Intn(4))
		super := f.rng.Intn(5) == 0
		repeated := f.rng.Intn(2) == 0
		freq := uint64(0)
		total := int64(0)
		if repeated {
			freq = uint64(timeout) + uint64(f.rng.Intn(3))
			total = int64(1 + f.rng.Intn(3))
			if f.rng.Intn(4) == 0 {
				total = -1
			}
		}
		cap := sdk.NewCoins(sdk.NewCoin("stake", sdk.NewInt(int64(1+f.rng.Intn(200)))))
		msg := types.NewMsgCallService(svc, provs, f.pick(f.cons), fzInput, cap, timeout, super, repeated, freq, total)
		ctxBefore := f.txn
		err := f.deliver(msg)
		what = fmt.Sprintf("call %s provs=%d timeout=%d super=%v rep=%v freq=%d total=%d cap=%s err=%v", svc, len(provs), timeout, super, repeated, freq, total, cap, err)
		if err == nil {
			id := types.GenerateRequestContextID(tmhash.Sum([]byte("tx"+strconv.Itoa(ctxBefore+1))), 0)
			f.ctxIDs = append(f.ctxIDs, id)
		}
	case c < 48: // module creates a context
		svc := f.svcs[f.rng.Intn(len(f.svcs))]
		n := 1 + f.rng.Intn(3)
		var provs []sdk.AccAddress
		seen := map[string]bool{}
		for i := 0; i < n; i++ {
			p := f.pick(f.provs)
			if !seen[p.String()] {
				seen[p.String()] = true
				provs = append(provs, p)
			}
		}
		timeout := int64(1 + f.rng.Intn(4))
		super := f.rng.Intn(5) == 0
		repeated := f.rng.Intn(2) == 0
		freq := uint64(0)
		total := int64(0)
		if repeated {
			freq = uint64(timeout) + uint64(f.rng.Intn(3))
			total = int64(1 + f.rng.Intn(3))
		}
		state := types.RUNNING
		if f.rng.Intn(3) == 0 {
			state = types.PAUSED
		}
		cap := sdk.NewCoins(sdk.NewCoin("stake", sdk.NewInt(int64(1+f.rng.Intn(200)))))
		ctx := f.txCtx()
		cctx, write := ctx.CacheContext()
		id, err := f.k.CreateRequestContext(cctx, svc, provs, f.cons[0], fzInput, cap, timeout, super, repeated, freq, total, state, uint32(1+f.rng.Intn(len(provs))), "mod")
		if err == nil {
			write()
			f.modIDs = append(f.modIDs, id)
		}
		what = fmt.Sprintf("module create %s provs=%d timeout=%d super=%v rep=%v freq=%d total=%d state=%v err=%v", svc, len(provs), timeout, super, repeated, freq, total, state, err)
	case c < 75: // respond
		act := f.activeRequests()
		if len(act) == 0 {
			return
		}
		r := act[f.rng.Intn(len(act))]
		kind := f.rng.Intn(10)
		var msg *types.MsgRespondService
		switch {
		case kind < 5:
			msg = types.NewMsgRespondService(r.id, r.req.Provider, fzRes200, fzGoodOut)
		case kind < 8:
			msg = types.NewMsgRespondService(r.id, r.req.Provider, fzRes200, fzBadOut)
		default:
			msg = types.NewMsgRespondService(r.id, r.req.Provider, fzRes500, "")
		}
		if len(r.req.Provider) != 20 {
			return // cannot sign
		}
		err := f.deliver(msg)
		what = fmt.Sprintf("respond %s by %X kind=%d super=%v err=%v", r.id, r.req.Provider.Bytes(), kind, r.req.SuperMode, err)
		if err == nil && kind >= 5 && kind < 8 {
			slashes[r.req.ServiceName+"/"+r.req.Provider.String()] = 1
		}
	case c < 90: // context ops by consumer
		if len(f.ctxIDs) == 0 {
			return
		}
		id := f.ctxIDs[f.rng.Intn(len(f.ctxIDs))]
		rc, found := f.k.GetRequestContext(f.ctx, id)
		if !found {
			return
		}
		var err error
		op := f.rng.Intn(4)
		switch op {
		case 0:
			err = f.deliver(types.NewMsgPauseRequestContext(id, rc.Consumer))
		case 1:
			err = f.deliver(types.NewMsgStartRequestContext(id, rc.Consumer))
		case 2:
			err = f.deliver(types.NewMsgKillRequestContext(id, rc.Consumer))
		case 3:
			var provs []sdk.AccAddress
			if f.rng.Intn(2) == 0 {
				provs = []sdk.AccAddress{f.pick(f.provs)}
			}
			to := int64(f.rng.Intn(5))
			fr := uint64(f.rng.Intn(7))
			err = f.deliver(types.NewMsgUpdateRequestContext(id, provs, nil, to, fr, int64(f.rng.Intn(4)), rc.Consumer))
		}
		what = fmt.Sprintf("ctxop %d on %s err=%v", op, id, err)
	case c < 92: // fund a poor consumer
		cns := f.cons[f.rng.Intn(2)]
		amt := sdk.NewCoins(sdk.NewCoin("stake", sdk.NewInt(int64(1+f.rng.Intn(60)))))
		err := f.app.BankKeeper.SendCoins(f.ctx, f.authors[0], cns, amt)
		what = fmt.Sprintf("fund %X %s err=%v", cns.Bytes(), amt, err)
	case c < 95: // module ops outside callbacks
		f.moduleRandomOp(f.ctx, "direct")
		what = "module direct op"
	default: // governance
		p := f.k.GetParams(f.ctx)
		switch f.rng.Intn(4) {
		case 0:
			fr := []string{"0", "1", "0.001", "0.5", "0.999999999999999999", "0.000000000000000001", "0.3333"}
			p.SlashFraction = sdk.MustNewDecFromStr(fr[f.rng.Intn(len(fr))])
		case 1:
			md := []int64{0, 1, 6000, 6001, 10000, 100000}
			p.MinDeposit = sdk.NewCoins(sdk.NewCoin("stake", sdk.NewInt(md[f.rng.Intn(len(md))])))
		case 2:
			mm := []int64{1, 10, 200, 1000, 100000}
			p.MinDepositMultiple = mm[f.rng.Intn(len(mm))]
		case 3:
			p.MaxRequestTimeout = int64(3 + f.rng.Intn(100))
		}
		f.k.SetParams(f.ctx, p)
		what = fmt.Sprintf("gov slash=%s mindep=%s mult=%d maxto=%d", p.SlashFraction, p.MinDeposit, p.MinDepositMultiple, p.MaxRequestTimeout)
	}
	f.logf("%s", what)
	if len(what) > 4 {
		k := what[:4]
		if strings.HasSuffix(what, "err=<nil>") {
			k += " ok"
		}
		fzStats[k]++
	}
	for _, n := range slashes {
		fzStats["slash-bad"] += n
	}
	f.check(what, before, supplyBefore, delta, refunded, slashes, avail)
}

func (f *fz) moduleRandomOp(ctx sdk.Context, where string) {
	if len(f.modIDs) == 0 {
		return
	}
	id := f.modIDs[f.rng.Intn(len(f.modIDs))]
	var err error
	op := f.rng.Intn(4)
	switch op {
	case 0:
		err = f.k.PauseRequestContext(ctx, id, f.cons[0])
	case 1:
		err = f.k.StartRequestContext(ctx, id, f.cons[0])
	case 2:
		err = f.k.KillRequestContext(ctx, id, f.cons[0])
	case 3:
		var provs []sdk.AccAddress
		if f.rng.Intn(2) == 0 {
			provs = []sdk.AccAddress{f.pick(f.provs)}
		}
		err = f.k.UpdateRequestContext(ctx, id, provs, uint32(f.rng.Intn(2)), nil, int64(f.rng.Intn(5)), uint64(f.rng.Intn(7)), int64(f.rng.Intn(4)), f.cons[0])
	}
	f.logf("  module op (%s) %d on %s err=%v", where, op, id, err)
	fzStats["modop-"+where]++
	if err == nil {
		fzStats["modop-ok-"+where]++
	}
}

func (f *fz) endBlock() {
	before := f.snapshot()
	supplyBefore, _, _ := f.totals()
	act := f.activeRequests()
	slashes := map[string]int{}
	var expiring []fzReq
	for _, r := range act {
		if !r.found {
			f.violation("active request %s has no request/context", r.id)
			continue
		}
		if r.req.ExpirationHeight == f.height {
			expiring = append(expiring, r)
			if !r.req.SuperMode {
				slashes[r.req.ServiceName+"/"+r.req.Provider.String()]++
			}
		}
		if r.req.ExpirationHeight < f.height {
			f.violation("request %s expired at %d is still active at %d", r.id, r.req.ExpirationHeight, f.height)
		}
	}
	service.EndBlocker(f.ctx, f.k)
	f.logf("endblock: %d expiring, slashes=%v", len(expiring), slashes)
	fzStats["expiring"] += len(expiring)
	for k, n := range slashes {
		fzStats["slash-timeout"] += n
		if n > 1 {
			fzStats["multi-slash-one-block"]++
		}
		if !before[k].available {
			fzStats["slash-unavailable"] += n
		}
		if before[k].deposit.IsZero() {
			fzStats["slash-zero-deposit"] += n
		}
	}
	f.check("endblock", before, supplyBefore, nil, nil, slashes, nil)
	for _, r := range expiring {
		if f.k.IsRequestActive(f.ctx, r.id) {
			f.violation("request %s expiring at %d still active after end block", r.id, f.height)
		}
	}
	for _, r := range act {
		if r.found && r.req.ExpirationHeight > f.height && !f.k.IsRequestActive(f.ctx, r.id) {
			f.violation("request %s (expires %d) not active any more after end block %d", r.id, r.req.ExpirationHeight, f.height)
		}
	}
	f.height++
	if f.rng.Intn(15) == 0 {
		f.now = f.now.Add(21 * 24 * time.Hour)
	} else {
		f.now = f.now.Add(5 * time.Second)
	}
	f.ctx = f.ctx.WithBlockHeight(f.height).WithBlockTime(f.now)
}

func TestHC04Fuzz(t *testing.T) {
	seeds := 40
	if s := os.Getenv("HC04_SEEDS"); s != "" {
		seeds, _ = strconv.Atoi(s)
	}
	base := int64(0)
	if s := os.Getenv("HC04_BASE"); s != "" {
		b, _ := strconv.Atoi(s)
		base = int64(b)
	}
	for seed := base; seed < base+int64(seeds); seed++ {
		f := newFz(t, seed)
		_ = f.k.RegisterResponseCallback("mod", func(ctx sdk.Context, id tmbytes.HexBytes, outs []string, err error) {
			if f.rng.Intn(2) == 0 {
				f.moduleRandomOp(ctx, "respcb")
			}
		})
		_ = f.k.RegisterStateCallback("mod", func(ctx sdk.Context, id tmbytes.HexBytes, cause string) {
			if f.rng.Intn(2) == 0 {
				f.moduleRandomOp(ctx, "statecb")
			}
		})
		for _, s := range f.svcs {
			if err := f.deliver(types.NewMsgDefineService(s, "", nil, f.authors[0], "", fzSchemas)); err != nil {
				t.Fatal(err)
			}
		}
		for _, s := range f.svcs {
			for _, p := range f.provs {
				if f.rng.Intn(4) != 0 {
					msg := types.NewMsgBindService(s, p, f.randDeposit(), f.randPricing(), uint64(1+f.rng.Intn(3)), "{}", f.bindingOwner(p))
					if err := f.deliver(msg); err == nil {
						f.binds = append(f.binds, fzBind{s, p})
					}
				}
			}
		}
		for b := 0; b < 120 && !f.fail; b++ {
			n := f.rng.Intn(6)
			for i := 0; i < n && !f.fail; i++ {
				f.stepTx()
			}
			f.endBlock()
		}
		if f.fail {
			t.Fatalf("seed %d failed", seed)
		}
	}
	t.Logf("stats: %v", fzStats)
}
