package service_test

import (
	"math/big"
	"testing"
	"time"

	"github.com/stretchr/testify/require"
	"github.com/tendermint/tendermint/crypto/tmhash"
	tmproto "github.com/tendermint/tendermint/proto/tendermint/types"

	sdk "github.com/cosmos/cosmos-sdk/types"
	banktypes "github.com/cosmos/cosmos-sdk/x/bank/types"

	service "github.com/irismod/service"
	simapp "github.com/irismod/service/app"
	"github.com/irismod/service/types"
)

// module service whose binding comes from genesis
func TestHC04ModuleService(t *testing.T) {
	for _, out := range []string{fzGoodOut, fzBadOut, "not json", ""} {
		app := simapp.Setup(false)
		ctx := app.BaseApp.NewContext(false, tmproto.Header{}).WithBlockHeight(10).WithBlockTime(time.Date(2021, 1, 1, 0, 0, 0, 0, time.UTC))
		k := app.ServiceKeeper
		addrs := simapp.AddTestAddrs(app, ctx, 3, sdk.NewInt(1000000))
		modProv := sdk.AccAddress(tmhash.SumTruncated([]byte("mymodule")))
		dep := sdk.NewCoins(sdk.NewCoin("stake", sdk.NewInt(10001)))
		gs := types.NewGenesisState(types.DefaultParams(),
			[]types.ServiceDefinition{types.NewServiceDefinition("modsvc", "", nil, addrs[0], "", fzSchemas)},
			[]types.ServiceBinding{types.NewServiceBinding("modsvc", modProv, dep, `{"price":"1stake"}`, 1, "{}", true, time.Time{}, addrs[1])},
			nil, nil)
		service.InitGenesis(ctx, k, *gs)
		// genesis balance of the deposit account
		_, err := app.BankKeeper.AddCoins(ctx, k.GetServiceDepositAccount(ctx).GetAddress(), dep)
		require.NoError(t, err)
		sup := app.BankKeeper.GetSupply(ctx)
		sup.Inflate(dep)
		app.BankKeeper.SetSupply(ctx, sup)

		o := out
		require.NoError(t, k.RegisterModuleService("mymodule", &types.ModuleService{ServiceName: "modsvc", Provider: modProv,
			ReuquestService: func(ctx sdk.Context, input string) (string, string) { return fzRes200, o }}))
		p := k.GetParams(ctx)
		p.SlashFraction = sdk.MustNewDecFromStr("0.5")
		k.SetParams(ctx, p)

		h := service.NewHandler(k)
		msg := types.NewMsgCallService("modsvc", []sdk.AccAddress{modProv}, addrs[2], fzInput, sdk.NewCoins(sdk.NewCoin("stake", sdk.NewInt(10))), 1, false, false, 0, 0)
		require.NoError(t, msg.ValidateBasic())
		tctx := ctx.WithValue(types.TxHash, tmhash.Sum([]byte("a"))).WithValue(types.MsgIndex, int64(0))
		cctx, write := tctx.CacheContext()
		_, err = h(cctx, msg)
		if err == nil {
			write()
		}
		b, _ := k.GetServiceBinding(ctx, "modsvc", modProv)
		t.Logf("out=%q err=%v deposit=%s avail=%v", out, err, b.Deposit, b.Available)
		service.EndBlocker(ctx, k)
		ctx = ctx.WithBlockHeight(11)
		service.EndBlocker(ctx, k)
		b, _ = k.GetServiceBinding(ctx, "modsvc", modProv)
		t.Logf("  after expiry: deposit=%s avail=%v", b.Deposit, b.Available)
	}
}

func TestHC04HugeDeposit(t *testing.T) {
	app := simapp.Setup(false)
	now := time.Date(2021, 1, 1, 0, 0, 0, 0, time.UTC)
	ctx := app.BaseApp.NewContext(false, tmproto.Header{}).WithBlockHeight(10).WithBlockTime(now)
	k := app.ServiceKeeper
	k.SetParams(ctx, types.DefaultParams())
	addrs := simapp.AddTestAddrs(app, ctx, 4, sdk.NewInt(1000000))
	huge := sdk.NewIntFromBigInt(new(big.Int).Sub(new(big.Int).Lsh(big.NewInt(1), 128), big.NewInt(1)))
	hugeCoins := sdk.NewCoins(sdk.NewCoin("stake", huge))
	_, err := app.BankKeeper.AddCoins(ctx, addrs[1], hugeCoins)
	require.NoError(t, err)
	sup := app.BankKeeper.GetSupply(ctx)
	sup.Inflate(hugeCoins)
	app.BankKeeper.SetSupply(ctx, sup)
	_ = banktypes.ModuleName

	h := service.NewHandler(k)
	n := 0
	deliver := func(msg sdk.Msg) error {
		if err := msg.ValidateBasic(); err != nil {
			return err
		}
		n++
		tctx := ctx.WithValue(types.TxHash, tmhash.Sum([]byte{byte(n)})).WithValue(types.MsgIndex, int64(0))
		cctx, write := tctx.CacheContext()
		_, err := h(cctx, msg)
		if err == nil {
			write()
		}
		return err
	}
	require.NoError(t, deliver(types.NewMsgDefineService("svc", "", nil, addrs[0], "", fzSchemas)))
	require.NoError(t, deliver(types.NewMsgBindService("svc", addrs[2], hugeCoins, `{"price":"1stake"}`, 1, "{}", addrs[1])))
	p := k.GetParams(ctx)
	p.SlashFraction = sdk.MustNewDecFromStr("0.999999999999999999")
	k.SetParams(ctx, p)
	require.NoError(t, deliver(types.NewMsgCallService("svc", []sdk.AccAddress{addrs[2]}, addrs[3], fzInput, sdk.NewCoins(sdk.NewCoin("stake", sdk.NewInt(10))), 1, false, false, 0, 0)))
	service.EndBlocker(ctx, k)
	ctx = ctx.WithBlockHeight(11)
	service.EndBlocker(ctx, k)
	b, _ := k.GetServiceBinding(ctx, "svc", addrs[2])
	// expected floor(huge * (1e18-1) / 1e18)
	e18 := new(big.Int).Exp(big.NewInt(10), big.NewInt(18), nil)
	num := new(big.Int).Mul(huge.BigInt(), new(big.Int).Sub(e18, big.NewInt(1)))
	sl := new(big.Int).Quo(num, e18)
	exp := new(big.Int).Sub(huge.BigInt(), sl)
	require.Equal(t, exp.String(), b.Deposit.AmountOf("stake").String())
}
