module deliver
