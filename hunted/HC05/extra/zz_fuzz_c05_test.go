package service_test

import (
	"bytes"
	"crypto/sha256"
	"encoding/binary"
	"fmt"
	"math/rand"
	"os"
	"strconv"
	"testing"
	"time"

	tmbytes "github.com/tendermint/tendermint/libs/bytes"
	tmproto "github.com/tendermint/tendermint/proto/tendermint/types"

	sdk "github.com/cosmos/cosmos-sdk/types"

	service "github.com/irismod/service"
	simapp "github.com/irismod/service/app"
	"github.com/irismod/service/keeper"
	"github.com/irismod/service/types"
)

const (
	fzSchemas = `{"input":{"type":"object"},"output":{"type":"object"}}`
	fzInput   = `{"header":{},"body":{}}`
	fzResult  = `{"code":200,"message":""}`
	fzOutput  = `{"header":{},"body":{}}`
	fzBadOut  = `{"foo":1}`
	fzResult4 = `{"code":400,"message":"x"}`
)

type fzEnv struct {
	t       *testing.T
	r       *rand.Rand
	app     *simapp.SimApp
	ctx     sdk.Context
	k       keeper.Keeper
	h       sdk.Handler
	accts   []sdk.AccAddress
	provs   []sdk.AccAddress
	watch   []sdk.AccAddress
	svcs    []string
	txn     uint64
	height  int64
	now     time.Time
	modCtx  []tmbytes.HexBytes // contexts created by module "mod"
	inCb    int
	curCtx  *sdk.Context
	modProv sdk.AccAddress
	log     []string
	stats   map[string]int
}

func (e *fzEnv) logf(f string, a ...interface{}) {
	e.log = append(e.log, fmt.Sprintf(f, a...))
	if len(e.log) > 60 {
		e.log = e.log[len(e.log)-60:]
	}
}

func (e *fzEnv) fail(f string, a ...interface{}) {
	for _, l := range e.log {
		e.t.Log(l)
	}
	e.t.Fatalf(f, a...)
}

func (e *fzEnv) bal(ctx sdk.Context, a sdk.AccAddress) sdk.Int {
	return e.app.BankKeeper.GetBalance(ctx, a, "stake").Amount
}

func (e *fzEnv) txctx(ctx sdk.Context) sdk.Context {
	e.txn++
	b := make([]byte, 8)
	binary.BigEndian.PutUint64(b, e.txn)
	h := sha256.Sum256(b)
	return ctx.WithValue(types.TxHash, h[:]).WithValue(types.MsgIndex, int64(0))
}

// deliver the way baseapp does
func (e *fzEnv) deliver(msg sdk.Msg) (err error) {
	if err := msg.ValidateBasic(); err != nil {
		return err
	}
	cctx, write := e.ctx.CacheContext()
	cctx = e.txctx(cctx)
	func() {
		defer func() {
			if r := recover(); r != nil {
				err = fmt.Errorf("panic: %v", r)
			}
		}()
		_, err = e.h(cctx, msg)
	}()
	if err == nil {
		write()
	}
	return err
}

func (e *fzEnv) pickAcct() sdk.AccAddress { return e.accts[e.r.Intn(len(e.accts))] }
func (e *fzEnv) pickProv() sdk.AccAddress { return e.provs[e.r.Intn(len(e.provs))] }
func (e *fzEnv) pickSvc() string          { return e.svcs[e.r.Intn(len(e.svcs))] }

func (e *fzEnv) coins(n int64) sdk.Coins { return sdk.NewCoins(sdk.NewCoin("stake", sdk.NewInt(n))) }

func (e *fzEnv) allCtxIDs() []tmbytes.HexBytes {
	var ids []tmbytes.HexBytes
	e.k.IterateRequestContexts(e.ctx, func(id tmbytes.HexBytes, rc types.RequestContext) bool {
		ids = append(ids, append(tmbytes.HexBytes{}, id...))
		return false
	})
	return ids
}

func (e *fzEnv) allReqIDs() []tmbytes.HexBytes {
	var ids []tmbytes.HexBytes
	e.k.IterateRequests(e.ctx, func(id tmbytes.HexBytes, rc types.CompactRequest) bool {
		ids = append(ids, append(tmbytes.HexBytes{}, id...))
		return false
	})
	return ids
}

func (e *fzEnv) randPricing() string {
	p := []string{
		`{"price":"1stake"}`,
		`{"price":"2stake","promotions_by_volume":[{"volume":1,"discount":"0.5"}]}`,
		`{"price":"10stake"}`,
		`{"price":"0stake"}`,
		`{"price":"37stake","promotions_by_volume":[{"volume":2,"discount":"0.3"}]}`,
	}
	return p[e.r.Intn(len(p))]
}

// module behaviour inside callbacks
func (e *fzEnv) moduleAct(ctx sdk.Context, id tmbytes.HexBytes) {
	rc, found := e.k.GetRequestContext(ctx, id)
	if !found {
		return
	}
	switch e.r.Intn(8) {
	case 0:
		_ = e.k.PauseRequestContext(ctx, id, rc.Consumer)
	case 1:
		_ = e.k.StartRequestContext(ctx, id, rc.Consumer)
	case 2:
		_ = e.k.KillRequestContext(ctx, id, rc.Consumer)
	case 3:
		_ = e.k.UpdateRequestContext(ctx, id, nil, 0, e.coins(int64(1+e.r.Intn(50))), 0, 0, 0, rc.Consumer)
	case 4:
		e.modCreate(ctx)
	default:
	}
}

func (e *fzEnv) modCreate(ctx sdk.Context) {
	n := 1 + e.r.Intn(2)
	var ps []sdk.AccAddress
	seen := map[string]bool{}
	for len(ps) < n {
		p := e.pickProv()
		if seen[string(p)] {
			continue
		}
		seen[string(p)] = true
		ps = append(ps, p)
	}
	func() {
		defer func() { recover() }()
		id, err := e.k.CreateRequestContext(ctx, e.pickSvc(), ps, e.pickAcct(), fzInput, e.coins(int64(1+e.r.Intn(50))),
			int64(1+e.r.Intn(5)), false, e.r.Intn(2) == 0, uint64(5+e.r.Intn(5)), int64(1+e.r.Intn(4)),
			types.RequestContextState(e.r.Intn(2)), 1, "mod")
		if err == nil {
			e.modCtx = append(e.modCtx, id)
		}
	}()
}

func newFzEnv(t *testing.T, seed int64) *fzEnv {
	app := simapp.Setup(false)
	ctx := app.BaseApp.NewContext(false, tmproto.Header{Height: 1, Time: time.Unix(1600000000, 0).UTC()})
	e := &fzEnv{stats: fzStats, t: t, r: rand.New(rand.NewSource(seed)), app: app, ctx: ctx, k: app.ServiceKeeper, height: 1, now: time.Unix(1600000000, 0).UTC()}
	e.k.SetParams(ctx, types.DefaultParams())
	e.accts = simapp.AddTestAddrs(app, ctx, 5, sdk.NewInt(1000000))
	a0 := e.accts[0]
	e.provs = append(e.provs, e.accts...)
	e.provs = append(e.provs,
		sdk.AccAddress([]byte{1}),
		sdk.AccAddress(append(append([]byte{}, a0...), 's')),
		sdk.AccAddress(append(append([]byte{}, a0...), []byte("stake")...)),
		sdk.AccAddress(a0[:10]),
		sdk.AccAddress(bytes.Repeat([]byte{0}, 3)),
		sdk.AccAddress(append(append([]byte{}, e.accts[1]...), e.accts[2]...)),
	)
	e.modProv = sdk.AccAddress(sha256.New().Sum([]byte("modsvc"))[:20])
	e.watch = append(e.watch, e.provs...)
	e.watch = append(e.watch, sdk.AccAddress([]byte("withdraw-addr-0000000")), e.modProv)
	e.svcs = []string{"svc-a", "svc-b", "modsvc"}
	for _, s := range e.svcs {
		e.k.SetServiceDefinition(ctx, types.NewServiceDefinition(s, "", nil, a0, "", fzSchemas))
	}
	// module "mod": callbacks
	if err := e.k.RegisterResponseCallback("mod", func(ctx sdk.Context, id tmbytes.HexBytes, responses []string, err error) {
		e.moduleAct(ctx, id)
	}); err != nil {
		t.Fatal(err)
	}
	if err := e.k.RegisterStateCallback("mod", func(ctx sdk.Context, id tmbytes.HexBytes, cause string) {
		e.moduleAct(ctx, id)
	}); err != nil {
		t.Fatal(err)
	}
	// module service of module "svcmod" with a genesis binding
	if err := e.k.RegisterModuleService("svcmod", &types.ModuleService{ServiceName: "modsvc", Provider: e.modProv,
		ReuquestService: func(ctx sdk.Context, input string) (string, string) {
			if e.r.Intn(4) == 0 {
				return fzResult, fzBadOut
			}
			return fzResult, fzOutput
		}}); err != nil {
		t.Fatal(err)
	}
	dep := e.coins(10000)
	if err := app.BankKeeper.SendCoinsFromAccountToModule(ctx, a0, types.DepositAccName, dep); err != nil {
		t.Fatal(err)
	}
	if err := e.k.SetServiceBindingForGenesis(ctx, types.NewServiceBinding("modsvc", e.modProv, dep, `{"price":"3stake"}`, 1, "{}", true, time.Time{}, a0)); err != nil {
		t.Fatal(err)
	}
	e.h = service.NewHandler(e.k)
	return e
}

func (e *fzEnv) snapshot() map[string]sdk.Int {
	m := map[string]sdk.Int{}
	for _, a := range e.watch {
		m[string(a)] = e.bal(e.ctx, a)
	}
	return m
}

func (e *fzEnv) pickBinding(signer sdk.AccAddress) (string, sdk.AccAddress, sdk.AccAddress) {
	var bs []types.ServiceBinding
	e.k.IterateServiceBindings(e.ctx, func(b types.ServiceBinding) bool { bs = append(bs, b); return false })
	if len(bs) == 0 || e.r.Intn(5) == 0 {
		return e.pickSvc(), e.pickProv(), signer
	}
	b := bs[e.r.Intn(len(bs))]
	if e.r.Intn(4) != 0 {
		signer = b.Owner
	}
	return b.ServiceName, b.Provider, signer
}

func (e *fzEnv) randMsg() (sdk.Msg, sdk.AccAddress) {
	signer := e.pickAcct()
	bsvc, bprov, bsigner := e.pickBinding(signer)
	switch e.r.Intn(16) {
	case 0, 1:
		return types.NewMsgBindService(e.pickSvc(), e.pickProv(), e.coins(int64(6000+e.r.Intn(6000))), e.randPricing(), uint64(1+e.r.Intn(5)), "{}", signer), signer
	case 2:
		var dep sdk.Coins
		if e.r.Intn(2) == 0 {
			dep = e.coins(int64(1 + e.r.Intn(5000)))
		}
		pr := ""
		if e.r.Intn(2) == 0 {
			pr = e.randPricing()
		}
		return types.NewMsgUpdateServiceBinding(bsvc, bprov, dep, pr, uint64(e.r.Intn(5)), "{}", bsigner), bsigner
	case 3:
		return types.NewMsgDisableServiceBinding(bsvc, bprov, bsigner), bsigner
	case 4:
		var dep sdk.Coins
		if e.r.Intn(2) == 0 {
			dep = e.coins(int64(1 + e.r.Intn(5000)))
		}
		return types.NewMsgEnableServiceBinding(bsvc, bprov, dep, bsigner), bsigner
	case 5:
		return types.NewMsgRefundServiceDeposit(bsvc, bprov, bsigner), bsigner
	case 6:
		w := e.watch[e.r.Intn(len(e.watch))]
		return types.NewMsgSetWithdrawAddress(signer, w), signer
	case 7:
		var p sdk.AccAddress
		if e.r.Intn(3) != 0 {
			p = bprov
			signer = bsigner
		}
		return types.NewMsgWithdrawEarnedFees(signer, p), signer
	case 8, 9, 10:
		n := 1 + e.r.Intn(3)
		var ps []sdk.AccAddress
		seen := map[string]bool{}
		for len(ps) < n {
			p := e.pickProv()
			if seen[string(p)] {
				continue
			}
			seen[string(p)] = true
			ps = append(ps, p)
		}
		rep := e.r.Intn(2) == 0
		return types.NewMsgCallService(e.pickSvc(), ps, signer, fzInput, e.coins(int64(1+e.r.Intn(50))), int64(1+e.r.Intn(5)),
			e.r.Intn(8) == 0, rep, uint64(5+e.r.Intn(5)), int64(1+e.r.Intn(4))), signer
	case 11, 12, 13:
		ids := e.allReqIDs()
		if len(ids) == 0 {
			return nil, nil
		}
		id := ids[e.r.Intn(len(ids))]
		if e.r.Intn(6) != 0 {
			if rq, ok := e.k.GetRequest(e.ctx, id); ok && len(rq.Provider) == 20 {
				signer = rq.Provider
			}
		}
		switch e.r.Intn(4) {
		case 0:
			return types.NewMsgRespondService(id, signer, fzResult, fzBadOut), signer
		case 1:
			return types.NewMsgRespondService(id, signer, fzResult4, ""), signer
		default:
			return types.NewMsgRespondService(id, signer, fzResult, fzOutput), signer
		}
	default:
		ids := e.allCtxIDs()
		if len(ids) == 0 {
			return nil, nil
		}
		id := ids[e.r.Intn(len(ids))]
		if e.r.Intn(3) != 0 {
			if rc, ok := e.k.GetRequestContext(e.ctx, id); ok && len(rc.Consumer) == 20 {
				signer = rc.Consumer
			}
		}
		switch e.r.Intn(4) {
		case 0:
			return types.NewMsgPauseRequestContext(id, signer), signer
		case 1:
			return types.NewMsgStartRequestContext(id, signer), signer
		case 2:
			return types.NewMsgKillRequestContext(id, signer), signer
		default:
			var ps []sdk.AccAddress
			if e.r.Intn(2) == 0 {
				ps = []sdk.AccAddress{e.pickProv()}
			}
			return types.NewMsgUpdateRequestContext(id, ps, e.coins(int64(1+e.r.Intn(50))), int64(e.r.Intn(5)), uint64(e.r.Intn(10)), int64(e.r.Intn(6)-1), signer), signer
		}
	}
}

// authority oracle evaluated on the pre-state
func (e *fzEnv) rightful(msg sdk.Msg, signer sdk.AccAddress) (bool, string) {
	ctx := e.ctx
	bindingOwner := func(svc string, p sdk.AccAddress) (bool, string) {
		b, ok := e.k.GetServiceBinding(ctx, svc, p)
		if !ok {
			return false, "no binding"
		}
		return bytes.Equal(b.Owner, signer), "owner " + b.Owner.String()
	}
	ctxConsumer := func(id tmbytes.HexBytes) (bool, string) {
		rc, ok := e.k.GetRequestContext(ctx, id)
		if !ok {
			return false, "no ctx"
		}
		if rc.ModuleName != "" {
			return false, "module ctx"
		}
		return bytes.Equal(rc.Consumer, signer), "consumer " + rc.Consumer.String()
	}
	switch m := msg.(type) {
	case *types.MsgBindService:
		if m.ServiceName == "modsvc" {
			return false, "module service"
		}
		o, ok := e.k.GetOwner(ctx, m.Provider)
		if ok && !bytes.Equal(o, signer) {
			return false, "provider owned by " + o.String()
		}
		return true, ""
	case *types.MsgUpdateServiceBinding:
		return bindingOwner(m.ServiceName, m.Provider)
	case *types.MsgDisableServiceBinding:
		return bindingOwner(m.ServiceName, m.Provider)
	case *types.MsgEnableServiceBinding:
		return bindingOwner(m.ServiceName, m.Provider)
	case *types.MsgRefundServiceDeposit:
		return bindingOwner(m.ServiceName, m.Provider)
	case *types.MsgWithdrawEarnedFees:
		if len(m.Provider) == 0 {
			return true, ""
		}
		o, ok := e.k.GetOwner(ctx, m.Provider)
		return ok && bytes.Equal(o, signer), "provider owner " + o.String()
	case *types.MsgRespondService:
		rq, ok := e.k.GetRequest(ctx, m.RequestId)
		if !ok {
			return false, "no request"
		}
		return bytes.Equal(rq.Provider, signer), "req provider " + rq.Provider.String()
	case *types.MsgPauseRequestContext:
		return ctxConsumer(m.RequestContextId)
	case *types.MsgStartRequestContext:
		return ctxConsumer(m.RequestContextId)
	case *types.MsgKillRequestContext:
		return ctxConsumer(m.RequestContextId)
	case *types.MsgUpdateRequestContext:
		return ctxConsumer(m.RequestContextId)
	}
	return true, ""
}

func (e *fzEnv) stepMsg() {
	msg, signer := e.randMsg()
	if msg == nil {
		return
	}
	ok, why := e.rightful(msg, signer)
	before := e.snapshot()
	err := e.deliver(msg)
	e.logf("h=%d msg %T %v signer=%s -> err=%v", e.height, msg, msg, signer, err)
	if err == nil {
		e.stats[fmt.Sprintf("ok %T", msg)]++
	} else {
		e.stats[fmt.Sprintf("fail %T", msg)]++
		if !ok {
			e.stats[fmt.Sprintf("unauth-rejected %T", msg)]++
		}
	}
	if err == nil && !ok {
		e.fail("AUTHORITY VIOLATION: %T %v by %s succeeded (%s)", msg, msg, signer, why)
	}
	after := e.snapshot()
	for _, a := range e.watch {
		if bytes.Equal(a, signer) {
			continue
		}
		if after[string(a)].LT(before[string(a)]) {
			e.fail("DEBIT VIOLATION: %T %v by %s lowered %s from %s to %s (err=%v)", msg, msg, signer, a, before[string(a)], after[string(a)], err)
		}
	}
	if err != nil {
		if !after[string(signer)].Equal(before[string(signer)]) {
			e.fail("failed msg changed signer balance")
		}
	}
}

var fzStats = map[string]int{}

type ctxSnap struct {
	rc types.RequestContext
}

func (e *fzEnv) stepEndBlock() {
	pre := map[string]types.RequestContext{}
	e.k.IterateRequestContexts(e.ctx, func(id tmbytes.HexBytes, rc types.RequestContext) bool {
		pre[string(id)] = rc
		return false
	})
	before := e.snapshot()
	ctx := e.txctx(e.ctx)
	// record batches issued
	ctx = ctx.WithEventManager(sdk.NewEventManager())
	service.EndBlocker(ctx, e.k)
	issued := map[string]bool{} // consumer -> issued
	for _, ev := range ctx.EventManager().Events() {
		if ev.Type == types.EventTypeNewBatchRequest {
			for _, at := range ev.Attributes {
				if string(at.Key) == types.AttributeKeyRequestContextID {
					var id tmbytes.HexBytes
					_ = id.UnmarshalJSON([]byte(strconv.Quote(string(at.Value))))
					rc, ok := e.k.GetRequestContext(ctx, id)
					if !ok {
						rc, ok = pre[string(id)]
					}
					if ok {
						issued[string(rc.Consumer)] = true
					}
				}
			}
		}
	}
	after := e.snapshot()
	for _, a := range e.watch {
		if after[string(a)].LT(before[string(a)]) {
			e.stats["endblock debit"]++
		}
		if after[string(a)].LT(before[string(a)]) && !issued[string(a)] {
			e.fail("ENDBLOCK DEBIT VIOLATION: %s lowered from %s to %s without a batch", a, before[string(a)], after[string(a)])
		}
	}
	e.logf("h=%d endblock", e.height)
	e.height++
	e.now = e.now.Add(time.Duration(1+e.r.Intn(100000)) * time.Second)
	e.ctx = e.ctx.WithBlockHeight(e.height).WithBlockTime(e.now)
}

func (e *fzEnv) stepParams() {
	p := e.k.GetParams(e.ctx)
	switch e.r.Intn(7) {
	case 0:
		p.MaxRequestTimeout = int64(1 + e.r.Intn(100))
	case 1:
		p.MinDepositMultiple = int64(1 + e.r.Intn(2000))
	case 2:
		p.MinDeposit = e.coins(int64(1 + e.r.Intn(20000)))
		if e.r.Intn(4) == 0 {
			p.MinDeposit = sdk.Coins{}
		}
	case 3:
		p.ServiceFeeTax = sdk.NewDecWithPrec(int64(e.r.Intn(100)), 2)
	case 4:
		p.SlashFraction = sdk.NewDecWithPrec(int64(e.r.Intn(101)), 2)
	case 5:
		p.ComplaintRetrospect = time.Duration(1+e.r.Intn(100000)) * time.Second
	case 6:
		p.ArbitrationTimeLimit = time.Duration(1+e.r.Intn(100000)) * time.Second
	}
	if p.Validate() == nil {
		e.k.SetParams(e.ctx, p)
		e.logf("params %v", p)
	}
}

func (e *fzEnv) stepModule() {
	cctx, write := e.ctx.CacheContext()
	cctx = e.txctx(cctx)
	if e.r.Intn(2) == 0 || len(e.modCtx) == 0 {
		e.modCreate(cctx)
	} else {
		e.moduleAct(cctx, e.modCtx[e.r.Intn(len(e.modCtx))])
	}
	write()
	e.logf("module step")
}

func TestFuzzC05(t *testing.T) {
	seeds := 30
	if s := os.Getenv("FZ_SEEDS"); s != "" {
		seeds, _ = strconv.Atoi(s)
	}
	steps := 600
	if s := os.Getenv("FZ_STEPS"); s != "" {
		steps, _ = strconv.Atoi(s)
	}
	base := int64(0)
	if s := os.Getenv("FZ_BASE"); s != "" {
		b, _ := strconv.Atoi(s)
		base = int64(b)
	}
	for s := 0; s < seeds; s++ {
		e := newFzEnv(t, base+int64(s))
		okc := 0
		for i := 0; i < steps; i++ {
			switch x := e.r.Intn(20); {
			case x < 13:
				e.stepMsg()
			case x < 17:
				e.stepEndBlock()
			case x < 18:
				e.stepParams()
			default:
				e.stepModule()
			}
		}
		_ = okc
	}
	for k, v := range fzStats {
		t.Logf("%-60s %d", k, v)
	}
}
