module deliver
