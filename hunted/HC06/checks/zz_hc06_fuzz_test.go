package service_test

// Randomised differential check of property C06 (requests go only to eligible providers,
// within the consumer's fee cap). Not a finding: an exploration harness.

import (
	"bytes"
	"fmt"
	"math/rand"
	"os"
	"strconv"
	"testing"
	"time"

	"github.com/tendermint/tendermint/crypto/tmhash"
	tmbytes "github.com/tendermint/tendermint/libs/bytes"
	tmproto "github.com/tendermint/tendermint/proto/tendermint/types"

	sdk "github.com/cosmos/cosmos-sdk/types"

	service "github.com/irismod/service"
	simapp "github.com/irismod/service/app"
	"github.com/irismod/service/keeper"
	"github.com/irismod/service/types"
)

type hc06World struct {
	t   *testing.T
	r   *rand.Rand
	app *simapp.SimApp
	k   keeper.Keeper
	ctx sdk.Context
	h   sdk.Handler
	txN int

	author    sdk.AccAddress
	owners    []sdk.AccAddress
	consumers []sdk.AccAddress
	providers []sdk.AccAddress // first 3 are 20 bytes
	services  []string
	t0        time.Time

	ctxIDs   []tmbytes.HexBytes
	modIDs   []tmbytes.HexBytes
	cbDepth  int
	issued   int
	skipped  int
	paused   int
	slashOff int
}

const hc06Schemas = `{"input":{"type":"object"},"output":{"type":"object"}}`

func (w *hc06World) txCtx() sdk.Context {
	w.txN++
	return w.ctx.WithValue(types.TxHash, tmhash.Sum([]byte("tx"+strconv.Itoa(w.txN)))).WithValue(types.MsgIndex, int64(0))
}

func (w *hc06World) deliver(msg sdk.Msg) error {
	if err := msg.ValidateBasic(); err != nil {
		return err
	}
	c := w.txCtx()
	cc, write := c.CacheContext()
	var err error
	func() {
		defer func() {
			if r := recover(); r != nil {
				err = fmt.Errorf("panic: %v", r)
			}
		}()
		_, err = w.h(cc.WithEventManager(sdk.NewEventManager()), msg)
	}()
	if err == nil {
		write()
	}
	return err
}

func (w *hc06World) pricing() string {
	prices := []string{"0", "1", "2", "3", "5", "7", "10", "0.5", "2.9"}
	s := `{"price":"` + prices[w.r.Intn(len(prices))] + `stake"`
	discs := []string{"0.5", "0.3", "0.9", "0.01", "0.999999999999999999"}
	if w.r.Intn(2) == 0 {
		a := w.t0.Add(time.Duration(w.r.Intn(40)) * time.Second)
		b := a.Add(time.Duration(1+w.r.Intn(40)) * time.Second)
		s += fmt.Sprintf(`,"promotions_by_time":[{"start_time":"%s","end_time":"%s","discount":"%s"}]`,
			a.UTC().Format(time.RFC3339), b.UTC().Format(time.RFC3339), discs[w.r.Intn(len(discs))])
	}
	if w.r.Intn(2) == 0 {
		v := 1 + w.r.Intn(3)
		s += fmt.Sprintf(`,"promotions_by_volume":[{"volume":%d,"discount":"%s"},{"volume":%d,"discount":"%s"}]`,
			v, discs[w.r.Intn(len(discs))], v+1+w.r.Intn(3), discs[w.r.Intn(len(discs))])
	}
	return s + "}"
}

func (w *hc06World) coins(n int64) sdk.Coins {
	return sdk.NewCoins(sdk.NewCoin("stake", sdk.NewInt(n)))
}

func (w *hc06World) randProviders() []sdk.AccAddress {
	n := 1 + w.r.Intn(4)
	perm := w.r.Perm(len(w.providers))
	var ps []sdk.AccAddress
	for i := 0; i < n && i < len(perm); i++ {
		ps = append(ps, w.providers[perm[i]])
	}
	return ps
}

// independent price computation
func (w *hc06World) price(ctx sdk.Context, consumer sdk.AccAddress, b types.ServiceBinding) sdk.Int {
	p := w.k.GetPricing(ctx, b.ServiceName, b.Provider)
	base := p.Price.AmountOf("stake")
	dt := sdk.OneDec()
	for _, pr := range p.PromotionsByTime {
		if !ctx.BlockTime().Before(pr.StartTime) && ctx.BlockTime().Before(pr.EndTime) {
			dt = pr.Discount
			break
		}
	}
	dv := sdk.OneDec()
	vol := w.k.GetRequestVolume(ctx, consumer, b.ServiceName, b.Provider)
	for _, pr := range p.PromotionsByVolume {
		if vol >= pr.Volume {
			dv = pr.Discount
		}
	}
	res := sdk.NewDecFromInt(base).MulTruncate(dt).MulTruncate(dv).TruncateInt()
	if res.LT(sdk.OneInt()) {
		res = sdk.OneInt()
	}
	return res
}

func (w *hc06World) eligible(ctx sdk.Context, rc types.RequestContext) ([]sdk.AccAddress, []sdk.Int, sdk.Int) {
	var ps []sdk.AccAddress
	var fees []sdk.Int
	total := sdk.ZeroInt()
	for _, p := range rc.Providers {
		b, found := w.k.GetServiceBinding(ctx, rc.ServiceName, p)
		if !found || !b.Available {
			continue
		}
		if b.QoS > uint64(rc.Timeout) {
			continue
		}
		pr := w.price(ctx, rc.Consumer, b)
		if pr.GT(rc.ServiceFeeCap.AmountOf("stake")) {
			continue
		}
		ps = append(ps, p)
		fees = append(fees, pr)
		total = total.Add(pr)
	}
	return ps, fees, total
}

func (w *hc06World) modAct(ctx sdk.Context, id tmbytes.HexBytes, mayUpdate bool) {
	// the owning module reacts to a callback by calling back into the keeper
	if w.cbDepth > 0 {
		return
	}
	w.cbDepth++
	defer func() { w.cbDepth-- }()
	target := id
	if len(w.modIDs) > 0 && w.r.Intn(2) == 0 {
		target = w.modIDs[w.r.Intn(len(w.modIDs))]
	}
	rc, found := w.k.GetRequestContext(ctx, target)
	if !found {
		return
	}
	switch w.r.Intn(6) {
	case 0:
		_ = w.k.PauseRequestContext(ctx, target, rc.Consumer)
	case 1:
		_ = w.k.StartRequestContext(ctx, target, rc.Consumer)
	case 2:
		_ = w.k.KillRequestContext(ctx, target, rc.Consumer)
	case 3:
		if !mayUpdate {
			return
		}
		ps := w.randProviders()
		_ = w.k.UpdateRequestContext(ctx, target, ps, uint32(w.r.Intn(len(ps)+1)), w.coins(int64(1+w.r.Intn(12))), 0, 0, 0, rc.Consumer)
	case 4:
		_ = w.k.PauseRequestContext(ctx, target, rc.Consumer)
		_ = w.k.StartRequestContext(ctx, target, rc.Consumer)
	}
}

func (w *hc06World) op() {
	r := w.r
	svc := w.services[r.Intn(len(w.services))]
	prov := w.providers[r.Intn(len(w.providers))]
	owner := w.owners[r.Intn(len(w.owners))]
	consumer := w.consumers[r.Intn(len(w.consumers))]
	switch r.Intn(16) {
	case 0, 1:
		dep := []int64{6000, 6005, 7000, 20000}[r.Intn(4)]
		_ = w.deliver(types.NewMsgBindService(svc, prov, w.coins(dep), w.pricing(), uint64(1+r.Intn(6)), "{}", owner))
	case 2:
		var dep sdk.Coins
		if r.Intn(3) == 0 {
			dep = w.coins(int64(1 + r.Intn(3000)))
		}
		pricing := ""
		if r.Intn(2) == 0 {
			pricing = w.pricing()
		}
		_ = w.deliver(types.NewMsgUpdateServiceBinding(svc, prov, dep, pricing, uint64(r.Intn(7)), "{}", owner))
	case 3:
		_ = w.deliver(types.NewMsgDisableServiceBinding(svc, prov, owner))
	case 4:
		var dep sdk.Coins
		if r.Intn(2) == 0 {
			dep = w.coins(int64(1 + r.Intn(3000)))
		}
		_ = w.deliver(types.NewMsgEnableServiceBinding(svc, prov, dep, owner))
	case 5, 6, 7:
		timeout := int64(1 + r.Intn(6))
		repeated := r.Intn(3) > 0
		freq := uint64(0)
		if r.Intn(2) == 0 {
			freq = uint64(timeout) + uint64(r.Intn(4))
		}
		total := int64(-1)
		if r.Intn(2) == 0 {
			total = int64(1 + r.Intn(5))
		}
		msg := types.NewMsgCallService(svc, w.randProviders(), consumer, `{"header":{},"body":{}}`,
			w.coins(int64(1+r.Intn(12))), timeout, r.Intn(8) == 0, repeated, freq, total)
		before := w.txN
		if err := w.deliver(msg); err == nil {
			id := types.GenerateRequestContextID(tmhash.Sum([]byte("tx"+strconv.Itoa(before+1))), 0)
			w.ctxIDs = append(w.ctxIDs, id)
		}
	case 8:
		// module context
		timeout := int64(1 + r.Intn(6))
		ps := w.randProviders()
		c := w.txCtx()
		cc, write := c.CacheContext()
		state := types.RUNNING
		if r.Intn(4) == 0 {
			state = types.PAUSED
		}
		id, err := w.k.CreateRequestContext(cc, svc, ps, consumer, `{"header":{},"body":{}}`, w.coins(int64(1+r.Intn(12))),
			timeout, r.Intn(8) == 0, true, uint64(timeout)+uint64(r.Intn(3)), int64(1+r.Intn(5)), state, uint32(1+r.Intn(len(ps))), "mod")
		if err == nil {
			write()
			w.modIDs = append(w.modIDs, id)
			w.ctxIDs = append(w.ctxIDs, id)
		}
	case 9, 10:
		// respond to a random active request
		var reqs []tmbytes.HexBytes
		var provs []sdk.AccAddress
		w.k.IterateRequests(w.ctx, func(id tmbytes.HexBytes, req types.CompactRequest) bool {
			if w.k.IsRequestActive(w.ctx, id) && len(req.Provider) == 20 {
				reqs = append(reqs, append(tmbytes.HexBytes{}, id...))
				provs = append(provs, req.Provider)
			}
			return false
		})
		if len(reqs) > 0 {
			n := 1 + r.Intn(len(reqs))
			for i := 0; i < n; i++ {
				j := r.Intn(len(reqs))
				out := `{"header":{},"body":{}}`
				if r.Intn(4) == 0 {
					out = `{"body":{}}` // invalid: slashed
				}
				_ = w.deliver(types.NewMsgRespondService(reqs[j], provs[j], `{"code":200,"message":""}`, out))
			}
		}
	case 11:
		if len(w.ctxIDs) > 0 {
			id := w.ctxIDs[r.Intn(len(w.ctxIDs))]
			rc, found := w.k.GetRequestContext(w.ctx, id)
			if found {
				var ps []sdk.AccAddress
				if r.Intn(2) == 0 {
					ps = w.randProviders()
				}
				var cap sdk.Coins
				if r.Intn(2) == 0 {
					cap = w.coins(int64(1 + r.Intn(12)))
				}
				to := int64(r.Intn(7))
				_ = w.deliver(types.NewMsgUpdateRequestContext(id, ps, cap, to, uint64(r.Intn(10)), int64(r.Intn(8))-1, rc.Consumer))
			}
		}
	case 12:
		if len(w.ctxIDs) > 0 {
			id := w.ctxIDs[r.Intn(len(w.ctxIDs))]
			rc, found := w.k.GetRequestContext(w.ctx, id)
			if found {
				switch r.Intn(5) {
				case 0, 1:
					_ = w.deliver(types.NewMsgPauseRequestContext(id, rc.Consumer))
				case 2, 3:
					_ = w.deliver(types.NewMsgStartRequestContext(id, rc.Consumer))
				case 4:
					_ = w.deliver(types.NewMsgKillRequestContext(id, rc.Consumer))
				}
			}
		}
	case 13:
		p := w.k.GetParams(w.ctx)
		switch r.Intn(4) {
		case 0:
			p.SlashFraction = []sdk.Dec{sdk.ZeroDec(), sdk.NewDecWithPrec(1, 3), sdk.NewDecWithPrec(5, 1), sdk.OneDec()}[r.Intn(4)]
		case 1:
			p.MinDeposit = w.coins([]int64{1, 6000, 6004, 9000}[r.Intn(4)])
		case 2:
			p.MinDepositMultiple = []int64{1, 200, 1000, 3000}[r.Intn(4)]
		case 3:
			p.MaxRequestTimeout = []int64{2, 4, 100}[r.Intn(3)]
		}
		w.k.SetParams(w.ctx, p)
	case 14:
		// drain or fund a consumer
		bal := w.app.BankKeeper.GetBalance(w.ctx, consumer, "stake").Amount
		if r.Intn(2) == 0 && bal.IsPositive() {
			keep := sdk.NewInt(int64(r.Intn(15)))
			if bal.GT(keep) {
				_ = w.app.BankKeeper.SendCoins(w.ctx, consumer, w.author, sdk.NewCoins(sdk.NewCoin("stake", bal.Sub(keep))))
			}
		} else {
			_ = w.app.BankKeeper.SendCoins(w.ctx, w.author, consumer, w.coins(int64(1+r.Intn(30))))
		}
	case 15:
		// respond via module-owned callbacks path is covered by case 9; here: nothing
	}
}

func (w *hc06World) endBlock() {
	t := w.t
	ctx := w.ctx
	H := ctx.BlockHeight()

	// refunds expected in the expired phase
	bal := map[string]sdk.Int{}
	for _, c := range w.consumers {
		bal[c.String()] = w.app.BankKeeper.GetBalance(ctx, c, "stake").Amount
	}
	w.k.IterateRequests(ctx, func(id tmbytes.HexBytes, req types.CompactRequest) bool {
		if w.k.IsRequestActive(ctx, id) && req.ExpirationHeight == H {
			rc, found := w.k.GetRequestContext(ctx, req.RequestContextId)
			if found && !rc.SuperMode {
				bal[rc.Consumer.String()] = bal[rc.Consumer.String()].Add(req.ServiceFee.AmountOf("stake"))
			}
		}
		return false
	})
	preAvail := map[string]bool{}
	w.k.IterateServiceBindings(ctx, func(b types.ServiceBinding) bool {
		preAvail[b.ServiceName+"/"+b.Provider.String()] = b.Available
		return false
	})

	ectx := ctx.WithEventManager(sdk.NewEventManager())
	service.EndBlocker(ectx, w.k)

	w.k.IterateServiceBindings(ctx, func(b types.ServiceBinding) bool {
		if preAvail[b.ServiceName+"/"+b.Provider.String()] && !b.Available {
			w.slashOff++
		}
		return false
	})

	// requests issued in this block, by context
	reqsBy := map[string][]types.CompactRequest{}
	w.k.IterateRequests(ctx, func(id tmbytes.HexBytes, req types.CompactRequest) bool {
		if req.RequestHeight == H {
			reqsBy[req.RequestContextId.String()] = append(reqsBy[req.RequestContextId.String()], req)
		}
		return false
	})

	seen := map[string]bool{}
	for _, ev := range ectx.EventManager().Events() {
		if ev.Type != types.EventTypeNewBatch {
			continue
		}
		var idStr string
		for _, a := range ev.Attributes {
			if string(a.Key) == types.AttributeKeyRequestContextID {
				idStr = string(a.Value)
			}
		}
		idBz, _ := hexDecode(idStr)
		id := tmbytes.HexBytes(idBz)
		seen[id.String()] = true
		rc, found := w.k.GetRequestContext(ctx, id)
		if !found {
			t.Fatalf("h=%d context %s vanished in the new-batch phase", H, idStr)
		}
		E, fees, total := w.eligible(ctx, rc)
		var R []types.CompactRequest
		for _, rq := range reqsBy[id.String()] {
			if rq.RequestContextBatchCounter == rc.BatchCounter {
				R = append(R, rq)
			}
		}
		okSet := len(E) > 0 && len(E) >= int(rc.ResponseThreshold)
		canPay := rc.SuperMode || bal[rc.Consumer.String()].GTE(total)
		desc := fmt.Sprintf("h=%d ctx=%s mod=%q state=%s providers=%v cap=%s timeout=%d thr=%d super=%v E=%v fees=%v total=%s bal=%s R=%d",
			H, idStr[:8], rc.ModuleName, rc.State, rc.Providers, rc.ServiceFeeCap, rc.Timeout, rc.ResponseThreshold, rc.SuperMode, E, fees, total, bal[rc.Consumer.String()], len(R))
		switch {
		case !okSet:
			w.skipped++
			if len(R) != 0 {
				t.Fatalf("VIOLATION skip expected but requests exist: %s", desc)
			}
			if rc.BatchRequestCount != 0 {
				t.Fatalf("VIOLATION skip expected but request count: %s", desc)
			}
		case !canPay:
			w.paused++
			if len(R) != 0 {
				t.Fatalf("VIOLATION pause expected but requests exist: %s", desc)
			}
			if rc.ModuleName == "" && rc.State != types.PAUSED {
				t.Fatalf("VIOLATION pause expected: %s", desc)
			}
		default:
			w.issued++
			if len(R) != len(E) {
				t.Fatalf("VIOLATION request set differs: %s", desc)
			}
			for i := range R {
				if !bytes.Equal(R[i].Provider, E[i]) {
					// order of store iteration is by request id = provider index, so same order
					t.Fatalf("VIOLATION provider differs at %d: %s", i, desc)
				}
				fee := R[i].ServiceFee.AmountOf("stake")
				if rc.SuperMode {
					if !R[i].ServiceFee.Empty() {
						t.Fatalf("VIOLATION super mode fee: %s", desc)
					}
				} else {
					if !fee.Equal(fees[i]) || fee.GT(rc.ServiceFeeCap.AmountOf("stake")) {
						t.Fatalf("VIOLATION fee %s: %s", fee, desc)
					}
				}
			}
			if !rc.SuperMode {
				bal[rc.Consumer.String()] = bal[rc.Consumer.String()].Sub(total)
			}
		}
	}
	for idStr, rs := range reqsBy {
		if !seen[idStr] && len(rs) > 0 {
			// requests of this height outside the new-batch phase: only tx-time module service (not used here)
			t.Fatalf("VIOLATION requests at h=%d for context %s without a new batch event", H, idStr)
		}
	}
	for _, c := range w.consumers {
		got := w.app.BankKeeper.GetBalance(ctx, c, "stake").Amount
		if !got.Equal(bal[c.String()]) {
			t.Fatalf("VIOLATION h=%d consumer %s balance %s, expected %s", H, c, got, bal[c.String()])
		}
	}
}

func hexDecode(s string) ([]byte, error) {
	out := make([]byte, len(s)/2)
	for i := 0; i < len(out); i++ {
		v, e := strconv.ParseUint(s[2*i:2*i+2], 16, 8)
		if e != nil {
			return nil, e
		}
		out[i] = byte(v)
	}
	return out, nil
}

func runHC06(t *testing.T, seed int64, blocks int) *hc06World {
	app := simapp.Setup(false)
	t0 := time.Date(2021, 1, 1, 0, 0, 0, 0, time.UTC)
	ctx := app.BaseApp.NewContext(false, tmproto.Header{Height: 1, Time: t0})
	k := app.ServiceKeeper
	k.SetParams(ctx, types.DefaultParams())
	addrs := simapp.AddTestAddrs(app, ctx, 8, sdk.NewInt(100000000))
	w := &hc06World{t: t, r: rand.New(rand.NewSource(seed)), app: app, k: k, ctx: ctx, h: service.NewHandler(k), t0: t0}
	w.author = addrs[0]
	w.owners = addrs[1:3]
	w.consumers = addrs[3:5]
	w.providers = []sdk.AccAddress{addrs[5], addrs[6], addrs[7], sdk.AccAddress([]byte("p")), sdk.AccAddress(append(append([]byte{}, addrs[5]...), 0x01))}
	w.services = []string{"abc", "abcd"}
	for _, s := range w.services {
		if err := w.deliver(types.NewMsgDefineService(s, "", nil, w.author, "", hc06Schemas)); err != nil {
			t.Fatal(err)
		}
	}
	for _, s := range w.services {
		for _, p := range w.providers {
			if w.r.Intn(10) < 7 {
				_ = w.deliver(types.NewMsgBindService(s, p, w.coins([]int64{6000, 6005, 7000, 20000}[w.r.Intn(4)]), w.pricing(), uint64(1+w.r.Intn(4)), "{}", w.owners[w.r.Intn(2)]))
			}
		}
	}
	// start with small consumer balances
	for _, c := range w.consumers {
		b := app.BankKeeper.GetBalance(ctx, c, "stake").Amount
		_ = app.BankKeeper.SendCoins(ctx, c, w.author, sdk.NewCoins(sdk.NewCoin("stake", b.SubRaw(40))))
	}
	if err := k.RegisterResponseCallback("mod", func(c sdk.Context, id tmbytes.HexBytes, _ []string, _ error) { w.modAct(c, id, true) }); err != nil {
		t.Fatal(err)
	}
	if err := k.RegisterStateCallback("mod", func(c sdk.Context, id tmbytes.HexBytes, _ string) { w.modAct(c, id, false) }); err != nil {
		t.Fatal(err)
	}
	for b := 0; b < blocks; b++ {
		n := w.r.Intn(7)
		for i := 0; i < n; i++ {
			w.op()
		}
		w.endBlock()
		w.ctx = w.ctx.WithBlockHeight(w.ctx.BlockHeight() + 1).WithBlockTime(w.ctx.BlockTime().Add(time.Duration(1+w.r.Intn(5)) * time.Second))
	}
	return w
}

func TestHC06Fuzz(t *testing.T) {
	seeds := 30
	if s := os.Getenv("HC06_SEEDS"); s != "" {
		seeds, _ = strconv.Atoi(s)
	}
	base := int64(0)
	if s := os.Getenv("HC06_BASE"); s != "" {
		base, _ = strconv.ParseInt(s, 10, 64)
	}
	iss, sk, pa, so := 0, 0, 0, 0
	for s := 0; s < seeds; s++ {
		w := runHC06(t, base+int64(s), 150)
		iss += w.issued
		sk += w.skipped
		pa += w.paused
		so += w.slashOff
	}
	t.Logf("issued=%d skipped=%d paused=%d disabled-in-endblock=%d", iss, sk, pa, so)
}
