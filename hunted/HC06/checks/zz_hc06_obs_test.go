package service_test

import (
	"bytes"
	"testing"
	"time"

	tmbytes "github.com/tendermint/tendermint/libs/bytes"
	tmproto "github.com/tendermint/tendermint/proto/tendermint/types"

	sdk "github.com/cosmos/cosmos-sdk/types"

	service "github.com/irismod/service"
	simapp "github.com/irismod/service/app"
	"github.com/irismod/service/types"
)

func TestHC06ObsStuck(t *testing.T) {
	app := simapp.Setup(false)
	t0 := time.Date(2021, 1, 1, 0, 0, 0, 0, time.UTC)
	ctx := app.BaseApp.NewContext(false, tmproto.Header{Height: 1, Time: t0})
	k := app.ServiceKeeper
	k.SetParams(ctx, types.DefaultParams())
	addrs := simapp.AddTestAddrs(app, ctx, 4, sdk.NewInt(100000000))
	author, owner, consumer, provider := addrs[0], addrs[1], addrs[2], addrs[3]
	h := service.NewHandler(k)
	stake := func(n int64) sdk.Coins { return sdk.NewCoins(sdk.NewCoin("stake", sdk.NewInt(n))) }
	_, err := h(ctx, types.NewMsgDefineService("svc", "", nil, author, "", hc06Schemas))
	if err != nil {
		t.Fatal(err)
	}
	_, err = h(ctx, types.NewMsgBindService("svc", provider, stake(10000), `{"price":"5stake"}`, 1, "{}", owner))
	if err != nil {
		t.Fatal(err)
	}
	var other tmbytes.HexBytes
	_ = k.RegisterResponseCallback("mod", func(c sdk.Context, id tmbytes.HexBytes, _ []string, _ error) {})
	_ = k.RegisterStateCallback("mod", func(c sdk.Context, id tmbytes.HexBytes, _ string) {
		if !bytes.Equal(id, other) {
			if err := k.StartRequestContext(c, other, consumer); err != nil {
				t.Logf("start other: %v", err)
			}
		}
	})
	mk := func(tx string, state types.RequestContextState) tmbytes.HexBytes {
		c := ctx.WithValue(types.TxHash, []byte(tx)).WithValue(types.MsgIndex, int64(0))
		id, err := k.CreateRequestContext(c, "svc", []sdk.AccAddress{provider}, consumer, `{"header":{}}`, stake(10), 2, false, true, 2, 5, state, 1, "mod")
		if err != nil {
			t.Fatal(err)
		}
		return id
	}
	// B sorts before A
	B := mk("00000000000000000000000000000000", types.RUNNING)
	A := mk("11111111111111111111111111111111", types.RUNNING)
	other = B
	if err := k.PauseRequestContext(ctx, B, consumer); err != nil {
		t.Fatal(err)
	}
	// consumer cannot pay
	bal := app.BankKeeper.GetBalance(ctx, consumer, "stake")
	_ = app.BankKeeper.SendCoins(ctx, consumer, author, sdk.NewCoins(bal))
	service.EndBlocker(ctx, k)
	a, _ := k.GetRequestContext(ctx, A)
	b, _ := k.GetRequestContext(ctx, B)
	t.Logf("A=%s B=%s Bnew=%v Bexp=%v counter=%d", a.State, b.State, k.HasNewRequestBatch(ctx, B), k.HasRequestBatchExpiration(ctx, B), b.BatchCounter)
	_ = app.BankKeeper.SendCoins(ctx, author, consumer, stake(1000))
	for i := 0; i < 10; i++ {
		ctx = ctx.WithBlockHeight(ctx.BlockHeight() + 1)
		service.EndBlocker(ctx, k)
	}
	b, _ = k.GetRequestContext(ctx, B)
	t.Logf("after 10 blocks: B=%s Bnew=%v Bexp=%v counter=%d", b.State, k.HasNewRequestBatch(ctx, B), k.HasRequestBatchExpiration(ctx, B), b.BatchCounter)
}
