module deliver
