package service_test

import (
	"fmt"
	"math/big"
	"testing"
	"time"

	"github.com/tendermint/tendermint/crypto/tmhash"
	tmbytes "github.com/tendermint/tendermint/libs/bytes"
	tmproto "github.com/tendermint/tendermint/proto/tendermint/types"

	sdk "github.com/cosmos/cosmos-sdk/types"

	service "github.com/irismod/service"
	simapp "github.com/irismod/service/app"
	"github.com/irismod/service/types"
)

// TestFinding1: C07 - a published base price with a fractional part is cut down to whole
// units BEFORE the discounts are applied, so the fee is lower than
// floor(base price * time discount * volume discount).
func TestFinding1(t *testing.T) {
	app := simapp.Setup(false)
	k := app.ServiceKeeper
	blockTime := time.Date(2020, 1, 1, 0, 0, 0, 0, time.UTC)
	ctx := app.BaseApp.NewContext(false, tmproto.Header{Height: 10, Time: blockTime})
	k.SetParams(ctx, types.DefaultParams())
	handler := service.NewHandler(k)

	addrs := simapp.AddTestAddrs(app, ctx, 4, sdk.NewInt(1000000000))
	author, owner, provider, consumer := addrs[0], addrs[1], addrs[2], addrs[3]

	txSeq := 0
	// deliver a message the way baseapp does
	deliver := func(msg sdk.Msg) tmbytes.HexBytes {
		t.Helper()
		if err := msg.ValidateBasic(); err != nil {
			t.Fatalf("ValidateBasic: %v", err)
		}
		txSeq++
		txHash := tmhash.Sum([]byte(fmt.Sprintf("tx-%d", txSeq)))
		cctx, write := ctx.CacheContext()
		cctx = cctx.WithValue(types.TxHash, txHash).WithValue(types.MsgIndex, int64(0))
		if _, err := handler(cctx, msg); err != nil {
			t.Fatalf("handler: %v", err)
		}
		write()
		return types.GenerateRequestContextID(txHash, 0)
	}

	// the published pricing: base price 2.9stake, a time promotion of 0.7 that is in effect now
	const publishedPrice = "2.9"
	const discount = "0.7"
	pricing := fmt.Sprintf(
		`{"price":"%sstake","promotions_by_time":[{"start_time":"2019-12-31T00:00:00Z","end_time":"2020-01-02T00:00:00Z","discount":"%s"}]}`,
		publishedPrice, discount,
	)

	deliver(types.NewMsgDefineService("svc", "", nil, author, "", `{"input":{"type":"object"},"output":{"type":"object"}}`))
	deliver(types.NewMsgBindService("svc", provider, sdk.NewCoins(sdk.NewInt64Coin("stake", 100000)), pricing, 1, "{}", owner))

	// the binding publishes exactly this pricing
	binding, found := k.GetServiceBinding(ctx, "svc", provider)
	if !found || binding.Pricing != pricing {
		t.Fatalf("binding not stored with the published pricing: %v", binding)
	}

	before := app.BankKeeper.GetBalance(ctx, consumer, "stake").Amount
	ctxID := deliver(types.NewMsgCallService(
		"svc", []sdk.AccAddress{provider}, consumer, `{"header":{}}`,
		sdk.NewCoins(sdk.NewInt64Coin("stake", 100)), 5, false, false, 0, 0,
	))
	service.EndBlocker(ctx, k)
	after := app.BankKeeper.GetBalance(ctx, consumer, "stake").Amount

	requestID := types.GenerateRequestID(ctxID, 1, ctx.BlockHeight(), 0)
	request, found := k.GetRequest(ctx, requestID)
	if !found {
		t.Fatalf("request not issued")
	}

	// what the property demands: floor(base price * time discount * volume discount), at least 1
	p, _ := new(big.Rat).SetString(publishedPrice)
	d, _ := new(big.Rat).SetString(discount)
	exact := new(big.Rat).Mul(p, d) // volume discount is 1: no volume promotion
	want := new(big.Int).Quo(exact.Num(), exact.Denom())
	if want.Sign() <= 0 {
		want = big.NewInt(1)
	}

	got := request.ServiceFee.AmountOf("stake")
	charged := before.Sub(after)
	t.Logf("published base price %sstake, discount %s: exact product %s, fee on the request %s, charged to the consumer %s",
		publishedPrice, discount, exact.FloatString(2), request.ServiceFee, charged)

	if got.BigInt().Cmp(want) != 0 || charged.BigInt().Cmp(want) != 0 {
		t.Fatalf("C07 violated: base price %sstake * time discount %s = %s, truncated fee must be %sstake, "+
			"but the request carries %s and the consumer was charged %sstake",
			publishedPrice, discount, exact.FloatString(2), want, request.ServiceFee, charged)
	}
}
