package service_test

import (
	"fmt"
	"testing"
	"time"

	"github.com/tendermint/tendermint/crypto/tmhash"
	tmbytes "github.com/tendermint/tendermint/libs/bytes"
	tmproto "github.com/tendermint/tendermint/proto/tendermint/types"

	sdk "github.com/cosmos/cosmos-sdk/types"

	service "github.com/irismod/service"
	simapp "github.com/irismod/service/app"
	"github.com/irismod/service/types"
)

// TestFinding2: C07 - a MsgCallService with SuperMode=true that targets a service served by a
// registered module service is accepted, but the super mode flag is silently dropped:
// the request carries the full fee and the consumer pays it.
func TestFinding2(t *testing.T) {
	app := simapp.Setup(false)
	k := app.ServiceKeeper
	ctx := app.BaseApp.NewContext(false, tmproto.Header{Height: 10, Time: time.Date(2020, 1, 1, 0, 0, 0, 0, time.UTC)})
	k.SetParams(ctx, types.DefaultParams())
	handler := service.NewHandler(k)

	addrs := simapp.AddTestAddrs(app, ctx, 4, sdk.NewInt(1000000000))
	author, owner, provider, consumer := addrs[0], addrs[1], addrs[2], addrs[3]

	txSeq := 0
	// deliver a message the way baseapp does
	deliver := func(msg sdk.Msg) tmbytes.HexBytes {
		t.Helper()
		if err := msg.ValidateBasic(); err != nil {
			t.Fatalf("ValidateBasic: %v", err)
		}
		txSeq++
		txHash := tmhash.Sum([]byte(fmt.Sprintf("tx-%d", txSeq)))
		cctx, write := ctx.CacheContext()
		cctx = cctx.WithValue(types.TxHash, txHash).WithValue(types.MsgIndex, int64(0))
		if _, err := handler(cctx, msg); err != nil {
			t.Fatalf("handler: %v", err)
		}
		write()
		return types.GenerateRequestContextID(txHash, 0)
	}

	deliver(types.NewMsgDefineService("svc", "", nil, author, "", `{"input":{"type":"object"},"output":{"type":"object"}}`))
	deliver(types.NewMsgBindService("svc", provider, sdk.NewCoins(sdk.NewInt64Coin("stake", 100000)), `{"price":"7stake"}`, 1, "{}", owner))

	// another module (not the exchange-rate "oracle" module) serves this service from now on
	err := k.RegisterModuleService("mymodule", &types.ModuleService{
		ServiceName: "svc",
		Provider:    provider,
		ReuquestService: func(ctx sdk.Context, input string) (string, string) {
			return `{"code":200,"message":""}`, `{"header":{},"body":{}}`
		},
	})
	if err != nil {
		t.Fatal(err)
	}

	before := app.BankKeeper.GetBalance(ctx, consumer, "stake").Amount

	// the consumer makes the request in super mode; the message is accepted
	ctxID := deliver(types.NewMsgCallService(
		"svc", []sdk.AccAddress{provider}, consumer, `{"header":{}}`,
		sdk.NewCoins(sdk.NewInt64Coin("stake", 100)), 5, true /* super mode */, false, 0, 0,
	))
	service.EndBlocker(ctx, k)

	after := app.BankKeeper.GetBalance(ctx, consumer, "stake").Amount
	cost := before.Sub(after)

	requestID := types.GenerateRequestID(ctxID, 1, ctx.BlockHeight(), 0)
	request, found := k.GetRequest(ctx, requestID)
	if !found {
		t.Fatalf("request not found")
	}
	t.Logf("request: super_mode=%v service_fee=%s; consumer paid %sstake", request.SuperMode, request.ServiceFee, cost)

	if !request.ServiceFee.IsZero() || !cost.IsZero() {
		t.Fatalf("C07 violated: the call was made with SuperMode=true and accepted, "+
			"but the request carries the fee %s (super_mode recorded as %v) and cost the consumer %sstake; "+
			"requests made in super mode must carry no fee and cost the consumer nothing",
			request.ServiceFee, request.SuperMode, cost)
	}
}
