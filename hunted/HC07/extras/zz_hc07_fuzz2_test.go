package service_test

import (
	"fmt"
	"math/rand"
	"strings"
	"testing"
	"time"

	"github.com/tendermint/tendermint/crypto/tmhash"
	tmbytes "github.com/tendermint/tendermint/libs/bytes"

	sdk "github.com/cosmos/cosmos-sdk/types"

	simapp "github.com/irismod/service/app"
	"github.com/irismod/service/types"
)

func smallPricing(rng *rand.Rand, base time.Time) string {
	prices := []string{"0", "1", "2", "3", "7", "10", "13", "5", "100"}
	price := prices[rng.Intn(len(prices))]
	var tp []string
	t := base.Add(time.Duration(rng.Intn(20)-5) * time.Second)
	for i := 0; i < rng.Intn(4); i++ {
		s := t.Add(time.Duration(rng.Intn(5)) * time.Second)
		e := s.Add(time.Duration(1+rng.Intn(10)) * time.Second)
		tp = append(tp, fmt.Sprintf(`{"start_time":"%s","end_time":"%s","discount":"%s"}`, s.Format(time.RFC3339), e.Format(time.RFC3339), randDiscount(rng)))
		t = e
	}
	var vp []string
	v := 0
	for i := 0; i < rng.Intn(4); i++ {
		v += rng.Intn(3)
		if v == 0 {
			v = 1
		}
		vp = append(vp, fmt.Sprintf(`{"volume":%d,"discount":"%s"}`, v, randDiscount(rng)))
	}
	return fmt.Sprintf(`{"price":"%sstake","promotions_by_time":[%s],"promotions_by_volume":[%s]}`, price, strings.Join(tp, ","), strings.Join(vp, ","))
}

func TestHC07Fuzz2(t *testing.T) {
	for seed := int64(1); seed <= 60; seed++ {
		runHC07Fuzz2(t, seed)
	}
	t.Logf("checked %d", hcChecked)
}

func runHC07Fuzz2(t *testing.T, seed int64) {
	rng := rand.New(rand.NewSource(seed))
	r := newHcRig(t)
	addrs := simapp.AddTestAddrs(r.app, r.ctx, 6, sdk.NewInt(100000000))
	author, owner := addrs[0], addrs[1]
	consumers := []sdk.AccAddress{addrs[2], addrs[3]}
	// make consumer 1 poor
	bal := r.bal(consumers[1])
	if err := r.app.BankKeeper.SendCoins(r.ctx, consumers[1], author, sdk.NewCoins(sdk.NewCoin("stake", bal.SubRaw(int64(20+rng.Intn(60)))))); err != nil {
		t.Fatal(err)
	}
	providers := []sdk.AccAddress{addrs[4], addrs[5], sdk.AccAddress([]byte{1, 2, 3}), sdk.AccAddress(append(append([]byte{}, addrs[4]...), 9, 9, 9, 9, 9, 9, 9, 9, 9, 9, 9, 9, 9))}
	initial := map[string]sdk.Int{}
	for _, c := range consumers {
		initial[c.String()] = r.bal(c)
	}

	setParams := func() {
		params := r.k.GetParams(r.ctx)
		params.SlashFraction = sdk.NewDecWithPrec(int64(rng.Intn(100)), 4)
		params.MinDepositMultiple = int64(1 + rng.Intn(3))
		params.MinDeposit = sdk.NewCoins(sdk.NewInt64Coin("stake", int64(1+rng.Intn(2000))))
		params.ServiceFeeTax = sdk.NewDecWithPrec(int64(rng.Intn(100)), 2)
		params.MaxRequestTimeout = int64(3 + rng.Intn(100))
		r.k.SetParams(r.ctx, params)
	}
	setParams()

	var modCtxs []tmbytes.HexBytes
	modOp := func(ctx sdk.Context) {
		if len(modCtxs) == 0 {
			return
		}
		id := modCtxs[rng.Intn(len(modCtxs))]
		rc, found := r.k.GetRequestContext(ctx, id)
		if !found {
			return
		}
		switch rng.Intn(5) {
		case 0:
			_ = r.k.PauseRequestContext(ctx, id, rc.Consumer)
		case 1:
			_ = r.k.StartRequestContext(ctx, id, rc.Consumer)
		case 2:
			_ = r.k.KillRequestContext(ctx, id, rc.Consumer)
		case 3:
			_ = r.k.UpdateRequestContext(ctx, id, []sdk.AccAddress{providers[rng.Intn(4)]}, 1, sdk.NewCoins(sdk.NewInt64Coin("stake", int64(1+rng.Intn(200)))), 0, 0, 0, rc.Consumer)
		}
	}
	if err := r.k.RegisterResponseCallback("mod", func(ctx sdk.Context, id tmbytes.HexBytes, responses []string, err error) { modOp(ctx) }); err != nil {
		t.Fatal(err)
	}
	if err := r.k.RegisterStateCallback("mod", func(ctx sdk.Context, id tmbytes.HexBytes, cause string) { modOp(ctx) }); err != nil {
		t.Fatal(err)
	}

	if _, err := r.deliver(types.NewMsgDefineService("svc", "", nil, author, "", `{"input":{"type":"object"},"output":{"type":"object"}}`)); err != nil {
		t.Fatal(err)
	}
	for _, p := range providers {
		pr := smallPricing(rng, r.ctx.BlockTime())
		if _, err := r.deliver(types.NewMsgBindService("svc", p, sdk.NewCoins(sdk.NewInt64Coin("stake", 1000000)), pr, 1, "{}", owner)); err != nil {
			t.Fatal(err, pr)
		}
	}

	seen := map[string]bool{}
	spent := map[string]sdk.Int{}
	for _, c := range consumers {
		spent[c.String()] = sdk.ZeroInt()
	}
	var userCtxs []tmbytes.HexBytes

	for step := 0; step < 80; step++ {
		for i := 0; i < rng.Intn(5); i++ {
			switch rng.Intn(10) {
			case 0, 1:
				c := consumers[rng.Intn(2)]
				var provs []sdk.AccAddress
				for _, p := range providers {
					if rng.Intn(2) == 0 {
						provs = append(provs, p)
					}
				}
				if len(provs) == 0 {
					provs = providers[:1]
				}
				rep := rng.Intn(2) == 0
				to := int64(1 + rng.Intn(3))
				msg := types.NewMsgCallService("svc", provs, c, `{"header":{}}`, sdk.NewCoins(sdk.NewInt64Coin("stake", int64(1+rng.Intn(200)))), to, rng.Intn(4) == 0, rep, uint64(to)+uint64(rng.Intn(2)), int64(1+rng.Intn(4)))
				id, err := r.deliver(msg)
				if err != nil {
					t.Fatal(err)
				}
				userCtxs = append(userCtxs, id)
			case 2:
				// module creates a context inside a tx
				c := consumers[rng.Intn(2)]
				r.txSeq++
				txHash := tmhash.Sum([]byte(fmt.Sprintf("tx-%d", r.txSeq)))
				cctx, write := r.ctx.CacheContext()
				cctx = cctx.WithValue(types.TxHash, txHash).WithValue(types.MsgIndex, int64(0))
				to := int64(1 + rng.Intn(3))
				st := types.RUNNING
				if rng.Intn(3) == 0 {
					st = types.PAUSED
				}
				id, err := r.k.CreateRequestContext(cctx, "svc", providers[:1+rng.Intn(4)], c, `{"header":{}}`, sdk.NewCoins(sdk.NewInt64Coin("stake", int64(1+rng.Intn(200)))), to, rng.Intn(4) == 0, rng.Intn(2) == 0, uint64(to)+uint64(rng.Intn(2)), int64(1+rng.Intn(4)), st, 1, "mod")
				if err == nil {
					write()
					modCtxs = append(modCtxs, id)
				}
			case 3, 4, 5:
				var act []reqInfo
				for _, ri := range r.allRequests() {
					if r.k.IsRequestActive(r.ctx, ri.id) && len(ri.req.Provider) == 20 {
						act = append(act, ri)
					}
				}
				if len(act) == 0 {
					continue
				}
				ri := act[rng.Intn(len(act))]
				var msg sdk.Msg
				valid := rng.Intn(4) != 0
				if valid {
					msg = types.NewMsgRespondService(ri.id, ri.req.Provider, `{"code":200,"message":""}`, `{"header":{},"body":{}}`)
				} else {
					msg = types.NewMsgRespondService(ri.id, ri.req.Provider, `{"code":200,"message":""}`, `{"body":{}}`)
				}
				if _, err := r.deliver(msg); err != nil {
					t.Fatal(err)
				}
				if valid {
					cs := ri.req.Consumer.String()
					spent[cs] = spent[cs].Add(ri.req.ServiceFee.AmountOf("stake"))
				}
			case 6:
				p := providers[rng.Intn(4)]
				pr := smallPricing(rng, r.ctx.BlockTime())
				_, err := r.deliver(types.NewMsgUpdateServiceBinding("svc", p, nil, pr, 0, "{}", owner))
				if err != nil && !strings.Contains(err.Error(), "pricing") && !strings.Contains(err.Error(), "insufficient deposit") {
					t.Fatal(err, pr)
				}
			case 7:
				if len(userCtxs) == 0 {
					continue
				}
				id := userCtxs[rng.Intn(len(userCtxs))]
				rc, found := r.k.GetRequestContext(r.ctx, id)
				if !found {
					continue
				}
				switch rng.Intn(4) {
				case 0:
					_, _ = r.deliver(types.NewMsgPauseRequestContext(id, rc.Consumer))
				case 1:
					_, _ = r.deliver(types.NewMsgStartRequestContext(id, rc.Consumer))
				case 2:
					_, _ = r.deliver(types.NewMsgKillRequestContext(id, rc.Consumer))
				case 3:
					_, _ = r.deliver(types.NewMsgUpdateRequestContext(id, []sdk.AccAddress{providers[rng.Intn(4)]}, sdk.NewCoins(sdk.NewInt64Coin("stake", int64(1+rng.Intn(200)))), 0, 0, 0, rc.Consumer))
				}
			case 8:
				p := providers[rng.Intn(4)]
				if rng.Intn(2) == 0 {
					_, _ = r.deliver(types.NewMsgDisableServiceBinding("svc", p, owner))
				} else {
					_, _ = r.deliver(types.NewMsgEnableServiceBinding("svc", p, sdk.NewCoins(sdk.NewInt64Coin("stake", 10000)), owner))
				}
			case 9:
				setParams()
			}
		}
		r.endBlock()
		for _, ri := range r.allRequests() {
			key := ri.id.String()
			if seen[key] {
				continue
			}
			seen[key] = true
			hcChecked++
			if ri.req.RequestHeight != r.ctx.BlockHeight() {
				t.Fatalf("seed %d: unseen old request", seed)
			}
			if ri.req.SuperMode {
				if !ri.req.ServiceFee.IsZero() {
					t.Fatalf("seed %d: super mode request has fee %s", seed, ri.req.ServiceFee)
				}
				continue
			}
			pricing := r.k.GetPricing(r.ctx, "svc", ri.req.Provider)
			vol := r.k.GetRequestVolume(r.ctx, ri.req.Consumer, "svc", ri.req.Provider)
			exp := expectedFee(pricing, r.ctx.BlockTime(), vol)
			got := ri.req.ServiceFee.AmountOf("stake").BigInt()
			if exp.Cmp(got) != 0 || len(ri.req.ServiceFee) != 1 {
				t.Fatalf("seed %d step %d: fee %s expected %s pricing %v vol %d time %s", seed, step, ri.req.ServiceFee, exp, pricing, vol, r.ctx.BlockTime())
			}
		}
		for _, c := range consumers {
			locked := sdk.ZeroInt()
			for _, ri := range r.allRequests() {
				if ri.req.Consumer.Equals(c) && r.k.IsRequestActive(r.ctx, ri.id) {
					locked = locked.Add(ri.req.ServiceFee.AmountOf("stake"))
				}
			}
			paid := initial[c.String()].Sub(r.bal(c))
			if !paid.Equal(locked.Add(spent[c.String()])) {
				t.Fatalf("seed %d step %d: consumer paid %s but locked %s + spent %s", seed, step, paid, locked, spent[c.String()])
			}
		}
		r.nextBlock(time.Duration(rng.Intn(4)) * time.Second)
	}
}
