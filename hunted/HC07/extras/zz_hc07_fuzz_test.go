package service_test

import (
	"fmt"
	"math/big"
	"math/rand"
	"strings"
	"testing"
	"time"

	"github.com/tendermint/tendermint/crypto/tmhash"
	tmbytes "github.com/tendermint/tendermint/libs/bytes"
	tmproto "github.com/tendermint/tendermint/proto/tendermint/types"

	sdk "github.com/cosmos/cosmos-sdk/types"

	service "github.com/irismod/service"
	simapp "github.com/irismod/service/app"
	"github.com/irismod/service/keeper"
	"github.com/irismod/service/types"
)

var hcChecked, hcDiscounted int

type hcRig struct {
	t     *testing.T
	app   *simapp.SimApp
	k     keeper.Keeper
	ctx   sdk.Context
	h     sdk.Handler
	txSeq int
}

func newHcRig(t *testing.T) *hcRig {
	app := simapp.Setup(false)
	ctx := app.BaseApp.NewContext(false, tmproto.Header{Height: 1, Time: time.Date(2020, 1, 1, 0, 0, 0, 0, time.UTC)})
	app.ServiceKeeper.SetParams(ctx, types.DefaultParams())
	return &hcRig{t: t, app: app, k: app.ServiceKeeper, ctx: ctx, h: service.NewHandler(app.ServiceKeeper)}
}

// deliver mimics baseapp: ValidateBasic, cache ctx, write back on success only
func (r *hcRig) deliver(msg sdk.Msg) (ctxID tmbytes.HexBytes, err error) {
	if err := msg.ValidateBasic(); err != nil {
		return nil, err
	}
	r.txSeq++
	txHash := tmhash.Sum([]byte(fmt.Sprintf("tx-%d", r.txSeq)))
	cctx, write := r.ctx.CacheContext()
	cctx = cctx.WithValue(types.TxHash, txHash).WithValue(types.MsgIndex, int64(0))
	defer func() {
		if rec := recover(); rec != nil {
			err = fmt.Errorf("panic: %v", rec)
		}
	}()
	_, err = r.h(cctx, msg)
	if err != nil {
		return nil, err
	}
	write()
	return types.GenerateRequestContextID(txHash, 0), nil
}

func (r *hcRig) endBlock() {
	service.EndBlocker(r.ctx, r.k)
}

func (r *hcRig) nextBlock(dt time.Duration) {
	r.ctx = r.ctx.WithBlockHeight(r.ctx.BlockHeight() + 1).WithBlockTime(r.ctx.BlockTime().Add(dt))
}

func (r *hcRig) bal(a sdk.AccAddress) sdk.Int {
	return r.app.BankKeeper.GetBalance(r.ctx, a, "stake").Amount
}

type reqInfo struct {
	id  tmbytes.HexBytes
	req types.Request
}

func (r *hcRig) allRequests() []reqInfo {
	var out []reqInfo
	r.k.IterateRequests(r.ctx, func(id tmbytes.HexBytes, c types.CompactRequest) bool {
		idc := append(tmbytes.HexBytes{}, id...)
		req, found := r.k.GetRequest(r.ctx, idc)
		if found {
			out = append(out, reqInfo{idc, req})
		}
		return false
	})
	return out
}

// expected fee computed exactly with rationals from the *stored* integer base price
func expectedFee(p types.Pricing, now time.Time, volume uint64) *big.Int {
	base := new(big.Rat).SetInt(p.Price.AmountOf("stake").BigInt())
	dt := big.NewRat(1, 1)
	for _, pt := range p.PromotionsByTime {
		if !now.Before(pt.StartTime) && now.Before(pt.EndTime) {
			dt, _ = new(big.Rat).SetString(pt.Discount.String())
			break
		}
	}
	dv := big.NewRat(1, 1)
	for _, pv := range p.PromotionsByVolume {
		if volume >= pv.Volume {
			dv, _ = new(big.Rat).SetString(pv.Discount.String())
		}
	}
	x := new(big.Rat).Mul(base, dt)
	x.Mul(x, dv)
	fl := new(big.Int).Quo(x.Num(), x.Denom())
	if fl.Cmp(big.NewInt(1)) < 0 {
		fl = big.NewInt(1)
	}
	return fl
}

func randDiscount(rng *rand.Rand) string {
	n := 1 + rng.Intn(18)
	var sb strings.Builder
	sb.WriteString("0.")
	for i := 0; i < n-1; i++ {
		sb.WriteByte(byte('0' + rng.Intn(10)))
	}
	sb.WriteByte(byte('1' + rng.Intn(9)))
	return sb.String()
}

func randPricing(rng *rand.Rand, base time.Time) string {
	prices := []string{"0", "1", "2", "3", "7", "10", "999", "1000003", "340282366920938463463374607431768211455", "18446744073709551617", "5", "100"}
	price := prices[rng.Intn(len(prices))]
	var tp []string
	t := base.Add(time.Duration(rng.Intn(20)-5) * time.Second)
	for i := 0; i < rng.Intn(4); i++ {
		s := t.Add(time.Duration(rng.Intn(5)) * time.Second)
		e := s.Add(time.Duration(1+rng.Intn(10)) * time.Second)
		tp = append(tp, fmt.Sprintf(`{"start_time":"%s","end_time":"%s","discount":"%s"}`, s.Format(time.RFC3339), e.Format(time.RFC3339), randDiscount(rng)))
		t = e
	}
	var vp []string
	v := 0
	for i := 0; i < rng.Intn(4); i++ {
		v += rng.Intn(3)
		if v == 0 {
			v = 1
		}
		vp = append(vp, fmt.Sprintf(`{"volume":%d,"discount":"%s"}`, v, randDiscount(rng)))
	}
	return fmt.Sprintf(`{"price":"%sstake","promotions_by_time":[%s],"promotions_by_volume":[%s]}`, price, strings.Join(tp, ","), strings.Join(vp, ","))
}

func TestHC07Fuzz(t *testing.T) {
	for seed := int64(1); seed <= 40; seed++ {
		runHC07Fuzz(t, seed)
		t.Logf("seed %d checked %d", seed, hcChecked)
	}
}

func runHC07Fuzz(t *testing.T, seed int64) {
	rng := rand.New(rand.NewSource(seed))
	r := newHcRig(t)
	huge, _ := sdk.NewIntFromString("1000000000000000000000000000000000000000000000000000000000000")
	addrs := simapp.AddTestAddrs(r.app, r.ctx, 6, huge)
	author, owner := addrs[0], addrs[1]
	consumers := []sdk.AccAddress{addrs[2], addrs[3]}
	providers := []sdk.AccAddress{addrs[4], addrs[5]}
	initial := map[string]sdk.Int{}
	for _, c := range consumers {
		initial[c.String()] = r.bal(c)
	}

	params := r.k.GetParams(r.ctx)
	params.SlashFraction = sdk.NewDecWithPrec(1, 6)
	params.MinDepositMultiple = 1
	r.k.SetParams(r.ctx, params)

	_, err := r.deliver(types.NewMsgDefineService("svc", "", nil, author, "", `{"input":{"type":"object"},"output":{"type":"object"}}`))
	if err != nil {
		t.Fatal(err)
	}
	dep, _ := sdk.NewIntFromString("340282366920938463463374607431768211455")
	for _, p := range providers {
		for {
			pr := randPricing(rng, r.ctx.BlockTime())
			_, err = r.deliver(types.NewMsgBindService("svc", p, sdk.NewCoins(sdk.NewCoin("stake", dep)), pr, 1, "{}", owner))
			if err == nil {
				break
			}
			if !strings.Contains(err.Error(), "pricing") {
				t.Fatal(err, pr)
			}
		}
	}

	seen := map[string]bool{}
	spent := map[string]sdk.Int{}
	for _, c := range consumers {
		spent[c.String()] = sdk.ZeroInt()
	}
	capAmt, _ := sdk.NewIntFromString("400000000000000000000000000000000000000000")

	for step := 0; step < 60; step++ {
		// txs
		for i := 0; i < rng.Intn(4); i++ {
			switch rng.Intn(5) {
			case 0, 1:
				c := consumers[rng.Intn(2)]
				provs := []sdk.AccAddress{providers[0], providers[1]}
				if rng.Intn(2) == 0 {
					provs = provs[rng.Intn(2):][:1]
				}
				rep := rng.Intn(2) == 0
				to := int64(1 + rng.Intn(3))
				msg := types.NewMsgCallService("svc", provs, c, `{"header":{}}`, sdk.NewCoins(sdk.NewCoin("stake", capAmt)), to, rng.Intn(4) == 0, rep, uint64(to)+uint64(rng.Intn(2)), int64(1+rng.Intn(4)))
				if _, err := r.deliver(msg); err != nil {
					t.Fatal(err)
				}
			case 2, 3:
				var act []reqInfo
				for _, ri := range r.allRequests() {
					if r.k.IsRequestActive(r.ctx, ri.id) {
						act = append(act, ri)
					}
				}
				if len(act) == 0 {
					continue
				}
				ri := act[rng.Intn(len(act))]
				var msg sdk.Msg
				valid := rng.Intn(4) != 0
				if valid {
					msg = types.NewMsgRespondService(ri.id, ri.req.Provider, `{"code":200,"message":""}`, `{"header":{},"body":{}}`)
				} else {
					msg = types.NewMsgRespondService(ri.id, ri.req.Provider, `{"code":200,"message":""}`, `{"body":{}}`)
				}
				if _, err := r.deliver(msg); err != nil {
					t.Fatal(err)
				}
				if valid {
					cs := ri.req.Consumer.String()
					spent[cs] = spent[cs].Add(ri.req.ServiceFee.AmountOf("stake"))
				}
			case 4:
				p := providers[rng.Intn(2)]
				pr := randPricing(rng, r.ctx.BlockTime())
				_, err := r.deliver(types.NewMsgUpdateServiceBinding("svc", p, nil, pr, 0, "{}", owner))
				if err != nil && !strings.Contains(err.Error(), "pricing") && !strings.Contains(err.Error(), "insufficient deposit") {
					t.Fatal(err, pr)
				}
			}
		}
		r.endBlock()
		// check new requests
		for _, ri := range r.allRequests() {
			key := ri.id.String()
			if seen[key] {
				continue
			}
			seen[key] = true
			hcChecked++
			if ri.req.RequestHeight != r.ctx.BlockHeight() {
				t.Fatalf("seed %d: unseen old request", seed)
			}
			if ri.req.SuperMode {
				if !ri.req.ServiceFee.IsZero() {
					t.Fatalf("seed %d: super mode request has fee %s", seed, ri.req.ServiceFee)
				}
				continue
			}
			pricing := r.k.GetPricing(r.ctx, "svc", ri.req.Provider)
			vol := r.k.GetRequestVolume(r.ctx, ri.req.Consumer, "svc", ri.req.Provider)
			exp := expectedFee(pricing, r.ctx.BlockTime(), vol)
			got := ri.req.ServiceFee.AmountOf("stake").BigInt()
			if exp.Cmp(got) != 0 || len(ri.req.ServiceFee) != 1 {
				t.Fatalf("seed %d step %d: fee %s expected %s pricing %v vol %d time %s", seed, step, ri.req.ServiceFee, exp, pricing, vol, r.ctx.BlockTime())
			}
		}
		// balance check
		for _, c := range consumers {
			locked := sdk.ZeroInt()
			for _, ri := range r.allRequests() {
				if ri.req.Consumer.Equals(c) && r.k.IsRequestActive(r.ctx, ri.id) {
					locked = locked.Add(ri.req.ServiceFee.AmountOf("stake"))
				}
			}
			paid := initial[c.String()].Sub(r.bal(c))
			if !paid.Equal(locked.Add(spent[c.String()])) {
				t.Fatalf("seed %d step %d: consumer paid %s but locked %s + spent %s", seed, step, paid, locked, spent[c.String()])
			}
		}
		r.nextBlock(time.Duration(rng.Intn(4)) * time.Second)
	}
}
