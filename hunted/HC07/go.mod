module deliver
