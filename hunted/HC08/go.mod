module deliver
