package service_test

import (
	"encoding/hex"
	"fmt"
	"math/rand"
	"os"
	"strconv"
	"testing"
	"time"

	"github.com/tendermint/tendermint/crypto/tmhash"
	tmbytes "github.com/tendermint/tendermint/libs/bytes"
	tmproto "github.com/tendermint/tendermint/proto/tendermint/types"
	abci "github.com/tendermint/tendermint/abci/types"

	sdk "github.com/cosmos/cosmos-sdk/types"

	service "github.com/irismod/service"
	simapp "github.com/irismod/service/app"
	"github.com/irismod/service/keeper"
	"github.com/irismod/service/types"
)

type mreq struct {
	id        tmbytes.HexBytes
	provider  sdk.AccAddress
	h, t      int64
	responded bool
	ctxID     tmbytes.HexBytes
}

type world struct {
	t      *testing.T
	rng    *rand.Rand
	app    *simapp.SimApp
	k      keeper.Keeper
	ctx    sdk.Context
	h      sdk.Handler
	height int64
	txn    int
	model  map[string]*mreq
	order  []string
	ctxIDs []tmbytes.HexBytes
	modIDs []tmbytes.HexBytes
	log    []string

	author, owner              sdk.AccAddress
	providers                  []sdk.AccAddress
	consumers                  []sdk.AccAddress
	stranger, modConsumer, odd sdk.AccAddress
	inCallback                 int
	modPoor                    sdk.AccAddress
}

func (w *world) logf(f string, a ...interface{}) {
	w.log = append(w.log, fmt.Sprintf("[h=%d] ", w.height)+fmt.Sprintf(f, a...))
}

func (w *world) fail(f string, a ...interface{}) {
	for _, l := range w.log {
		fmt.Println(l)
	}
	w.t.Fatalf(f, a...)
}

// deliver runs a message like baseapp does
func (w *world) deliver(msg sdk.Msg) (err error) {
	if e := msg.ValidateBasic(); e != nil {
		return fmt.Errorf("validatebasic: %w", e)
	}
	w.txn++
	cctx, write := w.ctx.CacheContext()
	cctx = cctx.WithValue(types.TxHash, tmhash.Sum([]byte(strconv.Itoa(w.txn)))).WithValue(types.MsgIndex, int64(0))
	func() {
		defer func() {
			if r := recover(); r != nil {
				err = fmt.Errorf("panic: %v", r)
			}
		}()
		_, err = w.h(cctx, msg)
	}()
	if err == nil {
		write()
	}
	return err
}

// moduleCall runs a keeper API call made by another module (own cache, like a tx of that module)
func (w *world) moduleCall(f func(ctx sdk.Context) error) (err error) {
	w.txn++
	cctx, write := w.ctx.CacheContext()
	cctx = cctx.WithValue(types.TxHash, tmhash.Sum([]byte(strconv.Itoa(w.txn)))).WithValue(types.MsgIndex, int64(0))
	func() {
		defer func() {
			if r := recover(); r != nil {
				err = fmt.Errorf("panic: %v", r)
			}
		}()
		err = f(cctx)
	}()
	if err == nil {
		write()
	}
	return err
}

func newWorld(t *testing.T, seed int64) *world {
	app := simapp.Setup(false)
	ctx := app.BaseApp.NewContext(false, tmproto.Header{Height: 1, Time: time.Unix(1600000000, 0).UTC()})
	w := &world{t: t, rng: rand.New(rand.NewSource(seed)), app: app, k: app.ServiceKeeper, ctx: ctx, height: 1, model: map[string]*mreq{}}
	w.h = service.NewHandler(w.k)
	p := types.DefaultParams()
	p.MaxRequestTimeout = 6
	p.ArbitrationTimeLimit = 10 * time.Second
	p.ComplaintRetrospect = 10 * time.Second
	w.k.SetParams(ctx, p)
	addrs := simapp.AddTestAddrs(app, ctx, 10, sdk.NewInt(1000000000))
	w.author, w.owner = addrs[0], addrs[1]
	w.providers = addrs[2:5]
	w.consumers = addrs[5:7]
	w.stranger = addrs[7]
	w.modConsumer = addrs[8]
	// a poor consumer
	poor := simapp.AddTestAddrs(app, ctx, 1, sdk.NewInt(7))
	w.consumers = append(w.consumers, poor[0])
	w.modPoor = simapp.AddTestAddrs(app, ctx, 1, sdk.NewInt(9))[0]
	w.odd = sdk.AccAddress([]byte("odd-provider-of-25-bytes!"))
	return w
}

const schemas = `{"input":{"type":"object"},"output":{"type":"object"}}`

func (w *world) setup() {
	for _, n := range []string{"svc", "svc-a"} {
		if err := w.deliver(types.NewMsgDefineService(n, "", nil, w.author, "", schemas)); err != nil {
			w.fail("define: %v", err)
		}
	}
	pricings := []string{
		`{"price":"2stake","promotions_by_volume":[{"volume":1,"discount":"0.5"}]}`,
		`{"price":"1stake"}`,
		`{"price":"5stake","promotions_by_volume":[{"volume":2,"discount":"0.3"}]}`,
	}
	for i, p := range w.providers {
		for _, n := range []string{"svc", "svc-a"} {
			if err := w.deliver(types.NewMsgBindService(n, p, sdk.NewCoins(sdk.NewInt64Coin("stake", 10000)), pricings[i], 1, "{}", w.owner)); err != nil {
				w.fail("bind: %v", err)
			}
		}
	}
	if err := w.deliver(types.NewMsgBindService("svc", w.odd, sdk.NewCoins(sdk.NewInt64Coin("stake", 10000)), pricings[1], 1, "{}", w.owner)); err != nil {
		w.fail("bind odd: %v", err)
	}

	respCb := func(ctx sdk.Context, id tmbytes.HexBytes, outputs []string, err error) {
		w.inCallback++
		defer func() { w.inCallback-- }()
		w.callbackAction(ctx, id, "resp")
	}
	stateCb := func(ctx sdk.Context, id tmbytes.HexBytes, cause string) {
		w.inCallback++
		defer func() { w.inCallback-- }()
		w.callbackAction(ctx, id, "state")
	}
	// a module service on "svc-m", provided by providers[0] (bound before the registration)
	if err := w.deliver(types.NewMsgDefineService("svc-m", "", nil, w.author, "", schemas)); err != nil {
		w.fail("define: %v", err)
	}
	if err := w.deliver(types.NewMsgBindService("svc-m", w.providers[0], sdk.NewCoins(sdk.NewInt64Coin("stake", 10000)), pricings[0], 1, "{}", w.owner)); err != nil {
		w.fail("bind: %v", err)
	}
	if err := w.k.RegisterModuleService("modsvc", &types.ModuleService{
		ServiceName: "svc-m",
		Provider:    w.providers[0],
		ReuquestService: func(ctx sdk.Context, input string) (string, string) {
			switch w.rng.Intn(3) {
			case 0:
				return `{"code":200,"message":""}`, `{}`
			case 1:
				return `{"code":400,"message":"no"}`, ""
			}
			return `{"code":200,"message":""}`, `{"header":{},"body":{}}`
		},
	}); err != nil {
		w.fail("%v", err)
	}
	if err := w.k.RegisterResponseCallback("mod", respCb); err != nil {
		w.fail("%v", err)
	}
	if err := w.k.RegisterStateCallback("mod", stateCb); err != nil {
		w.fail("%v", err)
	}
}

func (w *world) callbackAction(ctx sdk.Context, id tmbytes.HexBytes, kind string) {
	target := id
	if w.rng.Intn(4) == 0 && len(w.modIDs) > 0 {
		target = w.modIDs[w.rng.Intn(len(w.modIDs))]
	}
	var err error
	var what string
	cons := w.modConsumer
	if rc, ok := w.k.GetRequestContext(ctx, target); ok {
		cons = rc.Consumer
	}
	if w.rng.Intn(6) == 0 {
		// the module funds its poor consumer
		_ = w.app.BankKeeper.SendCoins(ctx, w.modConsumer, w.modPoor, sdk.NewCoins(sdk.NewInt64Coin("stake", 20)))
	}
	switch w.rng.Intn(7) {
	case 0:
		what = "pause"
		err = w.k.PauseRequestContext(ctx, target, cons)
	case 1:
		what = "start"
		err = w.k.StartRequestContext(ctx, target, cons)
	case 2:
		what = "kill"
		err = w.k.KillRequestContext(ctx, target, cons)
	case 3:
		to := int64(w.rng.Intn(7))
		fr := uint64(w.rng.Intn(9))
		what = fmt.Sprintf("update to=%d fr=%d", to, fr)
		err = w.k.UpdateRequestContext(ctx, target, nil, 0, nil, to, fr, 0, cons)
	case 4:
		what = "pause+start"
		err = w.k.PauseRequestContext(ctx, target, cons)
		if err == nil {
			err = w.k.StartRequestContext(ctx, target, cons)
		}
	default:
		what = "nothing"
	}
	w.logf("  callback(%s) on %s -> %s %s: %v", kind, short(id), what, short(target), err)
}

func short(b []byte) string {
	s := hex.EncodeToString(b)
	if len(s) > 8 {
		return s[:8] + ".." + s[len(s)-8:]
	}
	return s
}

func (w *world) randProviders() []sdk.AccAddress {
	all := append([]sdk.AccAddress{}, w.providers...)
	all = append(all, w.odd)
	w.rng.Shuffle(len(all), func(i, j int) { all[i], all[j] = all[j], all[i] })
	return all[:1+w.rng.Intn(len(all))]
}

func (w *world) opCall() {
	consumer := w.consumers[w.rng.Intn(len(w.consumers))]
	to := int64(1 + w.rng.Intn(7))
	rep := w.rng.Intn(2) == 0
	fr := uint64(0)
	total := int64(0)
	if rep {
		if w.rng.Intn(2) == 0 {
			fr = uint64(to) + uint64(w.rng.Intn(3))
		}
		total = int64(1 + w.rng.Intn(4))
		if w.rng.Intn(4) == 0 {
			total = -1
		}
	}
	svc := "svc"
	if w.rng.Intn(4) == 0 {
		svc = "svc-a"
	}
	if w.rng.Intn(8) == 0 {
		svc = "svc-m"
	}
	provs := w.randProviders()
	super := w.rng.Intn(5) == 0
	msg := types.NewMsgCallService(svc, provs, consumer, `{"header":{}}`, sdk.NewCoins(sdk.NewInt64Coin("stake", int64(1+w.rng.Intn(6)))), to, super, rep, fr, total)
	err := w.deliver(msg)
	w.logf("call svc=%s nprov=%d to=%d rep=%v fr=%d total=%d super=%v: %v", svc, len(provs), to, rep, fr, total, super, err)
	if err == nil {
		id := types.GenerateRequestContextID(tmhash.Sum([]byte(strconv.Itoa(w.txn))), 0)
		w.ctxIDs = append(w.ctxIDs, id)
	}
}

func (w *world) opModCreate() {
	to := int64(1 + w.rng.Intn(6))
	rep := w.rng.Intn(3) != 0
	fr := uint64(0)
	total := int64(0)
	if rep {
		fr = uint64(to) + uint64(w.rng.Intn(3))
		total = int64(1 + w.rng.Intn(4))
	}
	provs := w.randProviders()
	th := uint32(1 + w.rng.Intn(len(provs)))
	state := types.RUNNING
	if w.rng.Intn(4) == 0 {
		state = types.PAUSED
	}
	var id tmbytes.HexBytes
	mc := w.modConsumer
	if w.rng.Intn(3) == 0 {
		mc = w.modPoor
	}
	err := w.moduleCall(func(ctx sdk.Context) error {
		var e error
		id, e = w.k.CreateRequestContext(ctx, "svc", provs, mc, `{"header":{}}`, sdk.NewCoins(sdk.NewInt64Coin("stake", 6)), to, false, rep, fr, total, state, th, "mod")
		return e
	})
	w.logf("modcreate nprov=%d to=%d rep=%v fr=%d total=%d th=%d state=%v: %v", len(provs), to, rep, fr, total, th, state, err)
	if err == nil {
		w.modIDs = append(w.modIDs, id)
	}
}

func (w *world) opCtxOp() {
	if len(w.ctxIDs) == 0 {
		return
	}
	id := w.ctxIDs[w.rng.Intn(len(w.ctxIDs))]
	rc, found := w.k.GetRequestContext(w.ctx, id)
	if !found {
		return
	}
	var err error
	var what string
	switch w.rng.Intn(4) {
	case 0:
		what = "pause"
		err = w.deliver(types.NewMsgPauseRequestContext(id, rc.Consumer))
	case 1:
		what = "start"
		err = w.deliver(types.NewMsgStartRequestContext(id, rc.Consumer))
	case 2:
		what = "kill"
		err = w.deliver(types.NewMsgKillRequestContext(id, rc.Consumer))
	case 3:
		to := int64(w.rng.Intn(8))
		fr := uint64(w.rng.Intn(10))
		total := int64(w.rng.Intn(6) - 1)
		var provs []sdk.AccAddress
		if w.rng.Intn(3) == 0 {
			provs = w.randProviders()
		}
		what = fmt.Sprintf("update to=%d fr=%d total=%d nprov=%d", to, fr, total, len(provs))
		err = w.deliver(types.NewMsgUpdateRequestContext(id, provs, nil, to, fr, total, rc.Consumer))
	}
	w.logf("%s %s: %v", what, short(id), err)
}

func (w *world) opModOp() {
	if len(w.modIDs) == 0 {
		return
	}
	id := w.modIDs[w.rng.Intn(len(w.modIDs))]
	if _, found := w.k.GetRequestContext(w.ctx, id); !found {
		return
	}
	err := w.moduleCall(func(ctx sdk.Context) error {
		w.callbackAction(ctx, id, "modtx")
		return nil
	})
	_ = err
}

func (w *world) opParams() {
	p := w.k.GetParams(w.ctx)
	switch w.rng.Intn(5) {
	case 0:
		p.MaxRequestTimeout = int64(1 + w.rng.Intn(7))
	case 1:
		p.ServiceFeeTax = []sdk.Dec{sdk.ZeroDec(), sdk.NewDecWithPrec(5, 2), sdk.NewDecWithPrec(99, 2), sdk.NewDecWithPrec(5, 1)}[w.rng.Intn(4)]
	case 2:
		p.SlashFraction = []sdk.Dec{sdk.ZeroDec(), sdk.NewDecWithPrec(1, 3), sdk.OneDec(), sdk.NewDecWithPrec(5, 1)}[w.rng.Intn(4)]
	case 3:
		p.MinDeposit = []sdk.Coins{sdk.NewCoins(), sdk.NewCoins(sdk.NewInt64Coin("stake", 1000)), sdk.NewCoins(sdk.NewInt64Coin("stake", 20000)), sdk.NewCoins(sdk.NewInt64Coin("atom", 5))}[w.rng.Intn(4)]
	case 4:
		p.MinDepositMultiple = int64(1 + w.rng.Intn(5000))
	}
	w.k.SetParams(w.ctx, p)
	w.logf("params %v", p.String())
}

func (w *world) opBinding() {
	p := w.providers[w.rng.Intn(len(w.providers))]
	svc := []string{"svc", "svc-a"}[w.rng.Intn(2)]
	var err error
	var what string
	switch w.rng.Intn(5) {
	case 0:
		what = "disable"
		err = w.deliver(types.NewMsgDisableServiceBinding(svc, p, w.owner))
	case 1:
		what = "enable"
		err = w.deliver(types.NewMsgEnableServiceBinding(svc, p, sdk.NewCoins(sdk.NewInt64Coin("stake", 10000)), w.owner))
	case 2:
		what = "refund"
		err = w.deliver(types.NewMsgRefundServiceDeposit(svc, p, w.owner))
	case 3:
		what = "withdraw"
		err = w.deliver(types.NewMsgWithdrawEarnedFees(w.owner, nil))
	case 4:
		what = "withdraw-p"
		err = w.deliver(types.NewMsgWithdrawEarnedFees(w.owner, p))
	}
	w.logf("%s %s: %v", what, svc, err)
}

func (w *world) opRespond() {
	if len(w.order) == 0 {
		return
	}
	// prefer recent requests
	var key string
	if w.rng.Intn(4) != 0 {
		n := len(w.order)
		lo := n - 12
		if lo < 0 {
			lo = 0
		}
		key = w.order[lo+w.rng.Intn(n-lo)]
	} else {
		key = w.order[w.rng.Intn(len(w.order))]
	}
	if w.rng.Intn(2) == 0 {
		var act []string
		n := len(w.order)
		lo := n - 60
		if lo < 0 {
			lo = 0
		}
		for _, k2 := range w.order[lo:] {
			if w.k.IsRequestActive(w.ctx, w.model[k2].id) && len(w.model[k2].provider) == 20 {
				act = append(act, k2)
			}
		}
		if len(act) > 0 {
			key = act[w.rng.Intn(len(act))]
		}
	}
	m := w.model[key]
	responder := m.provider
	who := "provider"
	switch w.rng.Intn(6) {
	case 0:
		responder = w.stranger
		who = "stranger"
	case 1:
		responder = w.providers[w.rng.Intn(len(w.providers))]
		who = "someprovider"
	}
	id := append(tmbytes.HexBytes{}, m.id...)
	unknown := false
	if w.rng.Intn(10) == 0 {
		id[len(id)-1-w.rng.Intn(18)] ^= byte(1 + w.rng.Intn(255))
		if _, ok := w.model[id.String()]; !ok {
			unknown = true
		} else {
			id = m.id
		}
	}
	result, output := `{"code":200,"message":""}`, `{"header":{},"body":{}}`
	switch w.rng.Intn(5) {
	case 0:
		output = `{}` // valid JSON, invalid against the output schema
	case 1:
		result, output = `{"code":400,"message":"x"}`, ""
	}
	if len(responder) != 20 {
		return // cannot sign
	}
	msg := types.NewMsgRespondService(id, responder, result, output)

	activeBefore := w.k.IsRequestActive(w.ctx, m.id)
	err := w.deliver(msg)
	expectOK := !unknown && responder.Equals(m.provider) && !m.responded && w.height >= m.h+1 && w.height <= m.h+m.t
	w.logf("respond %s by %s unknown=%v out=%q (issued h=%d t=%d responded=%v active=%v): %v", short(id), who, unknown, output, m.h, m.t, m.responded, activeBefore, err)
	if expectOK && err != nil {
		w.fail("C08 violated: response by the designated provider in block %d to request issued at %d with timeout %d rejected: %v", w.height, m.h, m.t, err)
	}
	if !expectOK && err == nil {
		w.fail("C08 violated: response accepted (unknown=%v who=%s responded=%v h=%d t=%d now=%d)", unknown, who, m.responded, m.h, m.t, w.height)
	}
	if err == nil {
		m.responded = true
		if w.k.IsRequestActive(w.ctx, m.id) {
			w.fail("still active after response")
		}
	}
}

func (w *world) endBlock() {
	pre := map[string]int64{}
	w.k.IterateRequestContexts(w.ctx, func(id tmbytes.HexBytes, rc types.RequestContext) bool {
		pre[id.String()] = rc.Timeout
		return false
	})
	func() {
		defer func() {
			if r := recover(); r != nil {
				w.fail("EndBlocker panic: %v", r)
			}
		}()
		if commitMode {
			w.app.EndBlock(abci.RequestEndBlock{Height: w.height})
		} else {
			service.EndBlocker(w.ctx, w.k)
		}
	}()
	// discover new requests
	w.k.IterateRequests(w.ctx, func(id tmbytes.HexBytes, r types.CompactRequest) bool {
		key := tmbytes.HexBytes(id).String()
		if _, ok := w.model[key]; ok {
			return false
		}
		t, ok := pre[r.RequestContextId.String()]
		if !ok {
			rc, found := w.k.GetRequestContext(w.ctx, r.RequestContextId)
			if !found || rc.ServiceName != "svc-m" {
				w.fail("request of unknown context")
			}
			t = rc.Timeout
		}
		if r.RequestHeight != w.height {
			w.fail("request height %d != %d", r.RequestHeight, w.height)
		}
		if rc, found := w.k.GetRequestContext(w.ctx, r.RequestContextId); found && rc.ServiceName == "svc-m" {
			t = 1 // module-service requests are issued inside the tx under timeout 1
		}
		if r.ExpirationHeight != w.height+t {
			// the owning module may have updated the timeout from a callback inside this EndBlocker
			rc, _ := w.k.GetRequestContext(w.ctx, r.RequestContextId)
			if rc.ModuleName == "" || r.ExpirationHeight != w.height+rc.Timeout {
				w.fail("expiration %d != %d+%d", r.ExpirationHeight, w.height, t)
			}
			t = rc.Timeout
		}
		idc := append(tmbytes.HexBytes{}, id...)
		w.model[key] = &mreq{id: idc, provider: r.Provider, h: w.height, t: t, ctxID: r.RequestContextId}
		if _, answered := w.k.GetResponse(w.ctx, idc); answered {
			rc, _ := w.k.GetRequestContext(w.ctx, r.RequestContextId)
			if rc.ServiceName != "svc-m" {
				w.fail("fresh request already answered")
			}
			w.model[key].responded = true
		}
		w.order = append(w.order, key)
		w.logf("  issued %s to %s t=%d", short(idc), short(r.Provider), t)
		return false
	})
	for _, key := range w.order {
		m := w.model[key]
		active := w.k.IsRequestActive(w.ctx, m.id)
		if m.h+m.t <= w.height && active {
			w.fail("C08 violated: request %s issued at %d timeout %d still pending after block %d ended", short(m.id), m.h, m.t, w.height)
		}
		if m.h+m.t > w.height && !m.responded && !active {
			w.fail("C08 violated: request %s issued at %d timeout %d not pending after block %d (expiry block %d)", short(m.id), m.h, m.t, w.height, m.h+m.t)
		}
		if m.responded && active {
			w.fail("responded but active")
		}
	}
	// by-binding index agrees
	it := w.k.AllActiveRequestsIterator(w.ctx.KVStore(w.app.GetKey(types.StoreKey)))
	n := 0
	for ; it.Valid(); it.Next() {
		n++
	}
	it.Close()
	cnt := 0
	for _, key := range w.order {
		if w.k.IsRequestActive(w.ctx, w.model[key].id) {
			cnt++
		}
	}
	if n != cnt {
		w.fail("by-binding active index has %d entries, by-id %d", n, cnt)
	}
}

var commitMode = os.Getenv("RIG_COMMIT") != ""

func (w *world) nextBlock() {
	w.height++
	if commitMode {
		tm := w.ctx.BlockTime().Add(5 * time.Second)
		w.app.Commit()
		hdr := tmproto.Header{Height: w.height, Time: tm}
		w.app.BeginBlock(abci.RequestBeginBlock{Header: hdr})
		w.ctx = w.app.BaseApp.NewContext(false, hdr)
		return
	}
	w.ctx = w.ctx.WithBlockHeight(w.height).WithBlockTime(w.ctx.BlockTime().Add(5 * time.Second))
}

func runSeed(t *testing.T, seed int64, blocks int) {
	w := newWorld(t, seed)
	w.setup()
	for b := 0; b < blocks; b++ {
		nops := w.rng.Intn(8)
		for i := 0; i < nops; i++ {
			switch r := w.rng.Intn(100); {
			case r < 12:
				w.opCall()
			case r < 20:
				w.opModCreate()
			case r < 32:
				w.opCtxOp()
			case r < 40:
				w.opModOp()
			case r < 44:
				w.opParams()
			case r < 52:
				w.opBinding()
			default:
				w.opRespond()
			}
		}
		w.endBlock()
		w.nextBlock()
	}
	nresp := 0
	for _, m := range w.model {
		if m.responded {
			nresp++
		}
	}
	t.Logf("seed %d: %d requests, %d responded", seed, len(w.order), nresp)
}

func TestRigC08(t *testing.T) {
	n := 200
	if s := os.Getenv("RIG_SEEDS"); s != "" {
		n, _ = strconv.Atoi(s)
	}
	start := 0
	if s := os.Getenv("RIG_START"); s != "" {
		start, _ = strconv.Atoi(s)
	}
	for seed := start; seed < start+n; seed++ {
		runSeed(t, int64(seed), rigBlocks())
	}
}

func rigBlocks() int {
	if s := os.Getenv("RIG_BLOCKS"); s != "" {
		n, _ := strconv.Atoi(s)
		return n
	}
	return 80
}
