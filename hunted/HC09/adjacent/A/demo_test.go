package service_test

// Adjacent observation A (NOT a violation of C09 as worded): a repeated context whose
// RepeatedTotal is lowered to its current batch counter while no batch is in flight
// is issued one batch more than its total.

import (
	"testing"
	"time"

	"github.com/tendermint/tendermint/crypto/tmhash"
	tmproto "github.com/tendermint/tendermint/proto/tendermint/types"

	sdk "github.com/cosmos/cosmos-sdk/types"

	service "github.com/irismod/service"
	simapp "github.com/irismod/service/app"
	"github.com/irismod/service/types"
)

func TestAdjacentA(t *testing.T) {
	app := simapp.Setup(false)
	ctx := app.BaseApp.NewContext(false, tmproto.Header{Height: 1, Time: time.Unix(1600000000, 0).UTC()})
	k := app.ServiceKeeper
	k.SetParams(ctx, types.DefaultParams())
	h := service.NewHandler(k)
	addrs := simapp.AddTestAddrs(app, ctx, 4, sdk.NewInt(100000000))
	author, owner, provider, consumer := addrs[0], addrs[1], addrs[2], addrs[3]
	stake := func(n int64) sdk.Coins { return sdk.NewCoins(sdk.NewCoin("stake", sdk.NewInt(n))) }

	txn := 0
	var lastTxHash []byte
	deliver := func(msg sdk.Msg) {
		if err := msg.ValidateBasic(); err != nil {
			t.Fatal(err)
		}
		txn++
		lastTxHash = tmhash.Sum([]byte{byte(txn)})
		c, write := ctx.WithValue(types.TxHash, lastTxHash).WithValue(types.MsgIndex, int64(0)).CacheContext()
		if _, err := h(c, msg); err != nil {
			t.Fatal(err)
		}
		write()
	}
	endBlock := func() {
		service.EndBlocker(ctx, k)
		ctx = ctx.WithBlockHeight(ctx.BlockHeight() + 1).WithBlockTime(ctx.BlockTime().Add(5 * time.Second))
	}

	deliver(types.NewMsgDefineService("svc", "d", nil, author, "a", `{"input":{"type":"object"},"output":{"type":"object"}}`))
	deliver(types.NewMsgBindService("svc", provider, stake(10000), `{"price":"2stake"}`, 1, "{}", owner))

	// repeated context: timeout 1, frequency 5, five batches
	deliver(types.NewMsgCallService("svc", []sdk.AccAddress{provider}, consumer, `{"header":{},"body":{}}`, stake(5), 1, false, true, 5, 5))
	id := types.GenerateRequestContextID(lastTxHash, 0)

	endBlock() // height 1: batch 1 is issued
	endBlock() // height 2: batch 1 expires, batch 2 is scheduled for height 6

	rc, _ := k.GetRequestContext(ctx, id)
	if rc.BatchCounter != 1 || rc.State != types.RUNNING {
		t.Fatalf("unexpected set-up: %+v", rc)
	}

	// the consumer is content with the one batch and lowers the total to 1 (= batch counter): accepted
	deliver(types.NewMsgUpdateRequestContext(id, nil, nil, 0, 0, 1, consumer))

	for i := 0; i < 6; i++ {
		endBlock()
		if rc, found := k.GetRequestContext(ctx, id); found && rc.RepeatedTotal > 0 && int64(rc.BatchCounter) > rc.RepeatedTotal {
			t.Fatalf("after block %d: batch %d was issued (and paid for) although the context's repeated total is %d",
				ctx.BlockHeight()-1, rc.BatchCounter, rc.RepeatedTotal)
		}
	}
}
