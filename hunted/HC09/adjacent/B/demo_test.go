package service_test

// Adjacent observation B (NOT a violation of C09 as worded): a context that its owning module
// starts (or creates) from the state callback of ANOTHER of its contexts is put into the new-batch
// queue of the height that is being walked, is not seen by the walk, and is never scheduled again:
// it stays "running" for ever without a single batch.

import (
	"testing"
	"time"

	"github.com/tendermint/tendermint/crypto/tmhash"
	tmbytes "github.com/tendermint/tendermint/libs/bytes"
	tmproto "github.com/tendermint/tendermint/proto/tendermint/types"

	sdk "github.com/cosmos/cosmos-sdk/types"

	service "github.com/irismod/service"
	simapp "github.com/irismod/service/app"
	"github.com/irismod/service/types"
)

func TestAdjacentB(t *testing.T) {
	app := simapp.Setup(false)
	ctx := app.BaseApp.NewContext(false, tmproto.Header{Height: 1, Time: time.Unix(1600000000, 0).UTC()})
	k := app.ServiceKeeper
	k.SetParams(ctx, types.DefaultParams())
	h := service.NewHandler(k)
	addrs := simapp.AddTestAddrs(app, ctx, 5, sdk.NewInt(100000000))
	author, owner, provider, modAcc, sink := addrs[0], addrs[1], addrs[2], addrs[3], addrs[4]
	stake := func(n int64) sdk.Coins { return sdk.NewCoins(sdk.NewCoin("stake", sdk.NewInt(n))) }
	txn := 0
	tx := func(c sdk.Context) sdk.Context {
		txn++
		return c.WithValue(types.TxHash, tmhash.Sum([]byte{byte(txn)})).WithValue(types.MsgIndex, int64(0))
	}
	deliver := func(msg sdk.Msg) {
		if err := msg.ValidateBasic(); err != nil {
			t.Fatal(err)
		}
		c, write := tx(ctx).CacheContext()
		if _, err := h(c, msg); err != nil {
			t.Fatal(err)
		}
		write()
	}
	deliver(types.NewMsgDefineService("svc", "d", nil, author, "a", `{"input":{"type":"object"},"output":{"type":"object"}}`))
	deliver(types.NewMsgBindService("svc", provider, stake(10000), `{"price":"2stake"}`, 1, "{}", owner))

	var idA, idB tmbytes.HexBytes
	if err := k.RegisterResponseCallback("mod", func(ctx sdk.Context, id tmbytes.HexBytes, responses []string, err error) {}); err != nil {
		t.Fatal(err)
	}
	if err := k.RegisterStateCallback("mod", func(ctx sdk.Context, id tmbytes.HexBytes, cause string) {
		// A cannot be paid for: fall back to the free (super mode) context B
		if id.String() == idA.String() {
			if err := k.StartRequestContext(ctx, idB, modAcc); err != nil {
				t.Fatal(err)
			}
		}
	}); err != nil {
		t.Fatal(err)
	}
	// the module account has no money
	if err := app.BankKeeper.SendCoins(ctx, modAcc, sink, app.BankKeeper.GetAllBalances(ctx, modAcc)); err != nil {
		t.Fatal(err)
	}
	var err error
	input := `{"header":{},"body":{}}`
	idB, err = k.CreateRequestContext(tx(ctx), "svc", []sdk.AccAddress{provider}, modAcc, input, stake(5), 1, true, true, 1, -1, types.PAUSED, 1, "mod")
	if err != nil {
		t.Fatal(err)
	}
	idA, err = k.CreateRequestContext(tx(ctx), "svc", []sdk.AccAddress{provider}, modAcc, input, stake(5), 1, false, true, 1, -1, types.RUNNING, 1, "mod")
	if err != nil {
		t.Fatal(err)
	}
	for i := 0; i < 10; i++ {
		service.EndBlocker(ctx, k)
		a, _ := k.GetRequestContext(ctx, idA)
		b, _ := k.GetRequestContext(ctx, idB)
		t.Logf("h=%d A: %s counter=%d | B: %s counter=%d hasNew=%v hasExp=%v", ctx.BlockHeight(), a.State, a.BatchCounter, b.State, b.BatchCounter,
			k.HasNewRequestBatch(ctx, idB), k.HasRequestBatchExpiration(ctx, idB))
		ctx = ctx.WithBlockHeight(ctx.BlockHeight() + 1)
	}
	b, _ := k.GetRequestContext(ctx, idB)
	if b.State == types.RUNNING && b.BatchCounter == 0 {
		t.Fatalf("B has been running for 10 blocks (super mode, frequency 1) and was never issued a batch")
	}
}
