module deliver
