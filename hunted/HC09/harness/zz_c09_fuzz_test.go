package service_test

import (
	"fmt"
	"math/rand"
	"os"
	"strconv"
	"testing"
	"time"

	"github.com/tendermint/tendermint/crypto/tmhash"
	tmbytes "github.com/tendermint/tendermint/libs/bytes"
	tmproto "github.com/tendermint/tendermint/proto/tendermint/types"

	sdk "github.com/cosmos/cosmos-sdk/types"

	service "github.com/irismod/service"
	simapp "github.com/irismod/service/app"
	"github.com/irismod/service/keeper"
	"github.com/irismod/service/types"
)

const fzSvc = "svc"
const fzMod = "mod"

var fzStats = map[string]int{}

type cbOp struct {
	id string
	op string
	ok bool
}

type world struct {
	t   *testing.T
	app *simapp.SimApp
	k   keeper.Keeper
	ctx sdk.Context
	h   sdk.Handler
	rng *rand.Rand

	ids     []tmbytes.HexBytes
	modIDs  []tmbytes.HexBytes
	gone    map[string]bool
	created map[string]bool // ids created during the current step
	txn     int

	author, owner, rich, poor, sink, modAcc sdk.AccAddress
	provs                                   []sdk.AccAddress

	stats   map[string]int
	cbLog   []cbOp
	cbDepth int
	log     []string
	fails   []string
}

func (w *world) logf(f string, a ...interface{}) {
	w.log = append(w.log, fmt.Sprintf("h=%d ", w.ctx.BlockHeight())+fmt.Sprintf(f, a...))
}

func (w *world) failf(f string, a ...interface{}) {
	s := fmt.Sprintf("h=%d ", w.ctx.BlockHeight()) + fmt.Sprintf(f, a...)
	w.fails = append(w.fails, s)
	w.log = append(w.log, "VIOLATION "+s)
}

func coins(n int64) sdk.Coins { return sdk.NewCoins(sdk.NewCoin("stake", sdk.NewInt(n))) }

func (w *world) txctx(ctx sdk.Context) sdk.Context {
	w.txn++
	return ctx.WithValue(types.TxHash, tmhash.Sum([]byte(fmt.Sprintf("tx%d", w.txn)))).WithValue(types.MsgIndex, int64(0))
}

// deliver runs a message like baseapp
func (w *world) deliver(msg sdk.Msg) (err error) {
	if e := msg.ValidateBasic(); e != nil {
		return e
	}
	cctx, write := w.txctx(w.ctx).CacheContext()
	func() {
		defer func() {
			if r := recover(); r != nil {
				err = fmt.Errorf("panic: %v", r)
			}
		}()
		_, err = w.h(cctx, msg)
	}()
	if err == nil {
		write()
	}
	return err
}

// modcall runs a module keeper call on a cache context
func (w *world) modcall(f func(ctx sdk.Context) error) (err error) {
	cctx, write := w.txctx(w.ctx).CacheContext()
	func() {
		defer func() {
			if r := recover(); r != nil {
				err = fmt.Errorf("panic: %v", r)
			}
		}()
		err = f(cctx)
	}()
	if err == nil {
		write()
	}
	return err
}

func (w *world) snapshot() map[string]types.RequestContext {
	m := map[string]types.RequestContext{}
	w.k.IterateRequestContexts(w.ctx, func(id tmbytes.HexBytes, rc types.RequestContext) bool {
		m[id.String()] = rc
		return false
	})
	return m
}

func newWorld(t *testing.T, seed int64) *world {
	app := simapp.Setup(false)
	ctx := app.BaseApp.NewContext(false, tmproto.Header{Height: 1, Time: time.Unix(1600000000, 0).UTC()})
	k := app.ServiceKeeper
	k.SetParams(ctx, types.DefaultParams())
	w := &world{t: t, app: app, k: k, ctx: ctx, h: service.NewHandler(k), rng: rand.New(rand.NewSource(seed)),
		gone: map[string]bool{}, created: map[string]bool{}, stats: fzStats}
	addrs := simapp.AddTestAddrs(app, ctx, 9, sdk.NewInt(100000000))
	w.author, w.owner, w.rich, w.poor, w.sink, w.modAcc = addrs[0], addrs[1], addrs[2], addrs[3], addrs[4], addrs[5]
	w.provs = addrs[6:9]
	// poor keeps only 3 stake
	bal := app.BankKeeper.GetAllBalances(ctx, w.poor)
	if err := app.BankKeeper.SendCoins(ctx, w.poor, w.sink, bal.Sub(coins(3))); err != nil {
		t.Fatal(err)
	}
	if err := w.deliver(types.NewMsgDefineService(fzSvc, "d", nil, w.author, "a", `{"input":{"type":"object"},"output":{"type":"object"}}`)); err != nil {
		t.Fatal(err)
	}
	for i := 0; i < 2; i++ {
		if err := w.deliver(types.NewMsgBindService(fzSvc, w.provs[i], coins(10000), `{"price":"2stake"}`, 1, "{}", w.owner)); err != nil {
			t.Fatal(err)
		}
	}
	if err := k.RegisterResponseCallback(fzMod, func(ctx sdk.Context, id tmbytes.HexBytes, responses []string, err error) {
		w.inCallback(ctx, id, "resp")
	}); err != nil {
		t.Fatal(err)
	}
	if err := k.RegisterStateCallback(fzMod, func(ctx sdk.Context, id tmbytes.HexBytes, cause string) {
		w.inCallback(ctx, id, "state")
	}); err != nil {
		t.Fatal(err)
	}
	return w
}

func (w *world) inCallback(ctx sdk.Context, id tmbytes.HexBytes, kind string) {
	w.cbLog = append(w.cbLog, cbOp{id.String(), "cb-" + kind, true})
	if w.cbDepth > 2 {
		return
	}
	w.cbDepth++
	defer func() { w.cbDepth-- }()
	n := w.rng.Intn(4)
	for i := 0; i < n; i++ {
		var target tmbytes.HexBytes
		if w.rng.Intn(3) != 0 || len(w.modIDs) == 0 {
			target = id
		} else {
			target = w.modIDs[w.rng.Intn(len(w.modIDs))]
		}
		w.modOp(ctx, target, true)
	}
}

// modOp performs one random module operation directly on ctx
func (w *world) modOp(ctx sdk.Context, target tmbytes.HexBytes, inCb bool) {
	var err error
	var name string
	switch []int{0, 0, 1, 1, 1, 3, 4, 4, 5, 5}[w.rng.Intn(10)] {
	case 0:
		name = "pause"
		err = w.k.PauseRequestContext(ctx, target, w.modAcc)
	case 1, 2:
		name = "start"
		err = w.k.StartRequestContext(ctx, target, w.modAcc)
	case 3:
		name = "kill"
		err = w.k.KillRequestContext(ctx, target, w.modAcc)
	case 4:
		name = "update"
		p, cap, to, fr, tot := w.randUpdate()
		err = w.k.UpdateRequestContext(ctx, target, p, uint32(w.rng.Intn(3)), cap, to, fr, tot, w.modAcc)
	case 5:
		name = "create"
		if inCb && w.rng.Intn(3) != 0 {
			return
		}
		c := w.txctx(ctx)
		var id tmbytes.HexBytes
		provs, to, rep, fr, tot, sm := w.randCall()
		st := types.RUNNING
		if w.rng.Intn(4) == 0 {
			st = types.PAUSED
		}
		func() {
			defer func() {
				if r := recover(); r != nil {
					err = fmt.Errorf("panic %v", r)
				}
			}()
			id, err = w.k.CreateRequestContext(c, fzSvc, provs, w.modAcc, `{"header":{},"body":{}}`, coins(int64(1+w.rng.Intn(4))), to, sm, rep, fr, tot, st, uint32(1+w.rng.Intn(len(provs))), fzMod)
		}()
		if err == nil {
			w.ids = append(w.ids, id)
			w.modIDs = append(w.modIDs, id)
			w.created[id.String()] = true
			target = id
		}
	}
	w.stats[fmt.Sprintf("mod(%v) %s ok=%v", inCb, name, err == nil)]++
	w.cbLog = append(w.cbLog, cbOp{target.String(), name, err == nil})
	w.logf("   mod(%v) %s %s err=%v", inCb, name, short(target), err)
}

func short(id tmbytes.HexBytes) string {
	s := id.String()
	if len(s) > 8 {
		return s[:8]
	}
	return s
}

func (w *world) randCall() (provs []sdk.AccAddress, timeout int64, repeated bool, freq uint64, total int64, superMode bool) {
	perm := w.rng.Perm(3)
	n := 1 + w.rng.Intn(3)
	for _, i := range perm[:n] {
		provs = append(provs, w.provs[i])
	}
	timeout = int64(1 + w.rng.Intn(3))
	repeated = w.rng.Intn(4) != 0
	if repeated {
		if w.rng.Intn(2) == 0 {
			freq = uint64(timeout) + uint64(w.rng.Intn(6))
		}
		total = int64(1 + w.rng.Intn(4))
		if w.rng.Intn(5) == 0 {
			total = -1
		}
	}
	superMode = w.rng.Intn(6) == 0
	return
}

func (w *world) randUpdate() (provs []sdk.AccAddress, cap sdk.Coins, timeout int64, freq uint64, total int64) {
	if w.rng.Intn(3) == 0 {
		provs = []sdk.AccAddress{w.provs[w.rng.Intn(3)]}
	}
	if w.rng.Intn(3) == 0 {
		cap = coins(int64(1 + w.rng.Intn(5)))
	}
	if w.rng.Intn(2) == 0 {
		timeout = int64(w.rng.Intn(4))
	}
	if w.rng.Intn(2) == 0 {
		freq = uint64(w.rng.Intn(9))
	}
	if w.rng.Intn(2) == 0 {
		total = int64(w.rng.Intn(6)) - 1
	}
	return
}

func (w *world) randID() tmbytes.HexBytes {
	if len(w.ids) == 0 {
		return tmhash.Sum([]byte("none"))
	}
	if w.rng.Intn(5) != 0 {
		var live []tmbytes.HexBytes
		w.k.IterateRequestContexts(w.ctx, func(id tmbytes.HexBytes, rc types.RequestContext) bool {
			live = append(live, append([]byte{}, id...))
			return false
		})
		if len(live) > 0 {
			return live[w.rng.Intn(len(live))]
		}
	}
	// favour recent ones
	n := len(w.ids)
	if n > 6 && w.rng.Intn(3) != 0 {
		return w.ids[n-1-w.rng.Intn(6)]
	}
	return w.ids[w.rng.Intn(n)]
}

func (w *world) activeRequests() []tmbytes.HexBytes {
	var out []tmbytes.HexBytes
	store := w.ctx.KVStore(w.app.GetKey(types.StoreKey))
	it := sdk.KVStorePrefixIterator(store, types.ActiveRequestByIDKey)
	defer it.Close()
	for ; it.Valid(); it.Next() {
		out = append(out, append([]byte{}, it.Key()[1:]...))
	}
	return out
}

type stepInfo struct {
	kind   string // "msg", "end", "mod", "other"
	op     string
	target string
	ok     bool
}

func sameConfig(a, b types.RequestContext) bool {
	return a.ServiceName == b.ServiceName && a.Consumer.Equals(b.Consumer) && a.Input == b.Input &&
		a.SuperMode == b.SuperMode && a.Repeated == b.Repeated && a.ModuleName == b.ModuleName
}

func (w *world) touchedByCb(id string) bool {
	for _, o := range w.cbLog {
		if o.id == id {
			return true
		}
	}
	return false
}

func (w *world) check(prev map[string]types.RequestContext, st stepInfo, balBefore map[string]sdk.Coins) {
	cur := w.snapshot()
	for id, p := range prev {
		c, ok := cur[id]
		cb := w.touchedByCb(id)
		if !ok {
			w.stats[fmt.Sprintf("ended from %s cb=%v", p.State, cb)]++
			w.gone[id] = true
			if st.kind != "end" {
				w.failf("context %s deleted outside EndBlocker by %v", id[:8], st)
			}
			finished := (!p.Repeated && p.BatchCounter >= 1) || (p.Repeated && p.RepeatedTotal > 0 && int64(p.BatchCounter) >= p.RepeatedTotal)
			if p.State != types.COMPLETED && !finished && !cb {
				w.failf("context %s ended though neither killed nor finished: %+v", id[:8], p)
			}
			continue
		}
		if !sameConfig(p, c) {
			w.failf("context %s immutable field changed: %+v -> %+v", id[:8], p, c)
		}
		if c.BatchCounter < p.BatchCounter || c.BatchCounter > p.BatchCounter+1 {
			w.failf("context %s counter %d -> %d on %v", id[:8], p.BatchCounter, c.BatchCounter, st)
		}
		if c.BatchCounter != p.BatchCounter {
			w.stats["batch"]++
			if st.kind != "end" {
				w.failf("context %s counter changed outside EndBlocker %v", id[:8], st)
			}
			if p.State != types.RUNNING && !cb {
				w.failf("context %s issued batch while %s", id[:8], p.State)
			}
			if p.State == types.COMPLETED {
				w.failf("context %s completed but issued batch", id[:8])
			}
			if c.State != types.RUNNING && !cb {
				w.failf("context %s issued batch and is now %s", id[:8], c.State)
			}
		}
		if p.State == types.COMPLETED {
			if c.State != types.COMPLETED {
				w.failf("context %s left COMPLETED -> %s on %v", id[:8], c.State, st)
			}
			if c.Timeout != p.Timeout || c.RepeatedFrequency != p.RepeatedFrequency || c.RepeatedTotal != p.RepeatedTotal ||
				!c.ServiceFeeCap.IsEqual(p.ServiceFeeCap) || len(c.Providers) != len(p.Providers) || c.ResponseThreshold != p.ResponseThreshold {
				w.failf("context %s updated while COMPLETED on %v", id[:8], st)
			}
		}
		if p.State != c.State {
			w.stats[fmt.Sprintf("trans %s %s->%s cb=%v", st.kind+st.op, p.State, c.State, cb)]++
			switch {
			case st.kind == "msg" && st.target == id && st.ok && st.op == "pause":
				if !(p.State == types.RUNNING && c.State == types.PAUSED && p.Repeated) {
					w.failf("pause: %s %s->%s repeated=%v", id[:8], p.State, c.State, p.Repeated)
				}
			case st.kind == "msg" && st.target == id && st.ok && st.op == "start":
				if !(p.State == types.PAUSED && c.State == types.RUNNING) {
					w.failf("start: %s %s->%s", id[:8], p.State, c.State)
				}
			case st.kind == "msg" && st.target == id && st.ok && st.op == "kill":
				if !(c.State == types.COMPLETED && p.Repeated) {
					w.failf("kill: %s %s->%s repeated=%v", id[:8], p.State, c.State, p.Repeated)
				}
			case cb || st.kind == "mod":
				// module did something: check from the log
				if p.State == types.COMPLETED {
					w.failf("module moved completed context %s", id[:8])
				}
				if !p.Repeated && c.State == types.COMPLETED {
					w.failf("one-shot context %s moved to completed (module) on %v", id[:8], st)
				}
			case st.kind == "end" && p.State == types.RUNNING && c.State == types.PAUSED:
				if p.SuperMode {
					w.failf("super mode context %s paused by end blocker", id[:8])
				}
				// could the consumer pay? balance after the block >= price => it could
				_, total, _, err := w.k.FilterServiceProviders(w.ctx, c.ServiceName, c.Providers, c.Timeout, c.ServiceFeeCap, c.Consumer)
				if err == nil {
					bal := w.app.BankKeeper.GetAllBalances(w.ctx, c.Consumer)
					if bal.IsAllGTE(total) && !total.IsZero() {
						w.failf("context %s paused although consumer has %s >= %s", id[:8], bal, total)
					}
				}
			default:
				w.failf("unexpected transition of %s: %s->%s on %v", id[:8], p.State, c.State, st)
			}
		} else if st.kind == "msg" && st.target == id && st.ok && (st.op == "pause" || st.op == "start") {
			w.failf("%s succeeded without changing state of %s (%s)", st.op, id[:8], p.State)
		}
		if st.kind == "msg" && st.ok && st.op == "update" && st.target == id && p.State == types.COMPLETED {
			w.failf("update accepted on completed context %s", id[:8])
		}
		if st.kind == "msg" && st.ok && st.op == "kill" && st.target == id && !p.Repeated {
			w.failf("kill accepted on one-shot context %s", id[:8])
		}
	}
	for id, c := range cur {
		if _, ok := prev[id]; ok {
			continue
		}
		if w.gone[id] {
			w.failf("context %s came back after having ended: %+v", id[:8], c)
		}
		if !w.created[id] {
			w.failf("context %s appeared from nowhere: %+v", id[:8], c)
		}
		if len(c.Consumer) == 0 {
			w.failf("context %s has no consumer: %+v", id[:8], c)
		}
	}
	// queue consistency info
	if st.kind == "end" {
		store := w.ctx.KVStore(w.app.GetKey(types.StoreKey))
		for _, pfx := range [][]byte{types.NewRequestBatchKey, types.ExpiredRequestBatchKey} {
			it := sdk.KVStorePrefixIterator(store, pfx)
			for ; it.Valid(); it.Next() {
				key := it.Key()
				h := int64(sdk.BigEndianToUint64(key[1:9]))
				id := tmbytes.HexBytes(key[9:])
				if h <= w.ctx.BlockHeight() {
					w.stats[fmt.Sprintf("stale queue entry %x", pfx)]++
					w.logf("INFO stale queue entry %x h=%d id=%s", pfx, h, short(id))
				}
				if _, ok := cur[id.String()]; !ok {
					w.stats[fmt.Sprintf("queue entry without context %x", pfx)]++
					w.logf("INFO queue entry %x for missing context h=%d id=%s", pfx, h, short(id))
				}
			}
			it.Close()
		}
	}
	// liveness info
	for id, c := range cur {
		bz, _ := tmbytesFromHex(id)
		if c.State == types.RUNNING && !w.k.HasNewRequestBatch(w.ctx, bz) && !w.k.HasRequestBatchExpiration(w.ctx, bz) {
			w.stats["stuck"]++
			w.logf("INFO stuck running context %s", id[:8])
		}
	}
}

func tmbytesFromHex(s string) (tmbytes.HexBytes, error) {
	var b tmbytes.HexBytes
	err := b.UnmarshalJSON([]byte(strconv.Quote(s)))
	return b, err
}

func (w *world) step() {
	prev := w.snapshot()
	w.cbLog = nil
	w.created = map[string]bool{}
	st := stepInfo{kind: "other"}
	r := w.rng.Intn(100)
	switch {
	case r < 8: // call
		provs, to, rep, fr, tot, sm := w.randCall()
		cons := w.rich
		if w.rng.Intn(3) == 0 {
			cons = w.poor
		}
		msg := types.NewMsgCallService(fzSvc, provs, cons, `{"header":{},"body":{}}`, coins(int64(1+w.rng.Intn(4))), to, sm, rep, fr, tot)
		// compute id that will be used
		id := types.GenerateRequestContextID(tmhash.Sum([]byte(fmt.Sprintf("tx%d", w.txn+1))), 0)
		err := w.deliver(msg)
		st = stepInfo{"msg", "call", id.String(), err == nil}
		if err == nil {
			w.ids = append(w.ids, id)
			w.created[id.String()] = true
		}
		w.logf("call %s rep=%v to=%d fr=%d tot=%d sm=%v poor=%v err=%v", short(id), rep, to, fr, tot, sm, cons.Equals(w.poor), err)
	case r < 30: // pause/start/kill/update by user
		id := w.randID()
		rc, _ := w.k.GetRequestContext(w.ctx, id)
		cons := rc.Consumer
		if len(cons) == 0 || w.rng.Intn(10) == 0 {
			cons = w.rich
		}
		var msg sdk.Msg
		var op string
		switch []int{0, 0, 0, 1, 1, 1, 1, 2, 3, 3, 3}[w.rng.Intn(11)] {
		case 0:
			op, msg = "pause", types.NewMsgPauseRequestContext(id, cons)
		case 1:
			op, msg = "start", types.NewMsgStartRequestContext(id, cons)
		case 2:
			op, msg = "kill", types.NewMsgKillRequestContext(id, cons)
		case 3:
			p, cap, to, fr, tot := w.randUpdate()
			op, msg = "update", types.NewMsgUpdateRequestContext(id, p, cap, to, fr, tot, cons)
		}
		err := w.deliver(msg)
		st = stepInfo{"msg", op, id.String(), err == nil}
		w.stats[fmt.Sprintf("msg %s ok=%v", op, err == nil)]++
		w.logf("%s %s err=%v", op, short(id), err)
	case r < 50: // respond
		reqs := w.activeRequests()
		if len(reqs) == 0 {
			return
		}
		rid := reqs[w.rng.Intn(len(reqs))]
		req, _ := w.k.GetRequest(w.ctx, rid)
		var msg sdk.Msg
		if w.rng.Intn(4) == 0 {
			msg = types.NewMsgRespondService(rid, req.Provider, `{"code":400,"message":"bad"}`, "")
		} else {
			msg = types.NewMsgRespondService(rid, req.Provider, `{"code":200,"message":""}`, `{"header":{},"body":{}}`)
		}
		err := w.deliver(msg)
		st = stepInfo{"msg", "respond", req.RequestContextId.String(), err == nil}
		w.logf("respond %s err=%v", short(req.RequestContextId), err)
	case r < 58: // money
		var err error
		switch w.rng.Intn(3) {
		case 0:
			err = w.app.BankKeeper.SendCoins(w.ctx, w.rich, w.poor, coins(int64(1+w.rng.Intn(6))))
		case 1:
			bal := w.app.BankKeeper.GetAllBalances(w.ctx, w.poor)
			if !bal.IsZero() {
				err = w.app.BankKeeper.SendCoins(w.ctx, w.poor, w.sink, bal)
			}
		case 2:
			bal := w.app.BankKeeper.GetAllBalances(w.ctx, w.modAcc)
			if w.rng.Intn(2) == 0 && !bal.IsZero() {
				err = w.app.BankKeeper.SendCoins(w.ctx, w.modAcc, w.sink, bal)
			} else {
				err = w.app.BankKeeper.SendCoins(w.ctx, w.rich, w.modAcc, coins(int64(1+w.rng.Intn(6))))
			}
		}
		w.logf("money err=%v", err)
	case r < 63: // binding ops
		p := w.provs[w.rng.Intn(2)]
		var msg sdk.Msg
		switch w.rng.Intn(3) {
		case 0:
			msg = types.NewMsgDisableServiceBinding(fzSvc, p, w.owner)
		case 1:
			msg = types.NewMsgEnableServiceBinding(fzSvc, p, nil, w.owner)
		case 2:
			msg = types.NewMsgUpdateServiceBinding(fzSvc, p, nil, fmt.Sprintf(`{"price":"%dstake"}`, 1+w.rng.Intn(4)), uint64(1+w.rng.Intn(3)), "{}", w.owner)
		}
		err := w.deliver(msg)
		w.logf("binding %T err=%v", msg, err)
	case r < 65: // gov
		p := w.k.GetParams(w.ctx)
		switch w.rng.Intn(3) {
		case 0:
			p.MaxRequestTimeout = int64(1 + w.rng.Intn(5))
		case 1:
			p.SlashFraction = sdk.NewDecWithPrec(int64(w.rng.Intn(1001)), 3)
		case 2:
			p.MinDepositMultiple = int64(1 + w.rng.Intn(6000))
		}
		w.k.SetParams(w.ctx, p)
		w.logf("gov %v", p.MaxRequestTimeout)
	case r < 85: // module op
		var target tmbytes.HexBytes
		if len(w.modIDs) > 0 {
			target = w.modIDs[w.rng.Intn(len(w.modIDs))]
			var live []tmbytes.HexBytes
			w.k.IterateRequestContexts(w.ctx, func(id tmbytes.HexBytes, rc types.RequestContext) bool {
				if rc.ModuleName != "" {
					live = append(live, append([]byte{}, id...))
				}
				return false
			})
			if len(live) > 0 && w.rng.Intn(5) != 0 {
				target = live[w.rng.Intn(len(live))]
			}
		} else {
			target = tmhash.Sum([]byte("none"))
		}
		st = stepInfo{"mod", "", "", true}
		_ = w.modcall(func(ctx sdk.Context) error { w.modOp(ctx, target, false); return nil })
	default: // end block
		st = stepInfo{"end", "", "", true}
		func() {
			defer func() {
				if r := recover(); r != nil {
					w.failf("EndBlocker panic: %v", r)
				}
			}()
			service.EndBlocker(w.txctx(w.ctx), w.k)
		}()
		w.logf("end block")
		w.check(prev, st, nil)
		w.ctx = w.ctx.WithBlockHeight(w.ctx.BlockHeight() + 1).WithBlockTime(w.ctx.BlockTime().Add(5 * time.Second))
		return
	}
	w.check(prev, st, nil)
}

func TestFuzzC09(t *testing.T) {
	seeds := 200
	if s := os.Getenv("FZ_SEEDS"); s != "" {
		seeds, _ = strconv.Atoi(s)
	}
	start := int64(1)
	if s := os.Getenv("FZ_START"); s != "" {
		n, _ := strconv.Atoi(s)
		start = int64(n)
	}
	steps := 400
	if s := os.Getenv("FZ_STEPS"); s != "" {
		steps, _ = strconv.Atoi(s)
	}
	seen := map[string]bool{}
	for seed := start; seed < start+int64(seeds); seed++ {
		w := newWorld(t, seed)
		for i := 0; i < steps && len(w.fails) == 0; i++ {
			w.step()
		}
		if len(w.fails) > 0 {
			key := w.fails[0]
			if len(key) > 60 {
				key = key[10:60]
			}
			if !seen[key] {
				seen[key] = true
				t.Errorf("seed %d: %v", seed, w.fails)
				n := len(w.log)
				from := n - 40
				if from < 0 {
					from = 0
				}
				for _, l := range w.log[from:] {
					t.Log(l)
				}
			}
		}
		if seed == start+int64(seeds)-1 {
			for k, v := range fzStats {
				t.Logf("STAT %-50s %d", k, v)
			}
		}
		if os.Getenv("FZ_INFO") != "" {
			for _, l := range w.log {
				if len(l) > 10 && (contains(l, "INFO")) {
					t.Log(seed, l)
					break
				}
			}
		}
	}
}

func contains(s, sub string) bool {
	for i := 0; i+len(sub) <= len(s); i++ {
		if s[i:i+len(sub)] == sub {
			return true
		}
	}
	return false
}
