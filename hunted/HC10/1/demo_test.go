package service_test

// Finding 1 (property C10): a context that its owning module starts from inside the module's
// state callback of ANOTHER of its contexts never gets a batch.
//
// Place this file in the module root (package service_test), e.g. as zz_finding_1_test.go, and run
//   go test -vet=off -count=1 -run TestFinding1 .

import (
	"fmt"
	"testing"
	"time"

	gogotypes "github.com/gogo/protobuf/types"
	"github.com/tendermint/tendermint/crypto/tmhash"
	tmbytes "github.com/tendermint/tendermint/libs/bytes"
	tmproto "github.com/tendermint/tendermint/proto/tendermint/types"

	sdk "github.com/cosmos/cosmos-sdk/types"

	service "github.com/irismod/service"
	simapp "github.com/irismod/service/app"
	"github.com/irismod/service/types"
)

func TestFinding1(t *testing.T) {
	// the outcome does not depend on which of the two context IDs sorts first in the queue
	t.Run("primary context sorts before the fallback", func(t *testing.T) { finding1(t, "tx-1", "tx-2") })
	t.Run("primary context sorts after the fallback", func(t *testing.T) { finding1(t, "tx-2", "tx-1") })
}

func finding1(t *testing.T, seedA, seedB string) {
	const (
		svc     = "price-feed"
		schemas = `{"input":{"type":"object"},"output":{"type":"object"}}`
		input   = `{"header":{},"body":{}}`
		module  = "feeds"
	)

	app := simapp.Setup(false)
	height := int64(100)
	ctx := app.BaseApp.NewContext(false, tmproto.Header{Height: height, Time: time.Date(2021, 1, 1, 0, 0, 0, 0, time.UTC)})
	k := app.ServiceKeeper
	k.SetParams(ctx, types.DefaultParams())
	handler := service.NewHandler(k)

	addrs := simapp.AddTestAddrs(app, ctx, 4, sdk.NewInt(1000000000))
	author, owner, provider, richConsumer := addrs[0], addrs[1], addrs[2], addrs[3]
	// the consumer of the primary context can pay for exactly one batch (1 provider x 1stake)
	poorConsumer := sdk.AccAddress(tmhash.SumTruncated([]byte("poor-consumer")))
	if err := app.BankKeeper.SendCoins(ctx, author, poorConsumer, sdk.NewCoins(sdk.NewInt64Coin("stake", 1))); err != nil {
		t.Fatal(err)
	}

	txCount := 0
	// deliver: the way baseapp runs a message
	deliver := func(msg sdk.Msg) {
		t.Helper()
		if err := msg.ValidateBasic(); err != nil {
			t.Fatalf("ValidateBasic: %v", err)
		}
		txCount++
		txCtx := ctx.WithValue(types.TxHash, tmhash.Sum([]byte(fmt.Sprintf("setup-%d", txCount)))).WithValue(types.MsgIndex, int64(0))
		cacheCtx, write := txCtx.CacheContext()
		if _, err := handler(cacheCtx, msg); err != nil {
			t.Fatalf("handler: %v", err)
		}
		write()
	}
	endBlock := func() {
		service.EndBlocker(ctx, k)
		height++
		ctx = ctx.WithBlockHeight(height).WithBlockTime(ctx.BlockTime().Add(5 * time.Second))
	}

	deliver(types.NewMsgDefineService(svc, "desc", nil, author, "author", schemas))
	deliver(types.NewMsgBindService(svc, provider, sdk.NewCoins(sdk.NewInt64Coin("stake", 100000)), `{"price":"1stake"}`, 1, "{}", owner))

	// ---- the other module ("feeds") -------------------------------------------------------
	// It owns two repeated contexts: a primary one (A) and a fallback (B) that is created
	// paused. When the service module tells it that A was paused, it starts B - using nothing
	// but the keeper's public API from inside its own state callback.
	var idA, idB tmbytes.HexBytes
	var startErr error
	startedInBlock := int64(-1)

	if err := k.RegisterResponseCallback(module, func(sdk.Context, tmbytes.HexBytes, []string, error) {}); err != nil {
		t.Fatal(err)
	}
	if err := k.RegisterStateCallback(module, func(cbCtx sdk.Context, id tmbytes.HexBytes, cause string) {
		if id.String() == idA.String() {
			startErr = k.StartRequestContext(cbCtx, idB, richConsumer)
			startedInBlock = cbCtx.BlockHeight()
		}
	}); err != nil {
		t.Fatal(err)
	}

	// the module's own message handler creates the two contexts in block 100
	create := func(seed string, consumer sdk.AccAddress, state types.RequestContextState) tmbytes.HexBytes {
		t.Helper()
		txCtx := ctx.WithValue(types.TxHash, tmhash.Sum([]byte(seed))).WithValue(types.MsgIndex, int64(0))
		cacheCtx, write := txCtx.CacheContext()
		id, err := k.CreateRequestContext(
			cacheCtx, svc, []sdk.AccAddress{provider}, consumer, input,
			sdk.NewCoins(sdk.NewInt64Coin("stake", 10)),
			2,     // timeout
			false, // super mode
			true,  // repeated
			2,     // frequency
			-1,    // total: unlimited
			state, 1, module,
		)
		if err != nil {
			t.Fatalf("CreateRequestContext: %v", err)
		}
		write()
		return id
	}
	idA = create(seedA, poorConsumer, types.RUNNING)
	idB = create(seedB, richConsumer, types.PAUSED)

	batches := func(id tmbytes.HexBytes) uint64 {
		rc, found := k.GetRequestContext(ctx, id)
		if !found {
			t.Fatalf("context %s not found", id)
		}
		return rc.BatchCounter
	}

	// block 100: first batch of A, paid with the consumer's only coin
	endBlock()
	// block 101: the provider answers, so the fee is earned and not refunded
	deliver(types.NewMsgRespondService(types.GenerateRequestID(idA, 1, 100, 0), provider,
		`{"code":200,"message":""}`, `{"header":{},"body":{}}`))
	endBlock()
	// block 102: the batch expires, the second batch of A cannot be paid, A is paused and the
	// module's state callback starts B
	endBlock()
	if startedInBlock != 102 || startErr != nil {
		t.Fatalf("setup: expected the module to start B successfully in block 102, got block %d err %v", startedInBlock, startErr)
	}
	rcA, _ := k.GetRequestContext(ctx, idA)
	rcB, _ := k.GetRequestContext(ctx, idB)
	if rcA.State != types.PAUSED || rcA.BatchCounter != 1 || rcB.State != types.RUNNING {
		t.Fatalf("setup: unexpected states A=%v/%d B=%v", rcA.State, rcA.BatchCounter, rcB.State)
	}

	// C10: "The first batch of a context that is still running is issued (or skipped) at the
	// end of the block that contains the call."
	got102 := batches(idB)

	// ... and it never comes later either
	for i := 0; i < 20; i++ {
		endBlock()
	}
	rcB, _ = k.GetRequestContext(ctx, idB)
	laterHeight := height

	var marker gogotypes.Int64Value
	markerBz := ctx.KVStore(app.GetKey(types.StoreKey)).Get(types.GetNewRequestBatchHeightKey(idB))
	if markerBz != nil {
		_ = marker.Unmarshal(markerBz)
	}

	// the owning module cannot even repair it with pause + start: the stale queue marker stays
	pauseErr := k.PauseRequestContext(ctx, idB, richConsumer)
	restartErr := k.StartRequestContext(ctx, idB, richConsumer)
	endBlock()
	afterRestart := batches(idB)

	if got102 != 1 || rcB.BatchCounter == 0 || afterRestart == 0 {
		t.Errorf("C10 violated: context B was started by its module in block %d (StartRequestContext returned nil) and has been RUNNING ever since,\n"+
			"but no batch was issued or skipped for it at the end of block %d (batch counter %d, want 1);\n"+
			"%d blocks later (height %d) it is still %v with batch counter %d, no batch in flight (expiration queued: %v)\n"+
			"and a stale new-batch entry for height %d (queued: %v);\n"+
			"pause (err=%v) + start (err=%v) by the module and one more block: batch counter %d",
			startedInBlock, startedInBlock, got102,
			20, laterHeight, rcB.State.String(), rcB.BatchCounter, k.HasRequestBatchExpiration(ctx, idB),
			marker.Value, markerBz != nil,
			pauseErr, restartErr, afterRestart)
	}
}
