package service_test

import (
	"fmt"
	"math/rand"
	"testing"

	gogotypes "github.com/gogo/protobuf/types"
	"github.com/tendermint/tendermint/crypto/tmhash"
	tmbytes "github.com/tendermint/tendermint/libs/bytes"

	sdk "github.com/cosmos/cosmos-sdk/types"

	"github.com/irismod/service/types"
)

type xtrack struct {
	id          tmbytes.HexBytes
	consumer    sdk.AccAddress
	module      bool
	repeated    bool
	callH       int64 // block of the call that made it running first (-1: not yet)
	batches     []xbatch
	lastCounter uint64
	interrupted bool
	cleanFirst  bool // still running since the first running call
	maxTotal    int64
	everNeg     bool
	dead        bool
}

type xworld struct {
	c    *xchain
	r    *rand.Rand
	ctxs []*xtrack
	log  []string
	seed int64
	onlySelf tmbytes.HexBytes
	// the sdk ctx to use by callbacks is passed in
}

func (w *xworld) logf(f string, a ...interface{}) { w.log = append(w.log, fmt.Sprintf(f, a...)) }

func (w *xworld) find(id tmbytes.HexBytes) *xtrack {
	for _, x := range w.ctxs {
		if x.id.String() == id.String() {
			return x
		}
	}
	return nil
}

// observe after an action on ctx x
func (w *xworld) observe(ctx sdk.Context, x *xtrack, before types.RequestContext, bfound bool) {
	after, afound := w.c.k.GetRequestContext(ctx, x.id)
	if !afound {
		return
	}
	if after.State != types.RUNNING {
		x.interrupted = true
		if x.callH >= 0 {
			x.cleanFirst = false
		}
	}
	if bfound && (after.Timeout != before.Timeout || after.RepeatedFrequency != before.RepeatedFrequency) {
		x.interrupted = true
	}
	if bfound && before.State != types.RUNNING && after.State == types.RUNNING {
		x.interrupted = true
		if x.callH < 0 {
			x.callH = ctx.BlockHeight()
		}
	}
	if after.RepeatedTotal > x.maxTotal {
		x.maxTotal = after.RepeatedTotal
	}
	if after.RepeatedTotal < 0 {
		x.everNeg = true
	}
}

// random keeper-API action by the module on one of its contexts
func (w *xworld) moduleAction(ctx sdk.Context, where string) {
	var mine []*xtrack
	for _, x := range w.ctxs {
		if w.onlySelf != nil && x.id.String() != w.onlySelf.String() {
			continue
		}
		if x.module && !x.dead {
			mine = append(mine, x)
		}
	}
	if len(mine) == 0 {
		return
	}
	x := mine[w.r.Intn(len(mine))]
	before, bfound := w.c.k.GetRequestContext(ctx, x.id)
	var desc string
	var err error
	switch w.r.Intn(6) {
	case 0:
		desc = "pause"
		err = w.c.k.PauseRequestContext(ctx, x.id, x.consumer)
	case 1, 2:
		desc = "start"
		err = w.c.k.StartRequestContext(ctx, x.id, x.consumer)
	case 3:
		nt := int64(w.r.Intn(5))
		nf := uint64(w.r.Intn(8))
		ntot := int64(w.r.Intn(7) - 1)
		desc = fmt.Sprintf("update timeout=%d freq=%d total=%d", nt, nf, ntot)
		err = w.c.k.UpdateRequestContext(ctx, x.id, nil, 0, nil, nt, nf, ntot, x.consumer)
	case 4:
		if w.r.Intn(8) == 0 {
			desc = "kill"
			err = w.c.k.KillRequestContext(ctx, x.id, x.consumer)
		}
	case 5:
		// fund the consumer
		desc = "fund"
		err = w.c.app.BankKeeper.SendCoins(ctx, w.c.addrs[0], x.consumer, sdk.NewCoins(sdk.NewInt64Coin("stake", int64(1+w.r.Intn(6)))))
	}
	if desc != "" {
		w.logf("    [%s] h=%d module %s on %s err=%v", where, ctx.BlockHeight(), desc, x.id.String()[:6], err)
	}
	w.observe(ctx, x, before, bfound)
}

func (w *xworld) newBatchHeight(id tmbytes.HexBytes) (int64, bool) {
	store := w.c.ctx.KVStore(w.c.app.GetKey(types.StoreKey))
	bz := store.Get(types.GetNewRequestBatchHeightKey(id))
	if bz == nil {
		return 0, false
	}
	var v gogotypes.Int64Value
	if err := v.Unmarshal(bz); err != nil {
		panic(err)
	}
	return v.Value, true
}

var x2modRegistered = map[*xchain]bool{}

func runRandom2(t *testing.T, seed int64) {
	r := rand.New(rand.NewSource(seed))
	c := newXChain(t, 10)
	c.setupService(2)
	w := &xworld{c: c, r: r, seed: seed}
	owner := c.addrs[1]
	provs := []sdk.AccAddress{c.addrs[2], c.addrs[3]}
	fail := func(f string, a ...interface{}) {
		t.Helper()
		for _, l := range w.log {
			t.Log(l)
		}
		t.Errorf(f, a...)
	}

	cbProb := 1 + r.Intn(3)
	c.must(c.k.RegisterResponseCallback("mod", func(ctx sdk.Context, id tmbytes.HexBytes, responses []string, err error) {
		n := 0
		for r.Intn(cbProb+1) != 0 && n < 3 {
			w.moduleAction(ctx, "respcb "+id.String()[:6])
			n++
		}
	}))
	c.must(c.k.RegisterStateCallback("mod", func(ctx sdk.Context, id tmbytes.HexBytes, cause string) {
		w.logf("    statecb %s %s", id.String()[:6], cause)
		if x := w.find(id); x != nil {
			x.interrupted = true
			if x.callH >= 0 {
				x.cleanFirst = false
			}
		}
		n := 0
		if noSiblingInStateCb {
			w.onlySelf = id
		}
		for r.Intn(cbProb+1) != 0 && n < 3 {
			w.moduleAction(ctx, "statecb "+id.String()[:6])
			n++
		}
		w.onlySelf = nil
	}))

	// poor consumers: fresh addresses with small balances
	nctx := 1 + r.Intn(3)
	mkConsumer := func(i int, rich bool) sdk.AccAddress {
		a := sdk.AccAddress(tmhash.SumTruncated([]byte(fmt.Sprintf("consumer-%d-%d", seed, i))))
		amt := int64(1000000)
		if !rich {
			amt = int64(r.Intn(8))
		}
		if amt > 0 {
			c.must(c.app.BankKeeper.SendCoins(c.ctx, c.addrs[0], a, sdk.NewCoins(sdk.NewInt64Coin("stake", amt))))
		}
		return a
	}

	create := func(i int) {
		timeout := int64(1 + r.Intn(4))
		var freq uint64
		switch r.Intn(3) {
		case 0:
			freq = 0
		case 1:
			freq = uint64(timeout)
		default:
			freq = uint64(timeout) + uint64(1+r.Intn(4))
		}
		repeated := r.Intn(6) != 0
		total := int64(-1)
		if r.Intn(2) == 0 {
			total = int64(1 + r.Intn(4))
		}
		module := r.Intn(3) != 0
		consumer := mkConsumer(i, r.Intn(2) == 0)
		x := &xtrack{consumer: consumer, module: module, repeated: repeated, callH: -1, cleanFirst: true}
		if module {
			state := types.RUNNING
			if r.Intn(2) == 0 {
				state = types.PAUSED
			}
			c.txn++
			ctx := c.ctx.WithValue(types.TxHash, tmhash.Sum([]byte(fmt.Sprintf("tx%d", c.txn)))).WithValue(types.MsgIndex, int64(0))
			cc, write := ctx.CacheContext()
			id, err := c.k.CreateRequestContext(cc, xSvc, provs, consumer, xInput, sdk.NewCoins(sdk.NewInt64Coin("stake", 10)), timeout, false, repeated, freq, total, state, 1, "mod")
			c.must(err)
			write()
			x.id = id
			if state == types.RUNNING {
				x.callH = c.height
			}
			w.logf("h=%d create module ctx %s timeout=%d freq=%d rep=%v total=%d state=%v", c.height, id.String()[:6], timeout, freq, repeated, total, state)
		} else {
			c.must(c.deliver(types.NewMsgCallService(xSvc, provs, consumer, xInput, sdk.NewCoins(sdk.NewInt64Coin("stake", 10)), timeout, false, repeated, freq, total)))
			x.id = c.lastCtxID()
			x.callH = c.height
			w.logf("h=%d create user ctx %s timeout=%d freq=%d rep=%v total=%d", c.height, x.id.String()[:6], timeout, freq, repeated, total)
		}
		rc, _ := c.k.GetRequestContext(c.ctx, x.id)
		if rc.RepeatedTotal > 0 {
			x.maxTotal = rc.RepeatedTotal
		}
		x.everNeg = rc.RepeatedTotal < 0
		w.ctxs = append(w.ctxs, x)
	}
	created := 0

	for blk := 0; blk < 50; blk++ {
		if created < nctx && r.Intn(3) == 0 {
			create(created)
			created++
		}
		ntx := r.Intn(4)
		for i := 0; i < ntx; i++ {
			if len(w.ctxs) == 0 {
				break
			}
			x := w.ctxs[r.Intn(len(w.ctxs))]
			if x.dead {
				continue
			}
			before, found := c.k.GetRequestContext(c.ctx, x.id)
			var desc string
			var err error
			k := r.Intn(10)
			if x.module && k <= 4 {
				// module acts in a transaction of its own
				cc, write := c.ctx.CacheContext()
				w.moduleAction(cc, "tx")
				write()
				continue
			}
			switch k {
			case 0:
				desc = "pause"
				err = c.deliver(types.NewMsgPauseRequestContext(x.id, x.consumer))
			case 1, 2:
				desc = "start"
				err = c.deliver(types.NewMsgStartRequestContext(x.id, x.consumer))
			case 3:
				nt := int64(r.Intn(5))
				nf := uint64(r.Intn(8))
				ntot := int64(r.Intn(7) - 1)
				desc = fmt.Sprintf("update timeout=%d freq=%d total=%d", nt, nf, ntot)
				err = c.deliver(types.NewMsgUpdateRequestContext(x.id, nil, nil, nt, nf, ntot, x.consumer))
			case 4:
				if r.Intn(6) == 0 {
					desc = "kill"
					err = c.deliver(types.NewMsgKillRequestContext(x.id, x.consumer))
				}
			case 5, 6:
				if found {
					var ids []tmbytes.HexBytes
					var ps []sdk.AccAddress
					c.k.IterateActiveRequests(c.ctx, x.id, before.BatchCounter, func(rid tmbytes.HexBytes, req types.Request) {
						ids = append(ids, rid)
						ps = append(ps, req.Provider)
					})
					for j := range ids {
						if r.Intn(3) != 0 {
							desc += "respond "
							e := c.deliver(types.NewMsgRespondService(ids[j], ps[j], xResult, xOutput))
							if e != nil {
								desc += e.Error()
							}
						}
					}
				}
			case 7:
				desc = "disable"
				err = c.deliver(types.NewMsgDisableServiceBinding(xSvc, provs[r.Intn(2)], owner))
			case 8:
				desc = "enable"
				err = c.deliver(types.NewMsgEnableServiceBinding(xSvc, provs[r.Intn(2)], nil, owner))
			case 9:
				desc = "fund"
				err = c.app.BankKeeper.SendCoins(c.ctx, c.addrs[0], x.consumer, sdk.NewCoins(sdk.NewInt64Coin("stake", int64(1+r.Intn(6)))))
			}
			if desc != "" {
				w.logf("  h=%d tx %s on %s err=%v", c.height, desc, x.id.String()[:6], err)
			}
			w.observe(c.ctx, x, before, found)
		}

		type snap struct {
			rc    types.RequestContext
			found bool
		}
		pres := map[*xtrack]snap{}
		for _, x := range w.ctxs {
			rc, f := c.k.GetRequestContext(c.ctx, x.id)
			pres[x] = snap{rc, f}
		}
		h := c.height
		c.endBlock()
		for _, x := range w.ctxs {
			if x.dead {
				continue
			}
			pre := pres[x]
			post, postFound := c.k.GetRequestContext(c.ctx, x.id)
			if !postFound {
				x.dead = true
				w.logf("  h=%d ctx %s removed", h, x.id.String()[:6])
				continue
			}
			newCounter := post.BatchCounter
			if newCounter > x.lastCounter {
				if newCounter-x.lastCounter > 1 {
					fail("seed %d: %d batches started in one block h=%d", seed, newCounter-x.lastCounter, h)
					return
				}
				// timeout/freq in force at the batch start: read post (callbacks may have changed pre)
				b := xbatch{start: h, timeout: post.Timeout, freq: post.RepeatedFrequency, counter: newCounter}
				w.logf("  h=%d BATCH %d of %s (timeout=%d freq=%d total=%d)", h, newCounter, x.id.String()[:6], post.Timeout, post.RepeatedFrequency, post.RepeatedTotal)
				if len(x.batches) > 0 {
					prev := x.batches[len(x.batches)-1]
					if prev.start+prev.timeout > h {
						fail("seed %d: ctx %s two batches in flight: prev start %d timeout %d, next start %d", seed, x.id.String()[:6], prev.start, prev.timeout, h)
						return
					}
					if !x.interrupted && h-prev.start != int64(prev.freq) {
						fail("seed %d: ctx %s cadence broken: prev start %d freq %d, next start %d", seed, x.id.String()[:6], prev.start, prev.freq, h)
						return
					}
				} else if x.cleanFirst && h != x.callH {
					fail("seed %d: ctx %s first batch at %d, call at %d", seed, x.id.String()[:6], h, x.callH)
					return
				}
				x.batches = append(x.batches, b)
				x.lastCounter = newCounter
				x.interrupted = false
				if !x.repeated && len(x.batches) > 1 {
					fail("seed %d: one-shot %s got %d batches", seed, x.id.String()[:6], len(x.batches))
					return
				}
				if x.repeated && !x.everNeg && int64(len(x.batches)) > x.maxTotal {
					fail("seed %d: ctx %s %d batches > max total %d", seed, x.id.String()[:6], len(x.batches), x.maxTotal)
					return
				}
			} else {
				if len(x.batches) == 0 && h == x.callH && x.cleanFirst && post.State == types.RUNNING {
					fail("seed %d: ctx %s no first batch at call height %d", seed, x.id.String()[:6], h)
					return
				}
				if len(x.batches) > 0 && !x.interrupted && post.State == types.RUNNING && x.repeated {
					prev := x.batches[len(x.batches)-1]
					if h == prev.start+int64(prev.freq) && (post.RepeatedTotal < 0 || int64(post.BatchCounter) < post.RepeatedTotal) {
						fail("seed %d: ctx %s expected batch at %d (prev %d + freq %d)", seed, x.id.String()[:6], h, prev.start, prev.freq)
						return
					}
				}
			}
			if post.State != types.RUNNING {
				if pre.found && pre.rc.State == types.RUNNING {
					w.logf("  h=%d endblock left %s in state %v", h, x.id.String()[:6], post.State)
				}
				x.interrupted = true
				if x.callH >= 0 {
					x.cleanFirst = false
				}
			}
			// liveness: a running context is either in flight or scheduled in the future
			if post.State == types.RUNNING {
				if !c.k.HasRequestBatchExpiration(c.ctx, x.id) {
					nh, ok := w.newBatchHeight(x.id)
					if !ok || nh <= h {
						fail("seed %d: ctx %s is RUNNING after block %d with no batch in flight and next batch height (%d,%v) not in the future: stuck", seed, x.id.String()[:6], h, nh, ok)
						return
					}
				}
			}
		}
	}
	if dbgLog {
		for _, l := range w.log {
			t.Log(l)
		}
	}
}

var noSiblingInStateCb = true // set to false to let state callbacks act on sibling contexts: reproduces finding 1 (seed 14)

func TestExploreRandom2(t *testing.T) {
	for seed := 0; seed < 1000; seed++ {
		runRandom2(t, int64(seed))
		if t.Failed() {
			return
		}
	}
}
