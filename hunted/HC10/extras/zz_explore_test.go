package service_test

import (
	"fmt"
	"math/rand"
	"testing"
	"time"

	"github.com/tendermint/tendermint/crypto/tmhash"
	tmbytes "github.com/tendermint/tendermint/libs/bytes"
	tmproto "github.com/tendermint/tendermint/proto/tendermint/types"

	sdk "github.com/cosmos/cosmos-sdk/types"

	service "github.com/irismod/service"
	simapp "github.com/irismod/service/app"
	"github.com/irismod/service/keeper"
	"github.com/irismod/service/types"
)

type xchain struct {
	t      *testing.T
	app    *simapp.SimApp
	ctx    sdk.Context
	k      keeper.Keeper
	h      sdk.Handler
	height int64
	txn    int
	addrs  []sdk.AccAddress
}

const (
	xSvc     = "svc"
	xSchemas = `{"input":{"type":"object"},"output":{"type":"object"}}`
	xInput   = `{"header":{},"body":{}}`
	xResult  = `{"code":200,"message":""}`
	xOutput  = `{"header":{},"body":{}}`
)

func newXChain(t *testing.T, start int64) *xchain {
	app := simapp.Setup(false)
	ctx := app.BaseApp.NewContext(false, tmproto.Header{Height: start, Time: time.Date(2021, 1, 1, 0, 0, 0, 0, time.UTC)})
	k := app.ServiceKeeper
	k.SetParams(ctx, types.DefaultParams())
	c := &xchain{t: t, app: app, ctx: ctx, k: k, h: service.NewHandler(k), height: start}
	c.addrs = simapp.AddTestAddrs(app, ctx, 6, sdk.NewInt(1000000000000))
	return c
}

func (c *xchain) deliver(msg sdk.Msg) (err error) {
	if err := msg.ValidateBasic(); err != nil {
		return err
	}
	c.txn++
	ctx := c.ctx.WithValue(types.TxHash, tmhash.Sum([]byte(fmt.Sprintf("tx%d", c.txn)))).WithValue(types.MsgIndex, int64(0))
	cc, write := ctx.CacheContext()
	defer func() {
		if r := recover(); r != nil {
			err = fmt.Errorf("panic: %v", r)
		}
	}()
	_, err = c.h(cc, msg)
	if err == nil {
		write()
	}
	return err
}

func (c *xchain) lastCtxID() tmbytes.HexBytes {
	return types.GenerateRequestContextID(tmhash.Sum([]byte(fmt.Sprintf("tx%d", c.txn))), 0)
}

func (c *xchain) endBlock() {
	service.EndBlocker(c.ctx, c.k)
	c.height++
	c.ctx = c.ctx.WithBlockHeight(c.height).WithBlockTime(c.ctx.BlockTime().Add(5 * time.Second)).WithEventManager(sdk.NewEventManager())
}

func (c *xchain) must(err error) {
	c.t.Helper()
	if err != nil {
		c.t.Fatalf("unexpected error: %v", err)
	}
}

func (c *xchain) setupService(nprov int) {
	author, owner := c.addrs[0], c.addrs[1]
	c.must(c.deliver(types.NewMsgDefineService(xSvc, "d", nil, author, "a", xSchemas)))
	for i := 0; i < nprov; i++ {
		c.must(c.deliver(types.NewMsgBindService(xSvc, c.addrs[2+i], sdk.NewCoins(sdk.NewInt64Coin("stake", 100000)), `{"price":"1stake"}`, 1, "{}", owner)))
	}
}

type xbatch struct {
	start   int64
	timeout int64
	freq    uint64
	counter uint64
}

func TestExploreRandom(t *testing.T) {
	seeds := 1000
	for seed := 0; seed < seeds; seed++ {
		runRandom(t, int64(seed))
		if t.Failed() {
			return
		}
	}
}

func runRandom(t *testing.T, seed int64) {
	r := rand.New(rand.NewSource(seed))
	c := newXChain(t, 10)
	c.setupService(2)
	consumer := c.addrs[5]
	owner := c.addrs[1]
	provs := []sdk.AccAddress{c.addrs[2], c.addrs[3]}

	timeout := int64(1 + r.Intn(4))
	var freq uint64
	switch r.Intn(3) {
	case 0:
		freq = 0
	case 1:
		freq = uint64(timeout)
	default:
		freq = uint64(timeout) + uint64(1+r.Intn(4))
	}
	repeated := r.Intn(5) != 0
	total := int64(-1)
	if r.Intn(2) == 0 {
		total = int64(1 + r.Intn(4))
	}
	// warm up a few blocks
	for i := 0; i < r.Intn(3); i++ {
		c.endBlock()
	}
	createH := c.height
	err := c.deliver(types.NewMsgCallService(xSvc, provs, consumer, xInput, sdk.NewCoins(sdk.NewInt64Coin("stake", 10)), timeout, false, repeated, freq, total))
	c.must(err)
	id := c.lastCtxID()
	log := []string{fmt.Sprintf("seed %d create h=%d timeout=%d freq=%d rep=%v total=%d", seed, createH, timeout, freq, repeated, total)}
	fail := func(f string, a ...interface{}) {
		t.Helper()
		for _, l := range log {
			t.Log(l)
		}
		t.Errorf(f, a...)
	}

	maxTotal := int64(0)
	rc, _ := c.k.GetRequestContext(c.ctx, id)
	if rc.RepeatedTotal > 0 {
		maxTotal = rc.RepeatedTotal
	}
	everNeg := rc.RepeatedTotal < 0
	var batches []xbatch
	lastCounter := uint64(0)
	// interruption tracking since last batch start
	interrupted := false
	stillRunningSinceCreate := true

	for blk := 0; blk < 60; blk++ {
		// transactions
		ntx := r.Intn(3)
		for i := 0; i < ntx; i++ {
			before, found := c.k.GetRequestContext(c.ctx, id)
			var desc string
			var err error
			switch r.Intn(9) {
			case 0:
				desc = "pause"
				err = c.deliver(types.NewMsgPauseRequestContext(id, consumer))
			case 1, 2:
				desc = "start"
				err = c.deliver(types.NewMsgStartRequestContext(id, consumer))
			case 3:
				nt := int64(r.Intn(5))
				nf := uint64(r.Intn(8))
				ntot := int64(r.Intn(7) - 1)
				desc = fmt.Sprintf("update timeout=%d freq=%d total=%d", nt, nf, ntot)
				err = c.deliver(types.NewMsgUpdateRequestContext(id, nil, nil, nt, nf, ntot, consumer))
			case 4:
				if r.Intn(6) == 0 {
					desc = "kill"
					err = c.deliver(types.NewMsgKillRequestContext(id, consumer))
				}
			case 5, 6:
				// respond to all active requests of the current batch
				if found {
					var ids []tmbytes.HexBytes
					var ps []sdk.AccAddress
					c.k.IterateActiveRequests(c.ctx, id, before.BatchCounter, func(rid tmbytes.HexBytes, req types.Request) {
						ids = append(ids, rid)
						ps = append(ps, req.Provider)
					})
					for j := range ids {
						if r.Intn(3) != 0 {
							desc += "respond "
							e := c.deliver(types.NewMsgRespondService(ids[j], ps[j], xResult, xOutput))
							if e != nil {
								desc += e.Error()
							}
						}
					}
				}
			case 7:
				p := provs[r.Intn(2)]
				desc = "disable"
				err = c.deliver(types.NewMsgDisableServiceBinding(xSvc, p, owner))
			case 8:
				p := provs[r.Intn(2)]
				desc = "enable"
				err = c.deliver(types.NewMsgEnableServiceBinding(xSvc, p, nil, owner))
			}
			after, found2 := c.k.GetRequestContext(c.ctx, id)
			if desc != "" {
				log = append(log, fmt.Sprintf("  h=%d tx %s err=%v", c.height, desc, err))
			}
			if found && found2 {
				if after.State != types.RUNNING {
					interrupted = true
					stillRunningSinceCreate = false
				}
				if after.Timeout != before.Timeout || after.RepeatedFrequency != before.RepeatedFrequency {
					interrupted = true
				}
				if after.RepeatedTotal > maxTotal {
					maxTotal = after.RepeatedTotal
				}
				if after.RepeatedTotal < 0 {
					everNeg = true
				}
			}
		}
		pre, preFound := c.k.GetRequestContext(c.ctx, id)
		h := c.height
		c.endBlock()
		post, postFound := c.k.GetRequestContext(c.ctx, id)
		newCounter := lastCounter
		if postFound {
			newCounter = post.BatchCounter
		} else if preFound {
			newCounter = pre.BatchCounter // deleted: cannot have started a batch and be deleted in same block... assume
		}
		if postFound && post.State != types.RUNNING {
			// paused by the end blocker
			if preFound && pre.State == types.RUNNING {
				log = append(log, fmt.Sprintf("  h=%d endblock paused/changed state to %v", h, post.State))
			}
		}
		if newCounter > lastCounter {
			if newCounter-lastCounter > 1 {
				fail("seed %d: %d batches started in one block h=%d", seed, newCounter-lastCounter, h)
				return
			}
			b := xbatch{start: h, timeout: pre.Timeout, freq: pre.RepeatedFrequency, counter: newCounter}
			log = append(log, fmt.Sprintf("  h=%d BATCH %d (timeout=%d freq=%d total=%d)", h, newCounter, pre.Timeout, pre.RepeatedFrequency, pre.RepeatedTotal))
			if len(batches) > 0 {
				prev := batches[len(batches)-1]
				if prev.start+prev.timeout > h {
					fail("seed %d: two batches in flight: prev start %d timeout %d, next start %d", seed, prev.start, prev.timeout, h)
					return
				}
				if !interrupted && h-prev.start != int64(prev.freq) {
					fail("seed %d: cadence broken: prev start %d freq %d, next start %d", seed, prev.start, prev.freq, h)
					return
				}
			} else {
				if stillRunningSinceCreate && h != createH {
					fail("seed %d: first batch at %d, created %d", seed, h, createH)
					return
				}
			}
			batches = append(batches, b)
			lastCounter = newCounter
			interrupted = false
			if !repeated && len(batches) > 1 {
				fail("seed %d: one-shot got %d batches", seed, len(batches))
				return
			}
			if repeated && !everNeg && int64(len(batches)) > maxTotal {
				fail("seed %d: %d batches > max total %d", seed, len(batches), maxTotal)
				return
			}
		} else {
			if len(batches) == 0 && h == createH && stillRunningSinceCreate {
				fail("seed %d: no first batch at creation height %d (state %v found %v)", seed, h, post.State, postFound)
				return
			}
			// liveness of cadence
			if len(batches) > 0 && postFound && !interrupted && post.State == types.RUNNING && repeated {
				prev := batches[len(batches)-1]
				if h == prev.start+int64(prev.freq) && (post.RepeatedTotal < 0 || int64(post.BatchCounter) < post.RepeatedTotal) {
					fail("seed %d: expected batch at %d (prev %d + freq %d)", seed, h, prev.start, prev.freq)
					return
				}
			}
		}
		if preFound && postFound && (post.State != types.RUNNING) {
			interrupted = true
			stillRunningSinceCreate = false
		}
		if !postFound {
			break
		}
	}
	if dbgLog {
		for _, l := range log {
			t.Log(l)
		}
	}
}

var dbgLog = false
