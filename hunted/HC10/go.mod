module deliver
