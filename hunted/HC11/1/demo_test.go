package service_test

// Finding 1 (C11): a context that its owning module starts (or creates) from the module's
// state callback while the end-of-block is walking the new-batch queue gets its "next batch"
// event at the CURRENT height, but the walk does not see entries added while it runs.
// The event is never processed, lies in the past from the next block on, and the RUNNING
// context is stranded for good (StartRequestContext refuses to schedule it again because
// the stale event still exists).

import (
	"bytes"
	"encoding/binary"
	"fmt"
	"testing"
	"time"

	"github.com/tendermint/tendermint/crypto/tmhash"
	tmbytes "github.com/tendermint/tendermint/libs/bytes"
	tmproto "github.com/tendermint/tendermint/proto/tendermint/types"

	sdk "github.com/cosmos/cosmos-sdk/types"

	service "github.com/irismod/service"
	simapp "github.com/irismod/service/app"
	"github.com/irismod/service/keeper"
	"github.com/irismod/service/types"
)

const (
	f1Service = "feed-svc"
	f1Module  = "feeds"
	f1Schemas = `{"input":{"type":"object"},"output":{"type":"object"}}`
	f1Input   = `{"header":{},"body":{}}`
)

type f1Chain struct {
	t   *testing.T
	app *simapp.SimApp
	k   keeper.Keeper
	ctx sdk.Context // the block context (what EndBlocker runs on)
	txN int
}

func f1Coins(n int64) sdk.Coins { return sdk.NewCoins(sdk.NewCoin("stake", sdk.NewInt(n))) }

// deliver delivers one message the way baseapp does: ValidateBasic, then the handler on a
// cache context that is written back only when the handler succeeds and does not panic.
func (c *f1Chain) deliver(msg sdk.Msg) (err error) {
	if err := msg.ValidateBasic(); err != nil {
		return err
	}
	c.txN++
	cctx, write := c.ctx.CacheContext()
	cctx = cctx.WithValue(types.TxHash, tmhash.Sum([]byte(fmt.Sprintf("f1-tx-%d", c.txN)))).
		WithValue(types.MsgIndex, int64(0))
	func() {
		defer func() {
			if p := recover(); p != nil {
				err = fmt.Errorf("panic: %v", p)
			}
		}()
		_, err = service.NewHandler(c.k)(cctx, msg)
	}()
	if err == nil {
		write()
	}
	return err
}

// endBlockAndAdvance runs the end-of-block of the current height and opens the next block.
func (c *f1Chain) endBlockAndAdvance() {
	service.EndBlocker(c.ctx, c.k)
	c.ctx = c.ctx.WithBlockHeight(c.ctx.BlockHeight() + 1).WithBlockTime(c.ctx.BlockTime().Add(5 * time.Second))
}

// events returns the heights of the pending new-batch and expiry events of a context.
func (c *f1Chain) events(id tmbytes.HexBytes) (newBatch, expiry []int64) {
	store := c.ctx.KVStore(c.app.GetKey(types.StoreKey))
	for _, q := range []struct {
		prefix []byte
		out    *[]int64
	}{{types.NewRequestBatchKey, &newBatch}, {types.ExpiredRequestBatchKey, &expiry}} {
		it := sdk.KVStorePrefixIterator(store, q.prefix)
		for ; it.Valid(); it.Next() {
			key := it.Key()[1:]
			if bytes.Equal(key[8:], id) {
				*q.out = append(*q.out, int64(binary.BigEndian.Uint64(key[:8])))
			}
		}
		it.Close()
	}
	return
}

// checkRunningScheduled asserts the first sentence of C11 for one context.
func (c *f1Chain) checkRunningScheduled(name string, id tmbytes.HexBytes) bool {
	rc, found := c.k.GetRequestContext(c.ctx, id)
	if !found || rc.State != types.RUNNING {
		return true
	}
	nb, ex := c.events(id)
	ok := true
	if len(nb)+len(ex) != 1 {
		c.t.Errorf("C11 violated at height %d: running context %s has %d pending events (next batch at %v, expiry at %v), want exactly one",
			c.ctx.BlockHeight(), name, len(nb)+len(ex), nb, ex)
		ok = false
	}
	for _, h := range append(nb, ex...) {
		if h < c.ctx.BlockHeight() {
			c.t.Errorf("C11 violated at height %d: the scheduled event of running context %s is at height %d, which lies in the past: it will never be processed",
				c.ctx.BlockHeight(), name, h)
			ok = false
		}
	}
	return ok
}

func f1Setup(t *testing.T) (*f1Chain, []sdk.AccAddress) {
	app := simapp.Setup(false)
	ctx := app.BaseApp.NewContext(false, tmproto.Header{Height: 100, Time: time.Date(2021, 1, 1, 0, 0, 0, 0, time.UTC)})
	app.ServiceKeeper.SetParams(ctx, types.DefaultParams())
	c := &f1Chain{t: t, app: app, k: app.ServiceKeeper, ctx: ctx}
	addrs := simapp.AddTestAddrs(app, ctx, 5, sdk.NewInt(100000000))
	author, owner, provider := addrs[0], addrs[1], addrs[2]

	if err := c.deliver(types.NewMsgDefineService(f1Service, "", nil, author, "", f1Schemas)); err != nil {
		t.Fatal(err)
	}
	if err := c.deliver(types.NewMsgBindService(f1Service, provider, f1Coins(100000), `{"price":"10stake"}`, 1, "{}", owner)); err != nil {
		t.Fatal(err)
	}
	return c, addrs
}

// moduleCreate is what a module does to create one of its contexts (the host gives it TxHash/MsgIndex).
func (c *f1Chain) moduleCreate(ctx sdk.Context, tag string, provider, consumer sdk.AccAddress, state types.RequestContextState) tmbytes.HexBytes {
	ctx = ctx.WithValue(types.TxHash, tmhash.Sum([]byte(tag))).WithValue(types.MsgIndex, int64(0))
	id, err := c.k.CreateRequestContext(
		ctx, f1Service, []sdk.AccAddress{provider}, consumer, f1Input, f1Coins(100),
		2, false, true, 2, -1, state, 1, f1Module,
	)
	if err != nil {
		c.t.Fatal(err)
	}
	return id
}

// tagsOrdered returns two tx tags whose context IDs are ordered as requested (first < second).
func tagsOrdered(prefix string) (lo, hi string) {
	a, b := prefix+"-x", prefix+"-y"
	if bytes.Compare(tmhash.Sum([]byte(a)), tmhash.Sum([]byte(b))) < 0 {
		return a, b
	}
	return b, a
}

func TestFinding1(t *testing.T) {
	// the module's standby feed is started when its primary feed is paused for lack of funds
	for _, standbySortsAfter := range []bool{true, false} {
		name := "standby context sorts before the paused one"
		if standbySortsAfter {
			name = "standby context sorts after the paused one"
		}
		t.Run("start/"+name, func(t *testing.T) {
			c, addrs := f1Setup(t)
			c.t = t
			provider, richConsumer := addrs[2], addrs[3]
			poorConsumer := sdk.AccAddress(tmhash.SumTruncated([]byte("a consumer without funds"))) // 20 bytes, no balance

			var standby tmbytes.HexBytes
			if err := c.k.RegisterResponseCallback(f1Module, func(sdk.Context, tmbytes.HexBytes, []string, error) {}); err != nil {
				t.Fatal(err)
			}
			if err := c.k.RegisterStateCallback(f1Module, func(ctx sdk.Context, id tmbytes.HexBytes, cause string) {
				// the primary feed was paused: switch to the standby feed
				if err := c.k.StartRequestContext(ctx, standby, richConsumer); err != nil {
					t.Fatalf("the module could not start its standby context: %v", err)
				}
			}); err != nil {
				t.Fatal(err)
			}

			lo, hi := tagsOrdered("f1-start")
			primaryTag, standbyTag := lo, hi
			if !standbySortsAfter {
				primaryTag, standbyTag = hi, lo
			}
			standby = c.moduleCreate(c.ctx, standbyTag, provider, richConsumer, types.PAUSED)
			primary := c.moduleCreate(c.ctx, primaryTag, provider, poorConsumer, types.RUNNING)

			startHeight := c.ctx.BlockHeight()
			c.endBlockAndAdvance() // primary: fee deduction fails -> paused -> state callback starts the standby context

			if rc, _ := c.k.GetRequestContext(c.ctx, primary); rc.State != types.PAUSED {
				t.Fatalf("setup: the primary context should have been paused, got %s", rc.State)
			}
			if rc, _ := c.k.GetRequestContext(c.ctx, standby); rc.State != types.RUNNING {
				t.Fatalf("setup: the standby context should be running, got %s", rc.State)
			}

			if !c.checkRunningScheduled("standby", standby) {
				// show that it is stranded for good
				for i := 0; i < 10; i++ {
					c.endBlockAndAdvance()
				}
				rc, _ := c.k.GetRequestContext(c.ctx, standby)
				nb, ex := c.events(standby)
				t.Errorf("10 blocks later (height %d): standby context is %s, has issued %d batches (it was started at height %d with timeout 2 / frequency 2); pending events: next batch %v, expiry %v",
					c.ctx.BlockHeight(), rc.State, rc.BatchCounter, startHeight, nb, ex)

				// pausing and starting it again does not help: the stale event makes StartRequestContext skip the scheduling
				cctx, write := c.ctx.CacheContext()
				if err := c.k.PauseRequestContext(cctx, standby, richConsumer); err == nil {
					if err := c.k.StartRequestContext(cctx, standby, richConsumer); err == nil {
						write()
					}
				}
				for i := 0; i < 5; i++ {
					c.endBlockAndAdvance()
				}
				rc, _ = c.k.GetRequestContext(c.ctx, standby)
				nb, ex = c.events(standby)
				t.Errorf("after pause + start and 5 more blocks (height %d): standby context is %s with %d batches issued; pending events: next batch %v, expiry %v",
					c.ctx.BlockHeight(), rc.State, rc.BatchCounter, nb, ex)
			}
		})
	}

	// same cause: the module creates a replacement context from the state callback
	t.Run("create", func(t *testing.T) {
		c, addrs := f1Setup(t)
		c.t = t
		provider, richConsumer := addrs[2], addrs[3]
		poorConsumer := sdk.AccAddress(tmhash.SumTruncated([]byte("a consumer without funds")))

		var replacement tmbytes.HexBytes
		if err := c.k.RegisterResponseCallback(f1Module, func(sdk.Context, tmbytes.HexBytes, []string, error) {}); err != nil {
			t.Fatal(err)
		}
		if err := c.k.RegisterStateCallback(f1Module, func(ctx sdk.Context, id tmbytes.HexBytes, cause string) {
			replacement = c.moduleCreate(ctx, "f1-replacement", provider, richConsumer, types.RUNNING)
		}); err != nil {
			t.Fatal(err)
		}

		c.moduleCreate(c.ctx, "f1-primary", provider, poorConsumer, types.RUNNING)
		c.endBlockAndAdvance()

		if replacement == nil {
			t.Fatal("setup: the state callback was not called")
		}
		if !c.checkRunningScheduled("replacement", replacement) {
			for i := 0; i < 10; i++ {
				c.endBlockAndAdvance()
			}
			rc, _ := c.k.GetRequestContext(c.ctx, replacement)
			nb, ex := c.events(replacement)
			t.Errorf("10 blocks later (height %d): replacement context is %s, has issued %d batches; pending events: next batch %v, expiry %v",
				c.ctx.BlockHeight(), rc.State, rc.BatchCounter, nb, ex)
		}
	})
}
