package service_test

// Finding 2 (C11): the request timeout is only bounded by the governance parameter MaxRequestTimeout,
// and that parameter accepts every positive int64. With a timeout close to the int64 maximum the sum
// "current height + timeout" wraps around: the batch's expiry event and the requests' expiration
// height become NEGATIVE. The event lies in the past from the start, the end-of-block never reaches
// it, the running context is stranded and its unanswered requests are never expired or refunded.

import (
	"bytes"
	"encoding/binary"
	"fmt"
	"math"
	"testing"
	"time"

	"github.com/tendermint/tendermint/crypto/tmhash"
	tmbytes "github.com/tendermint/tendermint/libs/bytes"
	tmproto "github.com/tendermint/tendermint/proto/tendermint/types"

	sdk "github.com/cosmos/cosmos-sdk/types"

	service "github.com/irismod/service"
	simapp "github.com/irismod/service/app"
	"github.com/irismod/service/keeper"
	"github.com/irismod/service/types"
)

const (
	f2Service = "long-svc"
	f2Schemas = `{"input":{"type":"object"},"output":{"type":"object"}}`
	f2Input   = `{"header":{},"body":{}}`
)

type f2Chain struct {
	t   *testing.T
	app *simapp.SimApp
	k   keeper.Keeper
	ctx sdk.Context
	txN int
}

func f2Coins(n int64) sdk.Coins { return sdk.NewCoins(sdk.NewCoin("stake", sdk.NewInt(n))) }

// deliver delivers one message the way baseapp does and returns the ID a created context would have.
func (c *f2Chain) deliver(msg sdk.Msg) (id tmbytes.HexBytes, err error) {
	if err := msg.ValidateBasic(); err != nil {
		return nil, err
	}
	c.txN++
	txHash := tmhash.Sum([]byte(fmt.Sprintf("f2-tx-%d", c.txN)))
	cctx, write := c.ctx.CacheContext()
	cctx = cctx.WithValue(types.TxHash, txHash).WithValue(types.MsgIndex, int64(0))
	func() {
		defer func() {
			if p := recover(); p != nil {
				err = fmt.Errorf("panic: %v", p)
			}
		}()
		_, err = service.NewHandler(c.k)(cctx, msg)
	}()
	if err == nil {
		write()
	}
	return types.GenerateRequestContextID(txHash, 0), err
}

func (c *f2Chain) endBlockAndAdvance() {
	service.EndBlocker(c.ctx, c.k)
	c.ctx = c.ctx.WithBlockHeight(c.ctx.BlockHeight() + 1).WithBlockTime(c.ctx.BlockTime().Add(5 * time.Second))
}

func (c *f2Chain) events(id tmbytes.HexBytes) (newBatch, expiry []int64) {
	store := c.ctx.KVStore(c.app.GetKey(types.StoreKey))
	for _, q := range []struct {
		prefix []byte
		out    *[]int64
	}{{types.NewRequestBatchKey, &newBatch}, {types.ExpiredRequestBatchKey, &expiry}} {
		it := sdk.KVStorePrefixIterator(store, q.prefix)
		for ; it.Valid(); it.Next() {
			key := it.Key()[1:]
			if bytes.Equal(key[8:], id) {
				*q.out = append(*q.out, int64(binary.BigEndian.Uint64(key[:8])))
			}
		}
		it.Close()
	}
	return
}

func (c *f2Chain) activeRequests(id tmbytes.HexBytes) (out []tmbytes.HexBytes) {
	store := c.ctx.KVStore(c.app.GetKey(types.StoreKey))
	it := sdk.KVStorePrefixIterator(store, types.ActiveRequestByIDKey)
	defer it.Close()
	for ; it.Valid(); it.Next() {
		reqID := it.Key()[1:]
		if bytes.HasPrefix(reqID, id) {
			out = append(out, append([]byte{}, reqID...))
		}
	}
	return
}

func TestFinding2(t *testing.T) {
	for _, tc := range []struct {
		name     string
		timeout  int64
		repeated bool
	}{
		{"one-off call, timeout = max int64", math.MaxInt64, false},
		{"repeated call with default frequency, timeout = max int64 - 50", math.MaxInt64 - 50, true},
	} {
		t.Run(tc.name, func(t *testing.T) {
			app := simapp.Setup(false)
			ctx := app.BaseApp.NewContext(false, tmproto.Header{Height: 100, Time: time.Date(2021, 1, 1, 0, 0, 0, 0, time.UTC)})
			app.ServiceKeeper.SetParams(ctx, types.DefaultParams())
			c := &f2Chain{t: t, app: app, k: app.ServiceKeeper, ctx: ctx}
			addrs := simapp.AddTestAddrs(app, ctx, 4, sdk.NewInt(100000000))
			author, owner, provider, consumer := addrs[0], addrs[1], addrs[2], addrs[3]

			if _, err := c.deliver(types.NewMsgDefineService(f2Service, "", nil, author, "", f2Schemas)); err != nil {
				t.Fatal(err)
			}
			if _, err := c.deliver(types.NewMsgBindService(f2Service, provider, f2Coins(100000), `{"price":"10stake"}`, 1, "{}", owner)); err != nil {
				t.Fatal(err)
			}

			// governance lifts the limit on request timeouts: the parameter store accepts every positive int64
			// (this is the route a parameter-change proposal takes: Subspace.Update runs the registered validator)
			subspace := app.GetSubspace(types.ModuleName)
			if err := subspace.Update(c.ctx, types.KeyMaxRequestTimeout, []byte(fmt.Sprintf(`"%d"`, int64(math.MaxInt64)))); err != nil {
				t.Logf("the parameter store refuses the value (%v): the history is not possible, nothing is stranded", err)
				return
			}
			if got := c.k.MaxRequestTimeout(c.ctx); got != math.MaxInt64 {
				t.Fatalf("setup: max request timeout is %d", got)
			}

			balanceBefore := app.BankKeeper.GetBalance(c.ctx, consumer, "stake")

			total := int64(0)
			if tc.repeated {
				total = -1
			}
			id, err := c.deliver(types.NewMsgCallService(
				f2Service, []sdk.AccAddress{provider}, consumer, f2Input, f2Coins(10), tc.timeout, false, tc.repeated, 0, total,
			))
			if err != nil {
				t.Logf("the call is refused (%v): nothing is stranded", err)
				return
			}

			c.endBlockAndAdvance() // height 100: the batch is issued

			rc, found := c.k.GetRequestContext(c.ctx, id)
			if !found || rc.State != types.RUNNING {
				t.Fatalf("setup: expected a running context, found=%v state=%s", found, rc.State)
			}
			reqs := c.activeRequests(id)
			if len(reqs) != 1 {
				t.Fatalf("setup: expected one pending request, got %d", len(reqs))
			}

			violated := false
			nb, ex := c.events(id)
			if len(nb)+len(ex) != 1 {
				t.Errorf("C11 violated at height %d: running context has %d pending events (next batch %v, expiry %v)", c.ctx.BlockHeight(), len(nb)+len(ex), nb, ex)
				violated = true
			}
			for _, h := range append(nb, ex...) {
				if h < c.ctx.BlockHeight() {
					t.Errorf("C11 violated at height %d: the only scheduled event of the running context (timeout %d) is at height %d, which lies in the past: the end-of-block will never process it",
						c.ctx.BlockHeight(), tc.timeout, h)
					violated = true
				}
			}
			req, _ := c.k.GetRequest(c.ctx, reqs[0])
			if req.ExpirationHeight < c.ctx.BlockHeight() {
				t.Errorf("C11 violated at height %d: the request awaiting a response has expiration height %d (request height %d): it is already past, yet the request is still pending and was not expired/refunded",
					c.ctx.BlockHeight(), req.ExpirationHeight, req.RequestHeight)
				violated = true
			}

			if violated {
				// the provider never answers: nothing ever expires the request or refunds the consumer
				for i := 0; i < 20; i++ {
					c.endBlockAndAdvance()
				}
				rc, _ = c.k.GetRequestContext(c.ctx, id)
				nb, ex = c.events(id)
				balanceAfter := app.BankKeeper.GetBalance(c.ctx, consumer, "stake")
				t.Errorf("20 blocks later (height %d): context is %s / batch %s, %d request(s) still pending, pending events: next batch %v, expiry %v; consumer balance %s -> %s (fee never refunded)",
					c.ctx.BlockHeight(), rc.State, rc.BatchState, len(c.activeRequests(id)), nb, ex, balanceBefore, balanceAfter)
			}
		})
	}
}
