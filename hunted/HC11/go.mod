module deliver
