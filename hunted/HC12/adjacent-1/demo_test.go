package service_test

import (
	"testing"
	"time"

	"github.com/tendermint/tendermint/crypto/tmhash"
	tmbytes "github.com/tendermint/tendermint/libs/bytes"
	tmproto "github.com/tendermint/tendermint/proto/tendermint/types"

	sdk "github.com/cosmos/cosmos-sdk/types"

	service "github.com/irismod/service"
	simapp "github.com/irismod/service/app"
	"github.com/irismod/service/types"
)

// NOT a C12 violation - an adjacent scheduling observation found while examining C12.
//
// A module owns two contexts. A is running, B is paused. At the end of a block A's consumer cannot pay,
// the module's state callback is invoked for A and it reacts by starting B (StartRequestContext from
// inside its own callback). B's new-batch queue entry is written for the CURRENT height while
// EndBlocker iterates over exactly that height's queue; the iterator is a snapshot, the entry is never
// seen, and no later block looks at that height again: B stays RUNNING for ever without a single batch.
func TestAdjacent1(t *testing.T) {
	app := simapp.Setup(false)
	ctx := app.BaseApp.NewContext(false, tmproto.Header{Height: 10, Time: time.Unix(1600000000, 0).UTC()})
	k := app.ServiceKeeper
	k.SetParams(ctx, types.DefaultParams())
	h := service.NewHandler(k)

	addrs := simapp.AddTestAddrs(app, ctx, 5, sdk.NewInt(1000000000))
	author, owner, poorConsumer, richConsumer, provider := addrs[0], addrs[1], addrs[2], addrs[3], addrs[4]

	txN := uint64(0)
	deliver := func(msg sdk.Msg) {
		if err := msg.ValidateBasic(); err != nil {
			t.Fatal(err)
		}
		txN++
		cctx, write := ctx.CacheContext()
		cctx = cctx.WithValue(types.TxHash, tmhash.Sum(sdk.Uint64ToBigEndian(txN))).WithValue(types.MsgIndex, int64(0))
		if _, err := h(cctx, msg); err != nil {
			t.Fatal(err)
		}
		write()
	}
	moduleCreate := func(consumer sdk.AccAddress, state types.RequestContextState) tmbytes.HexBytes {
		txN++
		cctx, write := ctx.CacheContext()
		cctx = cctx.WithValue(types.TxHash, tmhash.Sum(sdk.Uint64ToBigEndian(txN))).WithValue(types.MsgIndex, int64(0))
		id, err := k.CreateRequestContext(cctx, "svc", []sdk.AccAddress{provider}, consumer, `{"header":{},"body":{}}`,
			sdk.NewCoins(sdk.NewInt64Coin("stake", 100)), 2, false, true, 2, 5, state, 1, "mod")
		if err != nil {
			t.Fatal(err)
		}
		write()
		return id
	}

	var idA, idB tmbytes.HexBytes
	stateCallbacks := 0
	if err := k.RegisterResponseCallback("mod", func(ctx sdk.Context, id tmbytes.HexBytes, outputs []string, err error) {}); err != nil {
		t.Fatal(err)
	}
	if err := k.RegisterStateCallback("mod", func(ctx sdk.Context, id tmbytes.HexBytes, cause string) {
		stateCallbacks++
		// the module falls back to its other feed
		if err := k.StartRequestContext(ctx, idB, richConsumer); err != nil {
			t.Fatal(err)
		}
	}); err != nil {
		t.Fatal(err)
	}

	deliver(types.NewMsgDefineService("svc", "d", nil, author, "a", `{"input":{"type":"object"},"output":{"type":"object"}}`))
	deliver(types.NewMsgBindService("svc", provider, sdk.NewCoins(sdk.NewInt64Coin("stake", 100000)), `{"price":"2stake"}`, 1, "{}", owner))

	idB = moduleCreate(richConsumer, types.PAUSED)
	idA = moduleCreate(poorConsumer, types.RUNNING)
	if err := app.BankKeeper.SetBalances(ctx, poorConsumer, sdk.NewCoins(sdk.NewInt64Coin("stake", 1))); err != nil {
		t.Fatal(err)
	}

	service.EndBlocker(ctx, k)
	if stateCallbacks != 1 {
		t.Fatalf("expected one state callback, got %d", stateCallbacks)
	}
	rcA, _ := k.GetRequestContext(ctx, idA)
	rcB, _ := k.GetRequestContext(ctx, idB)
	t.Logf("after block 10: A state=%s, B state=%s", rcA.State, rcB.State)

	for i := 0; i < 20; i++ {
		hdr := ctx.BlockHeader()
		hdr.Height++
		hdr.Time = hdr.Time.Add(5 * time.Second)
		ctx = ctx.WithBlockHeader(hdr)
		service.EndBlocker(ctx, k)
	}

	rcB, found := k.GetRequestContext(ctx, idB)
	if !found {
		t.Fatal("B vanished")
	}
	if rcB.State == types.RUNNING && rcB.BatchCounter == 0 {
		t.Fatalf("context B was started by its module at height 10, it is %s and its consumer can pay, "+
			"but 20 blocks later it has issued %d batches (scheduled=%v, in flight=%v): its queue entry of height 10 was never processed",
			rcB.State, rcB.BatchCounter, k.HasNewRequestBatch(ctx, idB), k.HasRequestBatchExpiration(ctx, idB))
	}
}
