module deliver
