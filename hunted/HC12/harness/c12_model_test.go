package service_test

import (
	"os"
	"strconv"
	"bytes"
	"encoding/binary"
	"fmt"
	"math/rand"
	"sort"
	"testing"
	"time"

	"github.com/tendermint/tendermint/crypto/tmhash"
	tmbytes "github.com/tendermint/tendermint/libs/bytes"
	tmproto "github.com/tendermint/tendermint/proto/tendermint/types"

	sdk "github.com/cosmos/cosmos-sdk/types"

	service "github.com/irismod/service"
	simapp "github.com/irismod/service/app"
	"github.com/irismod/service/keeper"
	"github.com/irismod/service/types"
)

const (
	pSvc     = "probe-svc"
	pSchemas = `{"input":{"type":"object"},"output":{"type":"object"}}`
	pInput   = `{"header":{},"body":{}}`
	pOK      = `{"code":200,"message":""}`
	pFail    = `{"code":500,"message":"x"}`
	pModule  = "probemod"
)

type cbRec struct {
	id      string
	batch   uint64
	outputs []string
	isErr   bool
	height  int64
}

type stRec struct {
	id     string
	height int64
}

type rig struct {
	t   *testing.T
	app *simapp.SimApp
	ctx sdk.Context
	k   keeper.Keeper
	h   sdk.Handler
	txN uint64

	author    sdk.AccAddress
	owner     sdk.AccAddress
	consumer  sdk.AccAddress
	providers []sdk.AccAddress

	cbLog []cbRec
	stLog []stRec

	onResp  func(ctx sdk.Context, id tmbytes.HexBytes, outputs []string, err error)
	onState func(ctx sdk.Context, id tmbytes.HexBytes, cause string)

	log []string

	onRevert func()
}

func (r *rig) logf(f string, a ...interface{}) {
	r.log = append(r.log, fmt.Sprintf("[h=%d] ", r.ctx.BlockHeight())+fmt.Sprintf(f, a...))
}

func newRig(t *testing.T, nProviders int) *rig {
	app := simapp.Setup(false)
	ctx := app.BaseApp.NewContext(false, tmproto.Header{Height: 10, Time: time.Unix(1600000000, 0).UTC()})
	r := &rig{t: t, app: app, ctx: ctx, k: app.ServiceKeeper}
	r.k.SetParams(ctx, types.DefaultParams())
	r.h = service.NewHandler(r.k)

	addrs := simapp.AddTestAddrs(app, ctx, 3+nProviders, sdk.NewInt(1000000000))
	r.author, r.owner, r.consumer = addrs[0], addrs[1], addrs[2]
	r.providers = addrs[3:]
	if oddProvider {
		r.providers = append(r.providers, sdk.AccAddress([]byte{1, 2, 3, 4, 5}))
	}

	if err := r.k.RegisterResponseCallback(pModule, func(ctx sdk.Context, id tmbytes.HexBytes, outputs []string, err error) {
		rc, _ := r.k.GetRequestContext(ctx, id)
		r.cbLog = append(r.cbLog, cbRec{id: id.String(), batch: rc.BatchCounter, outputs: append([]string{}, outputs...), isErr: err != nil, height: ctx.BlockHeight()})
		if r.onResp != nil {
			r.onResp(ctx, id, outputs, err)
		}
	}); err != nil {
		t.Fatal(err)
	}
	if err := r.k.RegisterStateCallback(pModule, func(ctx sdk.Context, id tmbytes.HexBytes, cause string) {
		r.stLog = append(r.stLog, stRec{id: id.String(), height: ctx.BlockHeight()})
		if r.onState != nil {
			r.onState(ctx, id, cause)
		}
	}); err != nil {
		t.Fatal(err)
	}

	if err := r.deliver(types.NewMsgDefineService(pSvc, "d", nil, r.author, "a", pSchemas)); err != nil {
		t.Fatal(err)
	}
	for _, p := range r.providers {
		if err := r.deliver(types.NewMsgBindService(pSvc, p, sdk.NewCoins(sdk.NewInt64Coin("stake", 100000)), `{"price":"2stake"}`, 1, "{}", r.owner)); err != nil {
			t.Fatal(err)
		}
	}
	return r
}

// deliver runs a message the way baseapp does
func (r *rig) deliver(msg sdk.Msg) (err error) {
	if err := msg.ValidateBasic(); err != nil {
		return err
	}
	r.txN++
	txHash := tmhash.Sum(sdk.Uint64ToBigEndian(r.txN))
	cctx, write := r.ctx.CacheContext()
	cctx = cctx.WithValue(types.TxHash, txHash).WithValue(types.MsgIndex, int64(0))
	nCb, nSt := len(r.cbLog), len(r.stLog)
	defer func() {
		if rec := recover(); rec != nil {
			err = fmt.Errorf("panic: %v", rec)
		}
		if err != nil {
			r.cbLog, r.stLog = r.cbLog[:nCb], r.stLog[:nSt]
			if r.onRevert != nil {
				r.onRevert()
			}
		}
	}()
	_, err = r.h(cctx, msg)
	if err == nil {
		write()
	}
	return err
}

// deliverMulti runs several messages of one transaction: all or nothing
func (r *rig) deliverMulti(msgs []sdk.Msg) (err error) {
	for _, m := range msgs {
		if err := m.ValidateBasic(); err != nil {
			return err
		}
	}
	r.txN++
	txHash := tmhash.Sum(sdk.Uint64ToBigEndian(r.txN))
	cctx, write := r.ctx.CacheContext()
	nCb, nSt := len(r.cbLog), len(r.stLog)
	defer func() {
		if rec := recover(); rec != nil {
			err = fmt.Errorf("panic: %v", rec)
		}
		if err != nil {
			r.cbLog, r.stLog = r.cbLog[:nCb], r.stLog[:nSt]
			if r.onRevert != nil {
				r.onRevert()
			}
		}
	}()
	for i, m := range msgs {
		if _, err = r.h(cctx.WithValue(types.TxHash, txHash).WithValue(types.MsgIndex, int64(i)), m); err != nil {
			return err
		}
	}
	write()
	return nil
}

// moduleTx runs a keeper call by another module inside its own tx
func (r *rig) moduleTx(f func(ctx sdk.Context) error) (err error) {
	r.txN++
	txHash := tmhash.Sum(sdk.Uint64ToBigEndian(r.txN))
	cctx, write := r.ctx.CacheContext()
	cctx = cctx.WithValue(types.TxHash, txHash).WithValue(types.MsgIndex, int64(0))
	defer func() {
		if rec := recover(); rec != nil {
			err = fmt.Errorf("panic: %v", rec)
		}
	}()
	err = f(cctx)
	if err == nil {
		write()
	}
	return err
}

func (r *rig) lastCtxID() tmbytes.HexBytes {
	return types.GenerateRequestContextID(tmhash.Sum(sdk.Uint64ToBigEndian(r.txN)), 0)
}

func (r *rig) endBlock() {
	service.EndBlocker(r.ctx, r.k)
}

func (r *rig) nextBlock() {
	hdr := r.ctx.BlockHeader()
	hdr.Height++
	hdr.Time = hdr.Time.Add(5 * time.Second)
	r.ctx = r.ctx.WithBlockHeader(hdr)
}

func (r *rig) requestsOf(id tmbytes.HexBytes, batch uint64) (ids []tmbytes.HexBytes) {
	it := r.k.RequestsIteratorByReqCtx(r.ctx, id, batch)
	defer it.Close()
	for ; it.Valid(); it.Next() {
		ids = append(ids, append([]byte{}, it.Key()[1:]...))
	}
	return
}

func (r *rig) responsesOf(id tmbytes.HexBytes, batch uint64) (n int, outputs []string) {
	it := r.k.ResponsesIteratorByReqCtx(r.ctx, id, batch)
	defer it.Close()
	for ; it.Valid(); it.Next() {
		n++
	}
	return n, r.k.GetResponseOutputs(r.ctx, id, batch)
}

func (r *rig) activeOf(id tmbytes.HexBytes, batch uint64) (ids []tmbytes.HexBytes) {
	it := r.k.ActiveRequestsIteratorByReqCtx(r.ctx, id, batch)
	defer it.Close()
	for ; it.Valid(); it.Next() {
		ids = append(ids, append([]byte{}, it.Key()[1:]...))
	}
	return
}

func (r *rig) createModuleCtx(providers []sdk.AccAddress, timeout int64, repeated bool, freq uint64, total int64, threshold uint32, state types.RequestContextState, super bool) (tmbytes.HexBytes, error) {
	var id tmbytes.HexBytes
	err := r.moduleTx(func(ctx sdk.Context) error {
		var e error
		id, e = r.k.CreateRequestContext(ctx, pSvc, providers, r.consumer, pInput, sdk.NewCoins(sdk.NewInt64Coin("stake", 100)), timeout, super, repeated, freq, total, state, threshold, pModule)
		return e
	})
	return id, err
}

func (r *rig) balance(a sdk.AccAddress) sdk.Int {
	return r.app.BankKeeper.GetBalance(r.ctx, a, "stake").Amount
}

func (r *rig) setBalance(a sdk.AccAddress, amt int64) {
	if err := r.app.BankKeeper.SetBalances(r.ctx, a, sdk.NewCoins(sdk.NewInt64Coin("stake", amt))); err != nil {
		r.t.Fatal(err)
	}
}

// ---------------------------------------------------------------------------
// model based random exploration

type mBatch struct {
	threshold uint32
	nReq      int
	accepted  map[string]string // request id -> output
	expiry    int64
	callbacks int
}

type mCtx struct {
	id       tmbytes.HexBytes
	module   bool
	lastSeen uint64
	batches  map[uint64]*mBatch
	gone     bool
}

type fuzz struct {
	*rig
	rnd  *rand.Rand
	ctxs []*mCtx
	errs []string

	cbPaused map[string]bool
	expect   map[string]types.RequestContextState
}

func (f *fuzz) fail(format string, a ...interface{}) {
	f.errs = append(f.errs, fmt.Sprintf("[h=%d] ", f.ctx.BlockHeight())+fmt.Sprintf(format, a...))
}

func (f *fuzz) live() int {
	n := 0
	for _, c := range f.ctxs {
		if rc, found := f.k.GetRequestContext(f.ctx, c.id); found && rc.State != types.COMPLETED {
			n++
		}
	}
	return n
}

func (f *fuzz) find(id tmbytes.HexBytes) *mCtx {
	for _, c := range f.ctxs {
		if bytes.Equal(c.id, id) {
			return c
		}
	}
	return nil
}

// observe looks at the store and records newly started batches
func (f *fuzz) observe() {
	for _, c := range f.ctxs {
		if c.gone {
			continue
		}
		rc, found := f.k.GetRequestContext(f.ctx, c.id)
		if !found {
			c.gone = true
			continue
		}
		if rc.BatchCounter > c.lastSeen {
			if rc.BatchCounter != c.lastSeen+1 {
				f.fail("ctx %s batch counter jumped %d -> %d", c.id, c.lastSeen, rc.BatchCounter)
			}
			c.lastSeen = rc.BatchCounter
			c.batches[rc.BatchCounter] = &mBatch{
				threshold: rc.BatchResponseThreshold,
				nReq:      len(f.requestsOf(c.id, rc.BatchCounter)),
				accepted:  map[string]string{},
				expiry:    f.ctx.BlockHeight() + rc.Timeout,
			}
		}
	}
}

func (f *fuzz) check(where string) {
	for ids, st := range f.expect {
		for _, c := range f.ctxs {
			if c.id.String() != ids {
				continue
			}
			rc, found := f.k.GetRequestContext(f.ctx, c.id)
			if !found {
				continue
			}
			if rc.State != st {
				paidPause := false
				for _, s := range f.stLog {
					if s.id == ids && s.height == f.ctx.BlockHeight() {
						paidPause = true
					}
				}
				if !(paidPause && rc.State == types.PAUSED) {
					f.fail("%s: ctx %s state %v, but the module's last operation left it %v", where, c.id, rc.State, st)
				}
			}
		}
	}
	f.expect = map[string]types.RequestContextState{}
	for _, c := range f.ctxs {
		rc, found := f.k.GetRequestContext(f.ctx, c.id)
		// callbacks
		if c.module {
			for b, mb := range c.batches {
				n := 0
				var rec cbRec
				for _, cb := range f.cbLog {
					if cb.id == c.id.String() && cb.batch == b {
						n++
						rec = cb
					}
				}
				completed := !found || b < rc.BatchCounter || rc.BatchState == types.BATCHCOMPLETED
				want := 0
				if completed {
					want = 1
				}
				if n != want {
					f.fail("%s: ctx %s batch %d: %d response callbacks, want %d (found=%v state=%v bstate=%v)", where, c.id, b, n, want, found, rc.State, rc.BatchState)
				}
				if n == 1 {
					var exp []string
					keys := []string{}
					for k := range mb.accepted {
						keys = append(keys, k)
					}
					sort.Strings(keys)
					for _, k := range keys {
						if mb.accepted[k] != "" {
							exp = append(exp, mb.accepted[k])
						}
					}
					if fmt.Sprint(exp) != fmt.Sprint(rec.outputs) {
						f.fail("%s: ctx %s batch %d: callback outputs %v, want %v", where, c.id, b, rec.outputs, exp)
					}
					if rec.isErr != (len(rec.outputs) < int(mb.threshold)) {
						f.fail("%s: ctx %s batch %d: callback err=%v with %d outputs threshold %d", where, c.id, b, rec.isErr, len(rec.outputs), mb.threshold)
					}
				}
			}
		}
		if !found {
			continue
		}
		if rc.BatchCounter == 0 {
			continue
		}
		mb := c.batches[rc.BatchCounter]
		if mb == nil {
			continue
		}
		inFlight := f.k.HasRequestBatchExpiration(f.ctx, c.id)
		if int(rc.BatchRequestCount) != mb.nReq {
			f.fail("%s: ctx %s batch %d: recorded request count %d, issued %d", where, c.id, rc.BatchCounter, rc.BatchRequestCount, mb.nReq)
		}
		if int(rc.BatchResponseCount) != len(mb.accepted) {
			f.fail("%s: ctx %s batch %d: recorded response count %d, accepted %d", where, c.id, rc.BatchCounter, rc.BatchResponseCount, len(mb.accepted))
		}
		allAnswered := mb.nReq > 0 && len(mb.accepted) == mb.nReq
		expired := !inFlight
		wantCompleted := allAnswered || expired
		if (rc.BatchState == types.BATCHCOMPLETED) != wantCompleted {
			f.fail("%s: ctx %s batch %d: batch state %v, want completed=%v (nReq=%d acc=%d inFlight=%v expiry=%d)", where, c.id, rc.BatchCounter, rc.BatchState, wantCompleted, mb.nReq, len(mb.accepted), inFlight, mb.expiry)
		}
		if rc.BatchState == types.BATCHCOMPLETED && !allAnswered && (f.ctx.BlockHeight() < mb.expiry || (f.ctx.BlockHeight() == mb.expiry && where == "after tx")) {
			f.fail("%s: ctx %s batch %d completed before its expiry %d with %d/%d answers", where, c.id, rc.BatchCounter, mb.expiry, len(mb.accepted), mb.nReq)
		}
		if inFlight && f.ctx.BlockHeight() > mb.expiry {
			f.fail("%s: ctx %s batch %d still in flight after expiry %d", where, c.id, rc.BatchCounter, mb.expiry)
		}
		// stuck detection (liveness, informational)
		if rc.State == types.RUNNING && !inFlight && !f.k.HasNewRequestBatch(f.ctx, c.id) {
			f.fail("%s: ctx %s RUNNING but neither in flight nor scheduled", where, c.id)
		}
	}
}

func (f *fuzz) randProviders() []sdk.AccAddress {
	n := 1 + f.rnd.Intn(len(f.providers))
	perm := f.rnd.Perm(len(f.providers))
	var ps []sdk.AccAddress
	for _, i := range perm[:n] {
		ps = append(ps, f.providers[i])
	}
	return ps
}

func (f *fuzz) moduleOp(ctx sdk.Context, id tmbytes.HexBytes, op int) (err error) {
	defer func() {
		if err == nil && f.expect != nil {
			switch op {
			case 0:
				f.expect[id.String()] = types.PAUSED
			case 1:
				f.expect[id.String()] = types.RUNNING
			case 2:
				f.expect[id.String()] = types.COMPLETED
			}
		}
	}()
	switch op {
	case 0:
		err := f.k.PauseRequestContext(ctx, id, f.consumer)
		if err == nil && f.cbPaused != nil {
			f.cbPaused[id.String()] = true
		}
		return err
	case 1:
		return f.k.StartRequestContext(ctx, id, f.consumer)
	case 2:
		return f.k.KillRequestContext(ctx, id, f.consumer)
	case 3:
		ps := f.randProviders()
		return f.k.UpdateRequestContext(ctx, id, ps, uint32(1+f.rnd.Intn(len(ps))), nil, 0, 0, 0, f.consumer)
	case 4:
		t := int64(1 + f.rnd.Intn(4))
		return f.k.UpdateRequestContext(ctx, id, nil, 0, nil, t, uint64(t)+uint64(f.rnd.Intn(3)), 0, f.consumer)
	case 5:
		return f.k.UpdateRequestContext(ctx, id, nil, 0, nil, 0, 0, int64(1+f.rnd.Intn(6)), f.consumer)
	}
	return nil
}

func runFuzz(t *testing.T, seed int64, blocks int) []string {
	r := newRig(t, nProv())
	f := &fuzz{rig: r, rnd: rand.New(rand.NewSource(seed))}

	r.onRevert = func() { f.expect = map[string]types.RequestContextState{} }
	r.onResp = func(ctx sdk.Context, id tmbytes.HexBytes, outputs []string, err error) {
		if ctx.Context().Value(types.TxHash) != nil && f.rnd.Intn(4) == 0 && f.live() < 8 {
			ps := f.randProviders()
			nid, e := f.k.CreateRequestContext(ctx, pSvc, ps, f.consumer, pInput, sdk.NewCoins(sdk.NewInt64Coin("stake", 100)), 2, false, true, 2, 3, types.RUNNING, 1, pModule)
			f.logf("  respcb(%s) creates ctx %v: %v", id.String()[:6], nid, e)
			if e == nil {
				f.ctxs = append(f.ctxs, &mCtx{id: nid, module: true, batches: map[uint64]*mBatch{}})
			}
		}
		if f.rnd.Intn(3) == 0 {
			target := id
			if f.rnd.Intn(3) == 0 && len(f.ctxs) > 0 {
				c := f.ctxs[f.rnd.Intn(len(f.ctxs))]
				if c.module {
					target = c.id
				}
			}
			op := f.rnd.Intn(6)
			e := f.moduleOp(ctx, target, op)
			f.logf("  respcb(%s) op %d on %s: %v", id.String()[:6], op, target.String()[:6], e)
		}
	}
	r.onState = func(ctx sdk.Context, id tmbytes.HexBytes, cause string) {
		if f.rnd.Intn(2) == 0 {
			target := id
			if f.rnd.Intn(3) == 0 && len(f.ctxs) > 0 {
				c := f.ctxs[f.rnd.Intn(len(f.ctxs))]
				if c.module {
					target = c.id
				}
			}
			op := f.rnd.Intn(6)
			if f.rnd.Intn(2) == 0 {
				op = 1
			}
			if op == 1 && !bytes.Equal(target, id) {
				op = 0 // known: starting ANOTHER context from the state callback leaves a stale queue entry
			}
			e := f.moduleOp(ctx, target, op)
			f.logf("  statecb(%s) op %d on %s: %v", id.String()[:6], op, target.String()[:6], e)
		}
	}

	for b := 0; b < blocks; b++ {
		nOps := f.rnd.Intn(10)
		for i := 0; i < nOps; i++ {
			switch f.rnd.Intn(11 + f.rnd.Intn(6)) {
			case 0: // create module ctx
				if f.live() > 5 {
					break
				}
				ps := f.randProviders()
				timeout := int64(1 + f.rnd.Intn(4))
				repeated := f.rnd.Intn(4) != 0
				freq := uint64(0)
				total := int64(0)
				if repeated {
					if f.rnd.Intn(2) == 0 {
						freq = uint64(timeout) + uint64(f.rnd.Intn(3))
					}
					total = int64(1 + f.rnd.Intn(4))
					if f.rnd.Intn(5) == 0 {
						total = -1
					}
				}
				st := types.RUNNING
				if f.rnd.Intn(5) == 0 {
					st = types.PAUSED
				}
				id, err := f.createModuleCtx(ps, timeout, repeated, freq, total, uint32(1+f.rnd.Intn(len(ps))), st, f.rnd.Intn(6) == 0)
				f.logf("create module ctx %v providers=%d timeout=%d rep=%v freq=%d total=%d: %v", id, len(ps), timeout, repeated, freq, total, err)
				if err == nil {
					f.ctxs = append(f.ctxs, &mCtx{id: id, module: true, batches: map[uint64]*mBatch{}})
				}
			case 1: // create user ctx
				if f.live() > 5 {
					break
				}
				ps := f.randProviders()
				timeout := int64(1 + f.rnd.Intn(4))
				repeated := f.rnd.Intn(3) != 0
				freq := uint64(0)
				total := int64(0)
				if repeated {
					freq = uint64(timeout) + uint64(f.rnd.Intn(3))
					total = int64(1 + f.rnd.Intn(4))
				}
				err := f.deliver(types.NewMsgCallService(pSvc, ps, f.consumer, pInput, sdk.NewCoins(sdk.NewInt64Coin("stake", 100)), timeout, false, repeated, freq, total))
				f.logf("create user ctx: %v", err)
				if err == nil {
					f.ctxs = append(f.ctxs, &mCtx{id: f.lastCtxID(), batches: map[uint64]*mBatch{}})
				}
			case 2, 3, 4, 5, 11, 12, 13, 14, 15, 16: // respond
				if len(f.ctxs) == 0 {
					break
				}
				var cands []*mCtx
				for _, cc := range f.ctxs {
					if rcc, ok := f.k.GetRequestContext(f.ctx, cc.id); ok && len(f.activeOf(cc.id, rcc.BatchCounter)) > 0 {
						cands = append(cands, cc)
					}
				}
				if len(cands) == 0 {
					break
				}
				c := cands[f.rnd.Intn(len(cands))]
				rc, _ := f.k.GetRequestContext(f.ctx, c.id)
				reqs := f.activeOf(c.id, rc.BatchCounter)
				if f.rnd.Intn(6) == 0 {
					reqs = f.requestsOf(c.id, rc.BatchCounter)
				}
				rid := reqs[f.rnd.Intn(len(reqs))]
				req, _ := f.k.GetRequest(f.ctx, rid)
				result, output := pOK, `{"header":{},"body":{"r":"`+fmt.Sprint(f.txN)+`"}}`
				switch f.rnd.Intn(4) {
				case 0:
					result, output = pFail, ""
				case 1:
					output = `{"body":{"bad":` + fmt.Sprint(f.txN) + `}}`
				}
				prov := req.Provider
				if f.rnd.Intn(8) == 0 {
					prov = f.providers[f.rnd.Intn(len(f.providers))]
				}
				if len(prov) != 20 {
					break
				}
				wasActive := f.k.IsRequestActive(f.ctx, rid)
				var err error
				if f.rnd.Intn(5) == 0 {
					// the response is followed by a second message of the same tx that may fail
					second := sdk.Msg(types.NewMsgPauseRequestContext(c.id, f.consumer))
					if f.rnd.Intn(2) == 0 {
						second = types.NewMsgSetWithdrawAddress(f.owner, f.owner)
					}
					err = f.deliverMulti([]sdk.Msg{types.NewMsgRespondService(rid, prov, result, output), second})
				} else {
					err = f.deliver(types.NewMsgRespondService(rid, prov, result, output))
				}
				f.logf("respond %s/%d idx %x by right=%v out=%q: %v", c.id.String()[:6], rc.BatchCounter, rid[56:], prov.Equals(req.Provider), output, err)
				if err == nil {
					if !wasActive {
						f.fail("response accepted for inactive request")
					}
					mb := c.batches[rc.BatchCounter]
					if mb == nil {
						f.fail("response accepted for unobserved batch")
					} else {
						if _, dup := mb.accepted[string(rid)]; dup {
							f.fail("second response accepted for a request")
						}
						mb.accepted[string(rid)] = output
					}
				}
			case 6, 7: // module op
				if len(f.ctxs) == 0 {
					break
				}
				c := f.ctxs[f.rnd.Intn(len(f.ctxs))]
				op := f.rnd.Intn(6)
				var err error
				if c.module {
					err = f.moduleTx(func(ctx sdk.Context) error { return f.moduleOp(ctx, c.id, op) })
				} else {
					switch op {
					case 0:
						err = f.deliver(types.NewMsgPauseRequestContext(c.id, f.consumer))
					case 1:
						err = f.deliver(types.NewMsgStartRequestContext(c.id, f.consumer))
					case 2:
						err = f.deliver(types.NewMsgKillRequestContext(c.id, f.consumer))
					case 3:
						err = f.deliver(types.NewMsgUpdateRequestContext(c.id, f.randProviders(), nil, 0, 0, 0, f.consumer))
					case 4:
						t := int64(1 + f.rnd.Intn(4))
						err = f.deliver(types.NewMsgUpdateRequestContext(c.id, nil, nil, t, uint64(t)+uint64(f.rnd.Intn(3)), 0, f.consumer))
					case 5:
						err = f.deliver(types.NewMsgUpdateRequestContext(c.id, nil, nil, 0, 0, int64(1+f.rnd.Intn(6)), f.consumer))
					}
				}
				f.logf("op %d on %s (module=%v): %v", op, c.id.String()[:6], c.module, err)
			case 8: // drain / fund consumer
				if f.rnd.Intn(3) == 0 {
					f.setBalance(f.consumer, int64(f.rnd.Intn(6)))
					f.logf("consumer drained to %s", f.balance(f.consumer))
				} else {
					f.setBalance(f.consumer, 1000000)
					f.logf("consumer funded")
				}
			case 9: // binding ops
				p := f.providers[f.rnd.Intn(len(f.providers))]
				var err error
				switch f.rnd.Intn(4) {
				case 0:
					err = f.deliver(types.NewMsgDisableServiceBinding(pSvc, p, f.owner))
				case 1:
					err = f.deliver(types.NewMsgEnableServiceBinding(pSvc, p, sdk.NewCoins(sdk.NewInt64Coin("stake", 100)), f.owner))
				case 2:
					err = f.deliver(types.NewMsgUpdateServiceBinding(pSvc, p, nil, fmt.Sprintf(`{"price":"%dstake"}`, 1+f.rnd.Intn(3)), 0, "{}", f.owner))
				case 3:
					err = f.deliver(types.NewMsgUpdateServiceBinding(pSvc, p, nil, "", uint64(1+f.rnd.Intn(4)), "{}", f.owner))
				}
				f.logf("binding op on %s: %v", p.String()[4:10], err)
			case 10: // governance
				ps := f.k.GetParams(f.ctx)
				switch f.rnd.Intn(4) {
				case 0:
					ps.MaxRequestTimeout = int64(1 + f.rnd.Intn(100))
				case 1:
					ps.SlashFraction = sdk.NewDecWithPrec(int64(f.rnd.Intn(30)), 3)
				case 2:
					ps.ServiceFeeTax = sdk.NewDecWithPrec(int64(f.rnd.Intn(1000)), 3)
				case 3:
					ps.MinDepositMultiple = int64(1 + f.rnd.Intn(6000))
				}
				f.k.SetParams(f.ctx, ps)
				f.logf("params changed")
			}
			f.observe()
			f.check("after tx")
			if len(f.errs) > 0 {
				return append(f.errs, f.log[max0(len(f.log)-60):]...)
			}
		}
		f.logf("--- end block")
		before := map[string]types.RequestContextState{}
		for _, c := range f.ctxs {
			if rc, ok := f.k.GetRequestContext(f.ctx, c.id); ok && c.module {
				before[c.id.String()] = rc.State
			}
		}
		f.cbPaused = map[string]bool{}
		nSt := len(f.stLog)
		f.endBlock()
		f.observe()
		f.check("after endblock")
		for _, c := range f.ctxs {
			rc, ok := f.k.GetRequestContext(f.ctx, c.id)
			if !ok || !c.module {
				continue
			}
			if before[c.id.String()] == types.RUNNING && rc.State == types.PAUSED && !f.cbPaused[c.id.String()] {
				n := 0
				for _, s := range f.stLog[nSt:] {
					if s.id == c.id.String() {
						n++
					}
				}
				if n != 1 {
					f.fail("ctx %s paused in EndBlocker with %d state callbacks", c.id, n)
				}
			}
		}
		f.k.IterateNewRequestBatch(f.ctx, f.ctx.BlockHeight(), func(id tmbytes.HexBytes, rc types.RequestContext) {
			f.fail("stale new-batch entry for %s at height %d (state %v)", id, f.ctx.BlockHeight(), rc.State)
		})
		f.k.IterateExpiredRequestBatch(f.ctx, f.ctx.BlockHeight(), func(id tmbytes.HexBytes, rc types.RequestContext) {
			f.fail("stale expiry entry for %s at height %d (state %v)", id, f.ctx.BlockHeight(), rc.State)
		})
		if len(f.errs) > 0 {
			return append(f.errs, f.log[max0(len(f.log)-60):]...)
		}
		f.nextBlock()
	}
	nb, na, nskip, nfull := 0, 0, 0, 0
	for _, c := range f.ctxs {
		nb += len(c.batches)
		for _, b := range c.batches {
			na += len(b.accepted)
			if b.nReq == 0 {
				nskip++
			} else if len(b.accepted) == b.nReq {
				nfull++
			}
		}
	}
	statLine = fmt.Sprintf("ctxs=%d batches=%d skipped=%d fullyAnswered=%d accepted=%d respcb=%d statecb=%d", len(f.ctxs), nb, nskip, nfull, na, len(f.cbLog), len(f.stLog))
	if dumpLog {
		fmt.Println(joinLines(f.log))
	}
	return nil
}

var oddProvider = true
var statLine string
var dumpLog bool

func max0(i int) int {
	if i < 0 {
		return 0
	}
	return i
}

func TestProbeFuzz(t *testing.T) {
	for seed := seed0(); seed < seed0()+nSeeds(); seed++ {
		errs := runFuzz(t, seed, 60)
		if len(errs) > 0 {
			t.Errorf("seed %d:\n%s", seed, joinLines(errs))
			return
		}
		if seed%20 == 0 {
			t.Log(statLine)
		}
	}
}

func joinLines(ss []string) string {
	var b bytes.Buffer
	for _, s := range ss {
		b.WriteString(s)
		b.WriteString("\n")
	}
	return b.String()
}

var _ = binary.BigEndian

func nSeeds() int64 {
	if v := os.Getenv("PROBE_SEEDS"); v != "" {
		n, _ := strconv.Atoi(v)
		return int64(n)
	}
	return 300
}

func nProv() int {
	if v := os.Getenv("PROBE_PROV"); v != "" {
		n, _ := strconv.Atoi(v)
		return n
	}
	return 4
}

func seed0() int64 {
	if v := os.Getenv("PROBE_SEED0"); v != "" {
		n, _ := strconv.Atoi(v)
		return int64(n)
	}
	return 1
}
