module deliver
