package service_test

import (
	"fmt"
	"testing"
	"time"

	gogotypes "github.com/gogo/protobuf/types"
	"github.com/stretchr/testify/require"

	"github.com/tendermint/tendermint/crypto/tmhash"
	tmbytes "github.com/tendermint/tendermint/libs/bytes"
	tmproto "github.com/tendermint/tendermint/proto/tendermint/types"

	sdk "github.com/cosmos/cosmos-sdk/types"

	service "github.com/irismod/service"
	simapp "github.com/irismod/service/app"
	"github.com/irismod/service/types"
)

func TestCallbacksC13(t *testing.T) {
	app := simapp.Setup(false)
	ctx := app.BaseApp.NewContext(false, tmproto.Header{Height: 1, Time: time.Unix(1600000000, 0).UTC()})
	k := app.ServiceKeeper
	k.SetParams(ctx, types.DefaultParams())
	h := service.NewHandler(k)
	addrs := simapp.AddTestAddrs(app, ctx, 8, sdk.NewInt(1000000000))
	o1, o2, p1, p2, p3, cons, author := addrs[0], addrs[1], addrs[2], addrs[3], addrs[4], addrs[5], addrs[6]
	txNo := 0
	deliver := func(msg sdk.Msg) error {
		require.NoError(t, msg.ValidateBasic())
		txNo++
		c := ctx.WithValue(types.TxHash, tmhash.Sum([]byte(fmt.Sprintf("tx-%d", txNo)))).WithValue(types.MsgIndex, int64(0))
		cc, write := c.CacheContext()
		_, err := h(cc, msg)
		if err == nil {
			write()
		}
		return err
	}
	require.NoError(t, deliver(types.NewMsgDefineService("svc", "", nil, author, "", `{"input":{"type":"object"},"output":{"type":"object"}}`)))
	dep := sdk.NewCoins(sdk.NewInt64Coin("stake", 10000))
	require.NoError(t, deliver(types.NewMsgBindService("svc", p1, dep, `{"price":"10stake"}`, 1, "{}", o1)))
	require.NoError(t, deliver(types.NewMsgBindService("svc", p2, dep, `{"price":"20stake"}`, 1, "{}", o1)))
	require.NoError(t, deliver(types.NewMsgBindService("svc", p3, dep, `{"price":"30stake"}`, 1, "{}", o2)))

	var rcID tmbytes.HexBytes
	n := 0
	require.NoError(t, k.RegisterResponseCallback("m", func(c sdk.Context, id tmbytes.HexBytes, outs []string, err error) {
		n++
		switch n % 4 {
		case 0:
			_ = k.PauseRequestContext(c, id, cons)
		case 1:
			_ = k.UpdateRequestContext(c, id, []sdk.AccAddress{p1, p3}, 1, nil, 0, 0, 0, cons)
		case 2:
			_ = k.PauseRequestContext(c, id, cons)
			_ = k.StartRequestContext(c, id, cons)
		case 3:
			_, _ = k.CreateRequestContext(c.WithValue(types.TxHash, tmhash.Sum([]byte(fmt.Sprintf("cb-%d", n)))).WithValue(types.MsgIndex, int64(0)), "svc", []sdk.AccAddress{p2, p3}, cons, `{"header":{},"body":{}}`, sdk.NewCoins(sdk.NewInt64Coin("stake", 100)), 3, false, true, 3, 5, types.RUNNING, 1, "m")
		}
	}))
	require.NoError(t, k.RegisterStateCallback("m", func(c sdk.Context, id tmbytes.HexBytes, cause string) {
		_ = k.StartRequestContext(c, id, cons)
	}))
	var err error
	rcID, err = k.CreateRequestContext(ctx.WithValue(types.TxHash, tmhash.Sum([]byte("mod"))).WithValue(types.MsgIndex, int64(0)), "svc", []sdk.AccAddress{p1, p2, p3}, cons, `{"header":{},"body":{}}`, sdk.NewCoins(sdk.NewInt64Coin("stake", 100)), 3, false, true, 3, -1, types.RUNNING, 2, "m")
	require.NoError(t, err)
	_ = rcID

	earn := map[string]int64{}
	owner := map[string]sdk.AccAddress{string(p1): o1, string(p2): o1, string(p3): o2}
	check := func() {
		sums := map[string]int64{}
		for _, p := range []sdk.AccAddress{p1, p2, p3} {
			got, _ := k.GetEarnedFees(ctx, p)
			require.Equal(t, earn[string(p)], got.AmountOf("stake").Int64())
			sums[string(owner[string(p)])] += earn[string(p)]
		}
		for _, o := range []sdk.AccAddress{o1, o2} {
			got, _ := k.GetOwnerEarnedFees(ctx, o)
			require.Equal(t, sums[string(o)], got.AmountOf("stake").Int64())
		}
	}
	for blk := 0; blk < 60; blk++ {
		service.EndBlocker(ctx, k)
		ctx = ctx.WithBlockHeight(ctx.BlockHeight() + 1)
		for i, p := range []sdk.AccAddress{p1, p2, p3} {
			if (blk+i)%3 == 0 {
				continue
			}
			it := k.ActiveRequestsIterator(ctx, "svc", p)
			var ids []tmbytes.HexBytes
			for ; it.Valid(); it.Next() {
				var id gogotypes.BytesValue
				app.AppCodec().MustUnmarshalBinaryBare(it.Value(), &id)
				ids = append(ids, id.Value)
			}
			it.Close()
			for _, id := range ids {
				req, _ := k.GetRequest(ctx, id)
				if deliver(types.NewMsgRespondService(id, p, `{"code":200,"message":""}`, `{"header":{},"body":{}}`)) == nil {
					f := req.ServiceFee.AmountOf("stake").Int64()
					earn[string(p)] += f - f/10
				}
			}
			check()
		}
		if blk%7 == 3 {
			pre := app.BankKeeper.GetBalance(ctx, o1, "stake").Amount.Int64()
			require.NoError(t, deliver(types.NewMsgWithdrawEarnedFees(o1, p2)))
			require.Equal(t, pre+earn[string(p2)], app.BankKeeper.GetBalance(ctx, o1, "stake").Amount.Int64())
			earn[string(p2)] = 0
			check()
		}
		if blk%11 == 5 {
			pre := app.BankKeeper.GetBalance(ctx, o1, "stake").Amount.Int64()
			require.NoError(t, deliver(types.NewMsgWithdrawEarnedFees(o1, nil)))
			require.Equal(t, pre+earn[string(p1)]+earn[string(p2)], app.BankKeeper.GetBalance(ctx, o1, "stake").Amount.Int64())
			earn[string(p1)], earn[string(p2)] = 0, 0
			check()
		}
	}
	t.Logf("earn %v callbacks %d", earn, n)
}
