package service_test

import (
	"fmt"
	"math/rand"
	"testing"
	"time"

	gogotypes "github.com/gogo/protobuf/types"
	"github.com/stretchr/testify/require"

	"github.com/tendermint/tendermint/crypto/tmhash"
	abci "github.com/tendermint/tendermint/abci/types"
	tmbytes "github.com/tendermint/tendermint/libs/bytes"
	tmproto "github.com/tendermint/tendermint/proto/tendermint/types"

	sdk "github.com/cosmos/cosmos-sdk/types"

	service "github.com/irismod/service"
	simapp "github.com/irismod/service/app"
	"github.com/irismod/service/keeper"
	"github.com/irismod/service/types"
)

type world struct {
	t     *testing.T
	app   *simapp.SimApp
	k     keeper.Keeper
	ctx   sdk.Context
	h     sdk.Handler
	txNo  int
	rnd   *rand.Rand
	owner map[string]sdk.AccAddress // provider -> owner
	earn  map[string]sdk.Int        // provider -> earned
	wa    map[string]sdk.AccAddress // owner -> withdraw addr
	provs []sdk.AccAddress
	owns  []sdk.AccAddress
	cons  []sdk.AccAddress
	was   []sdk.AccAddress
	svcs  []string
	log   []string
}

func (w *world) deliver(msg sdk.Msg) (err error) {
	if e := msg.ValidateBasic(); e != nil {
		return e
	}
	w.txNo++
	ctx := w.ctx.WithValue(types.TxHash, tmhash.Sum([]byte(fmt.Sprintf("tx-%d", w.txNo)))).WithValue(types.MsgIndex, int64(0))
	cctx, write := ctx.CacheContext()
	defer func() {
		if r := recover(); r != nil {
			err = fmt.Errorf("panic: %v", r)
		}
	}()
	_, err = w.h(cctx, msg)
	if err == nil {
		write()
	}
	return err
}

func (w *world) bal(a sdk.AccAddress) sdk.Int {
	return w.app.BankKeeper.GetBalance(w.ctx, a, "stake").Amount
}

func (w *world) check(where string) {
	sums := map[string]sdk.Int{}
	for _, o := range w.owns {
		sums[string(o)] = sdk.ZeroInt()
	}
	for _, p := range w.provs {
		exp, ok := w.earn[string(p)]
		if !ok {
			exp = sdk.ZeroInt()
		}
		got, _ := w.k.GetEarnedFees(w.ctx, p)
		if !got.AmountOf("stake").Equal(exp) {
			w.t.Fatalf("%s: provider %X earned %s, expected %s\nlog:\n%v", where, []byte(p), got, exp, w.log)
		}
		if o, ok := w.owner[string(p)]; ok {
			sums[string(o)] = sums[string(o)].Add(exp)
		}
	}
	for _, o := range w.owns {
		got, _ := w.k.GetOwnerEarnedFees(w.ctx, o)
		if !got.AmountOf("stake").Equal(sums[string(o)]) {
			w.t.Fatalf("%s: owner %X earned %s, expected %s\nlog:\n%v", where, []byte(o), got, sums[string(o)], w.log)
		}
		exp := o
		if a, ok := w.wa[string(o)]; ok {
			exp = a
		}
		if !w.k.GetWithdrawAddress(w.ctx, o).Equals(exp) {
			w.t.Fatalf("%s: owner %X withdraw address wrong", where, []byte(o))
		}
	}
}

func (w *world) logf(f string, a ...interface{}) {
	w.log = append(w.log, fmt.Sprintf(f, a...)+"\n")
}

func runFuzz(t *testing.T, seed int64, steps int) {
	app := simapp.Setup(false)
	hdr0 := tmproto.Header{Height: startHeight(), Time: time.Unix(1600000000, 0).UTC()}
	if commitMode {
		app.Commit()
		app.BeginBlock(abci.RequestBeginBlock{Header: hdr0})
	}
	ctx := app.BaseApp.NewContext(false, hdr0)
	k := app.ServiceKeeper
	k.SetParams(ctx, types.DefaultParams())
	rnd := rand.New(rand.NewSource(seed))
	addrs := simapp.AddTestAddrs(app, ctx, 14, sdk.NewInt(1000000000))
	w := &world{t: t, app: app, k: k, ctx: ctx, h: service.NewHandler(k), rnd: rnd,
		owner: map[string]sdk.AccAddress{}, earn: map[string]sdk.Int{}, wa: map[string]sdk.AccAddress{}}
	w.owns = addrs[0:3]
	w.provs = addrs[3:10]
	w.cons = addrs[10:12]
	// owners can be providers too
	w.provs = append(w.provs, addrs[0], addrs[1])
	w.was = []sdk.AccAddress{addrs[12], addrs[13], addrs[0], addrs[1], addrs[3], addrs[10],
		sdk.AccAddress([]byte{1}), sdk.AccAddress([]byte{1, 2}), sdk.AccAddress(append(append([]byte{}, addrs[0]...), 7)),
		sdk.AccAddress(addrs[1][:19])}
	if commitMode {
		w.was = w.was[:6]
	}
	w.svcs = []string{"svc", "svcb", "s"}
	author := addrs[12]
	for _, s := range w.svcs {
		require.NoError(t, w.deliver(types.NewMsgDefineService(s, "", nil, author, "", `{"input":{"type":"object"},"output":{"type":"object"}}`)))
	}

	pick := func(l []sdk.AccAddress) sdk.AccAddress { return l[rnd.Intn(len(l))] }

	// module services with providers of odd lengths
	odd := []sdk.AccAddress{{0xAA}, {0xAA, 's'}, append([]byte{0xAA}, []byte("stake")...), append(append([]byte{}, addrs[3]...), 1), addrs[4][:19], append(append([]byte{}, addrs[0]...), addrs[5]...)}
	msvcs := []string{"m0", "m1", "m2", "m3", "m4", "m5"}
	for i, s := range msvcs {
		require.NoError(t, w.deliver(types.NewMsgDefineService(s, "", nil, author, "", `{"input":{"type":"object"},"output":{"type":"object"}}`)))
		o := pick(w.owns)
		require.NoError(t, w.deliver(types.NewMsgBindService(s, odd[i], sdk.NewCoins(sdk.NewInt64Coin("stake", 10000)), fmt.Sprintf(`{"price":"%dstake"}`, 3+i), 1, "{}", o)))
		w.owner[string(odd[i])] = o
		w.provs = append(w.provs, odd[i])
		require.NoError(t, k.RegisterModuleService(fmt.Sprintf("mod%d", i), &types.ModuleService{ServiceName: s, Provider: odd[i], ReuquestService: func(ctx sdk.Context, input string) (string, string) {
			return `{"code":200,"message":""}`, `{"header":{},"body":{}}`
		}}))
	}

	for step := 0; step < steps; step++ {
		switch op := rnd.Intn(12); op {

		case 0: // bind
			o, p, s := pick(w.owns), pick(w.provs), w.svcs[rnd.Intn(len(w.svcs))]
			price := []string{"1", "2", "3", "7", "10", "33", "0", "1.5"}[rnd.Intn(8)]
			pricing := fmt.Sprintf(`{"price":"%sstake"}`, price)
			if rnd.Intn(3) == 0 {
				pricing = fmt.Sprintf(`{"price":"%sstake","promotions_by_volume":[{"volume":1,"discount":"0.5"},{"volume":3,"discount":"0.33"}]}`, price)
			}
			err := w.deliver(types.NewMsgBindService(s, p, sdk.NewCoins(sdk.NewInt64Coin("stake", 10000)), pricing, 1, "{}", o))
			w.logf("bind %s o=%X p=%X price=%s err=%v", s, []byte(o), []byte(p), price, err)
			if err == nil {
				if _, ok := w.owner[string(p)]; !ok {
					w.owner[string(p)] = o
				}
			}
		case 1: // module call
			i := rnd.Intn(len(msvcs))
			tax := w.k.ServiceFeeTax(w.ctx)
			err := w.deliver(types.NewMsgCallService(msvcs[i], []sdk.AccAddress{odd[i]}, pick(w.cons), `{"header":{},"body":{}}`, sdk.NewCoins(sdk.NewInt64Coin("stake", 100)), 1, false, false, 0, 0))
			w.logf("modcall %d err=%v", i, err)
			if err == nil {
				fee := sdk.NewInt(int64(3 + i))
				e := fee.Sub(sdk.NewDecFromInt(fee).Mul(tax).TruncateInt())
				cur, ok := w.earn[string(odd[i])]
				if !ok {
					cur = sdk.ZeroInt()
				}
				w.earn[string(odd[i])] = cur.Add(e)
			}
		case 2: // call
			n := 1 + rnd.Intn(4)
			ps := []sdk.AccAddress{}
			seen := map[string]bool{}
			for i := 0; i < n; i++ {
				p := pick(w.provs)
				if !seen[string(p)] {
					seen[string(p)] = true
					ps = append(ps, p)
				}
			}
			repeated := rnd.Intn(2) == 0
			timeout := int64(1 + rnd.Intn(6))
			msg := types.NewMsgCallService(w.svcs[rnd.Intn(len(w.svcs))], ps, pick(w.cons), `{"header":{},"body":{}}`,
				sdk.NewCoins(sdk.NewInt64Coin("stake", int64(1+rnd.Intn(40)))), timeout, rnd.Intn(6) == 0, repeated, uint64(timeout)+uint64(rnd.Intn(2)), int64(1+rnd.Intn(3)))
			err := w.deliver(msg)
			w.logf("call n=%d err=%v", len(ps), err)
		case 3: // end block
			if commitMode {
				app.EndBlock(abci.RequestEndBlock{Height: w.ctx.BlockHeight()})
				app.Commit()
				hdr := tmproto.Header{Height: w.ctx.BlockHeight() + 1, Time: w.ctx.BlockTime().Add(5 * time.Second)}
				app.BeginBlock(abci.RequestBeginBlock{Header: hdr})
				w.ctx = app.BaseApp.NewContext(false, hdr)
			} else {
				service.EndBlocker(w.ctx, w.k)
				w.ctx = w.ctx.WithBlockHeight(w.ctx.BlockHeight() + 1).WithBlockTime(w.ctx.BlockTime().Add(5 * time.Second))
			}
			w.logf("endblock -> %d", w.ctx.BlockHeight())
		case 4, 5, 6: // respond
			var ids []tmbytes.HexBytes
			for _, pp := range w.provs {
				for _, ss := range w.svcs {
					it := w.k.ActiveRequestsIterator(w.ctx, ss, pp)
					for ; it.Valid(); it.Next() {
						var id gogotypes.BytesValue
						app.AppCodec().MustUnmarshalBinaryBare(it.Value(), &id)
						ids = append(ids, id.Value)
					}
					it.Close()
				}
			}
			if len(ids) == 0 {
				continue
			}
			id := ids[rnd.Intn(len(ids))]
			req, found := w.k.GetRequest(w.ctx, id)
			require.True(t, found)
			p := req.Provider
			var msg sdk.Msg
			good := true
			switch rnd.Intn(5) {
			case 0:
				msg = types.NewMsgRespondService(id, p, `{"code":400,"message":"bad"}`, "")
			case 1:
				msg = types.NewMsgRespondService(id, p, `{"code":200,"message":""}`, `{"body":{}}`)
				good = false
			default:
				msg = types.NewMsgRespondService(id, p, `{"code":200,"message":""}`, `{"header":{},"body":{}}`)
			}
			tax := w.k.ServiceFeeTax(w.ctx)
			err := w.deliver(msg)
			w.logf("respond p=%X fee=%s good=%v err=%v", []byte(p), req.ServiceFee, good, err)
			if err == nil && good {
				fee := req.ServiceFee.AmountOf("stake")
				e := fee.Sub(sdk.NewDecFromInt(fee).Mul(tax).TruncateInt())
				cur, ok := w.earn[string(p)]
				if !ok {
					cur = sdk.ZeroInt()
				}
				w.earn[string(p)] = cur.Add(e)
			}
		case 7, 8: // withdraw
			o := pick(w.owns)
			var p sdk.AccAddress
			if rnd.Intn(3) != 0 {
				p = pick(w.provs)
			}
			target := o
			if a, ok := w.wa[string(o)]; ok {
				target = a
			}
			pre := map[string]sdk.Int{}
			all := append(append(append(append([]sdk.AccAddress{}, w.owns...), w.provs...), w.cons...), w.was...)
			for _, a := range all {
				pre[string(a)] = w.bal(a)
			}
			err := w.deliver(types.NewMsgWithdrawEarnedFees(o, p))
			w.logf("withdraw o=%X p=%X err=%v", []byte(o), []byte(p), err)
			paid := sdk.ZeroInt()
			if err == nil {
				if p.Empty() {
					for _, q := range w.provs {
						if oo, ok := w.owner[string(q)]; ok && oo.Equals(o) {
							if e, ok := w.earn[string(q)]; ok {
								paid = paid.Add(e)
							}
							w.earn[string(q)] = sdk.ZeroInt()
						}
					}
				} else {
					oo, ok := w.owner[string(p)]
					if !ok || !oo.Equals(o) {
						t.Fatalf("withdraw by non-owner succeeded\n%v", w.log)
					}
					if e, ok := w.earn[string(p)]; ok {
						paid = e
					}
					w.earn[string(p)] = sdk.ZeroInt()
				}
			}
			done := map[string]bool{}
			for _, a := range all {
				if done[string(a)] {
					continue
				}
				done[string(a)] = true
				exp := pre[string(a)]
				if a.Equals(target) {
					exp = exp.Add(paid)
				}
				if !w.bal(a).Equal(exp) {
					t.Fatalf("withdraw: balance of %X is %s, expected %s (paid %s target %X)\n%v", []byte(a), w.bal(a), exp, paid, []byte(target), w.log)
				}
			}
		case 9: // set withdraw address
			o := pick(w.owns)
			signer := o
			a := pick(w.was)
			err := w.deliver(types.NewMsgSetWithdrawAddress(signer, a))
			w.logf("setwa o=%X a=%X err=%v", []byte(o), []byte(a), err)
			if err == nil {
				w.wa[string(o)] = a
			}
		case 10: // params
			p := w.k.GetParams(w.ctx)
			p.ServiceFeeTax = []sdk.Dec{sdk.ZeroDec(), sdk.NewDecWithPrec(1, 1), sdk.NewDecWithPrec(5, 1), sdk.NewDecWithPrec(999999999999999999, 18), sdk.NewDecWithPrec(333, 3)}[rnd.Intn(5)]
			w.k.SetParams(w.ctx, p)
			w.logf("tax=%s", p.ServiceFeeTax)
		case 11: // disable / enable
			p := pick(w.provs)
			o, ok := w.owner[string(p)]
			if !ok {
				continue
			}
			s := w.svcs[rnd.Intn(len(w.svcs))]
			if rnd.Intn(2) == 0 {
				_ = w.deliver(types.NewMsgDisableServiceBinding(s, p, o))
			} else {
				_ = w.deliver(types.NewMsgEnableServiceBinding(s, p, nil, o))
			}
		}
		w.check(fmt.Sprintf("seed %d step %d", seed, step))
	}
	if statsOn {
		c := map[string]int{}
		for _, l := range w.log {
			if len(l) > 8 && l[len(l)-10:] == "err=<nil>\n" {
				c[l[:6]]++
			}
		}
		t.Logf("%v", c)
	}
}

func TestFuzzStats(t *testing.T) {
	statsOn = true
	runFuzz(t, 3, 600)
}

var statsOn bool
var commitMode bool

func TestFuzzCommit(t *testing.T) {
	commitMode = true
	defer func() { commitMode = false }()
	for seed := int64(100); seed <= 110; seed++ {
		runFuzz(t, seed, 600)
	}
}


func TestFuzzC13(t *testing.T) {
	for seed := int64(1); seed <= 30; seed++ {
		runFuzz(t, seed, 600)
	}
}

func startHeight() int64 {
	if commitMode {
		return 2
	}
	return 1
}
