package service_test

// ADJACENT OBSERVATION, NOT A VIOLATION OF C13 ITSELF (see README.md next to this file).

import (
	"fmt"
	"testing"
	"time"

	gogotypes "github.com/gogo/protobuf/types"
	"github.com/stretchr/testify/require"

	"github.com/tendermint/tendermint/crypto/tmhash"
	tmproto "github.com/tendermint/tendermint/proto/tendermint/types"

	sdk "github.com/cosmos/cosmos-sdk/types"
	bankkeeper "github.com/cosmos/cosmos-sdk/x/bank/keeper"

	service "github.com/irismod/service"
	simapp "github.com/irismod/service/app"
	"github.com/irismod/service/types"
)

// TestObservation1: an owner sets a withdrawal address that is not 20 bytes long (ValidateBasic only
// demands "not empty"), earns a fee and withdraws it. The payment itself is exact (C13 holds), but the
// host chain's bank module cannot cope with the balance record: with a 1-byte address its invariants
// (run by the crisis module at the end of a block) panic; with a 19-byte address X the "all balances"
// view of the unrelated 20-byte account X|'s' shows the payment as well.
func TestObservation1(t *testing.T) {
	t.Run("1-byte withdrawal address: bank invariants panic", func(t *testing.T) { observation1(t, true) })
	t.Run("19-byte withdrawal address: unrelated 20-byte account shows the payment", func(t *testing.T) { observation1(t, false) })
}

func observation1(t *testing.T, useTiny bool) {
	app := simapp.Setup(false)
	ctx := app.BaseApp.NewContext(false, tmproto.Header{Height: 1, Time: time.Unix(1600000000, 0).UTC()})
	k := app.ServiceKeeper
	k.SetParams(ctx, types.DefaultParams())
	h := service.NewHandler(k)
	addrs := simapp.AddTestAddrs(app, ctx, 4, sdk.NewInt(1000000))
	author, owner, provider, consumer := addrs[0], addrs[1], addrs[2], addrs[3]

	txNo := 0
	deliver := func(msg sdk.Msg) {
		require.NoError(t, msg.ValidateBasic())
		txNo++
		c := ctx.WithValue(types.TxHash, tmhash.Sum([]byte(fmt.Sprintf("tx-%d", txNo)))).WithValue(types.MsgIndex, int64(0))
		cc, write := c.CacheContext()
		_, err := h(cc, msg)
		require.NoError(t, err)
		write()
	}

	short := sdk.AccAddress(append([]byte{}, owner[:19]...)) // 19 bytes, never signs anything
	if useTiny {
		short = sdk.AccAddress([]byte{0x01})
	}
	alias := sdk.AccAddress(append(append([]byte{}, short...), 's')) // a 20-byte account: short | "s"
	aliasBefore := app.BankKeeper.GetAllBalances(ctx, alias)

	deliver(types.NewMsgDefineService("svc", "", nil, author, "", `{"input":{"type":"object"},"output":{"type":"object"}}`))
	deliver(types.NewMsgBindService("svc", provider, sdk.NewCoins(sdk.NewInt64Coin("stake", 10000)), `{"price":"10stake"}`, 1, "{}", owner))
	deliver(types.NewMsgSetWithdrawAddress(owner, short))
	deliver(types.NewMsgCallService("svc", []sdk.AccAddress{provider}, consumer, `{"header":{},"body":{}}`, sdk.NewCoins(sdk.NewInt64Coin("stake", 10)), 5, false, false, 0, 0))
	service.EndBlocker(ctx, k)
	ctx = ctx.WithBlockHeight(2)

	it := k.ActiveRequestsIterator(ctx, "svc", provider)
	require.True(t, it.Valid())
	var id gogotypes.BytesValue
	app.AppCodec().MustUnmarshalBinaryBare(it.Value(), &id)
	it.Close()
	deliver(types.NewMsgRespondService(id.Value, provider, `{"code":200,"message":""}`, `{"header":{},"body":{}}`))

	require.NotPanics(t, func() { bankkeeper.AllInvariants(app.BankKeeper)(ctx) }, "before the withdrawal the bank invariants can be evaluated")
	deliver(types.NewMsgWithdrawEarnedFees(owner, nil))
	require.Equal(t, int64(9), app.BankKeeper.GetBalance(ctx, short, "stake").Amount.Int64(), "the payment itself is exact")

	if !useTiny {
		require.Equal(t, aliasBefore.String(), app.BankKeeper.GetAllBalances(ctx, alias).String(),
			"all balances of the unrelated 20-byte account X|'s' changed by a withdrawal to the 19-byte address X")
	}
	require.NotPanics(t, func() { bankkeeper.AllInvariants(app.BankKeeper)(ctx) },
		"after a valid withdrawal to a 1-byte withdrawal address the bank invariants (crisis end blocker) panic")
}
