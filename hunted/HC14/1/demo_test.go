package service_test

// Finding 1 (C14): a governance change that raises MinDeposit or MinDepositMultiple leaves
// existing bindings available, and served with requests, although their deposit is now
// below the minimum "under the parameters in force".

import (
	"fmt"
	"testing"
	"time"

	gogotypes "github.com/gogo/protobuf/types"
	"github.com/tendermint/tendermint/crypto/tmhash"
	tmproto "github.com/tendermint/tendermint/proto/tendermint/types"

	sdk "github.com/cosmos/cosmos-sdk/types"

	service "github.com/irismod/service"
	simapp "github.com/irismod/service/app"
	"github.com/irismod/service/keeper"
	"github.com/irismod/service/types"
)

type f1Rig struct {
	t     *testing.T
	ctx   sdk.Context
	k     keeper.Keeper
	h     sdk.Handler
	txSeq int
}

func f1NewRig(t *testing.T) (*f1Rig, []sdk.AccAddress) {
	app := simapp.Setup(false)
	ctx := app.BaseApp.NewContext(false, tmproto.Header{Height: 10, Time: time.Unix(1600000000, 0).UTC()})
	app.ServiceKeeper.SetParams(ctx, types.DefaultParams()) // MinDeposit 6000stake, MinDepositMultiple 200
	addrs := simapp.AddTestAddrs(app, ctx, 4, sdk.NewInt(10000000))
	return &f1Rig{t: t, ctx: ctx, k: app.ServiceKeeper, h: service.NewHandler(app.ServiceKeeper)}, addrs
}

// deliver runs a message the way baseapp does: ValidateBasic, handler on a cache context,
// write back only on success (no error, no panic).
func (r *f1Rig) deliver(msg sdk.Msg) (err error) {
	if e := msg.ValidateBasic(); e != nil {
		return e
	}
	r.txSeq++
	cctx, write := r.ctx.CacheContext()
	cctx = cctx.WithValue(types.TxHash, tmhash.Sum([]byte(fmt.Sprintf("f1-tx-%d", r.txSeq)))).
		WithValue(types.MsgIndex, int64(0))
	defer func() {
		if rec := recover(); rec != nil {
			err = fmt.Errorf("panic: %v", rec)
		}
	}()
	if _, err = r.h(cctx, msg); err == nil {
		write()
	}
	return err
}

func (r *f1Rig) endBlock() {
	service.EndBlocker(r.ctx, r.k)
	r.ctx = r.ctx.WithBlockHeight(r.ctx.BlockHeight() + 1).WithBlockTime(r.ctx.BlockTime().Add(5 * time.Second))
}

// c14Min is the minimum of the property: max(global minimum deposit, base price * multiple)
// under the parameters in force.
func (r *f1Rig) c14Min(basePrice int64) sdk.Int {
	p := r.k.GetParams(r.ctx)
	min := p.MinDeposit.AmountOf("stake")
	if pm := sdk.NewInt(basePrice).MulRaw(p.MinDepositMultiple); pm.GT(min) {
		min = pm
	}
	return min
}

func (r *f1Rig) activeRequests(svc string, provider sdk.AccAddress) int {
	n := 0
	it := r.k.ActiveRequestsIterator(r.ctx, svc, provider)
	defer it.Close()
	for ; it.Valid(); it.Next() {
		var id gogotypes.BytesValue
		types.ModuleCdc.MustUnmarshalBinaryBare(it.Value(), &id)
		n++
	}
	return n
}

func TestFinding1(t *testing.T) {
	const schemas = `{"input":{"type":"object"},"output":{"type":"object"}}`
	const input = `{"header":{},"body":{}}`

	cases := []struct {
		name      string
		basePrice int64
		deposit   int64
		change    func(p *types.Params)
	}{
		{"MinDeposit 6000 -> 10000", 1, 6000, func(p *types.Params) {
			p.MinDeposit = sdk.NewCoins(sdk.NewInt64Coin("stake", 10000))
		}},
		{"MinDepositMultiple 200 -> 1000", 30, 6000, func(p *types.Params) {
			p.MinDepositMultiple = 1000
		}},
	}

	for _, tc := range cases {
		t.Run(tc.name, func(t *testing.T) {
			r, a := f1NewRig(t)
			author, owner, provider, consumer := a[0], a[1], a[2], a[3]

			if err := r.deliver(types.NewMsgDefineService("svc", "", nil, author, "", schemas)); err != nil {
				t.Fatal(err)
			}
			pricing := fmt.Sprintf(`{"price":"%dstake"}`, tc.basePrice)
			deposit := sdk.NewCoins(sdk.NewInt64Coin("stake", tc.deposit))
			if err := r.deliver(types.NewMsgBindService("svc", provider, deposit, pricing, 10, "{}", owner)); err != nil {
				t.Fatal(err)
			}
			if min := r.c14Min(tc.basePrice); !sdk.NewInt(tc.deposit).GTE(min) {
				t.Fatalf("setup: deposit %d below minimum %s already", tc.deposit, min)
			}
			r.endBlock()

			// governance changes a parameter (any value the parameter store accepts)
			p := r.k.GetParams(r.ctx)
			tc.change(&p)
			if err := p.Validate(); err != nil {
				t.Fatal(err)
			}
			r.k.SetParams(r.ctx, p)
			r.endBlock()

			// the module itself judges the binding to be below the minimum now:
			// a response-time-only update is refused with "insufficient deposit"
			errQoS := r.deliver(types.NewMsgUpdateServiceBinding("svc", provider, nil, "", 20, "{}", owner))
			t.Logf("response-time-only update after the change: %v", errQoS)

			// a consumer calls the service; the batch is issued at the end of the block
			if err := r.deliver(types.NewMsgCallService("svc", []sdk.AccAddress{provider}, consumer, input,
				sdk.NewCoins(sdk.NewInt64Coin("stake", 1000)), 10, false, false, 0, 0)); err != nil {
				t.Fatal(err)
			}
			r.endBlock()

			b, _ := r.k.GetServiceBinding(r.ctx, "svc", provider)
			min := r.c14Min(tc.basePrice)
			nReq := r.activeRequests("svc", provider)
			t.Logf("binding available=%v deposit=%s, minimum in force=%sstake, active requests issued to it=%d",
				b.Available, b.Deposit, min, nReq)

			// C14: whenever a binding is available for requests, its deposit is at least
			// max(MinDeposit, base price * MinDepositMultiple) under the parameters in force
			if b.Available && b.Deposit.AmountOf("stake").LT(min) {
				t.Errorf("C14 violated: binding is available (and was issued %d request(s)) with deposit %s < minimum %sstake in force (MinDeposit=%s, MinDepositMultiple=%d, base price=%d)",
					nReq, b.Deposit, min, p.MinDeposit, p.MinDepositMultiple, tc.basePrice)
			}
		})
	}
}
