package service_test

// Finding 2 (C14): when the MinDeposit parameter contains a denomination other than the base
// denomination, getMinDeposit does not take "the larger of" the two minima: as soon as
// base price * MinDepositMultiple reaches the stake component, the global minimum deposit is
// dropped altogether, and a binding becomes/stays available without holding it.

import (
	"fmt"
	"testing"
	"time"

	"github.com/tendermint/tendermint/crypto/tmhash"
	tmproto "github.com/tendermint/tendermint/proto/tendermint/types"

	sdk "github.com/cosmos/cosmos-sdk/types"

	service "github.com/irismod/service"
	simapp "github.com/irismod/service/app"
	"github.com/irismod/service/types"
)

func TestFinding2(t *testing.T) {
	const schemas = `{"input":{"type":"object"},"output":{"type":"object"}}`

	app := simapp.Setup(false)
	ctx := app.BaseApp.NewContext(false, tmproto.Header{Height: 10, Time: time.Unix(1600000000, 0).UTC()})
	k := app.ServiceKeeper
	h := service.NewHandler(k)
	a := simapp.AddTestAddrs(app, ctx, 4, sdk.NewInt(10000000))
	author, owner, provA, provB := a[0], a[1], a[2], a[3]

	// governance: a value the parameter store accepts (validateMinDeposit only asks for valid coins)
	p := types.DefaultParams()
	p.MinDeposit = sdk.NewCoins(sdk.NewInt64Coin("atom", 100), sdk.NewInt64Coin("stake", 6000))
	p.MinDepositMultiple = 200
	if err := p.Validate(); err != nil {
		t.Fatal(err)
	}
	k.SetParams(ctx, p)

	seq := 0
	deliver := func(msg sdk.Msg) (err error) {
		if e := msg.ValidateBasic(); e != nil {
			return e
		}
		seq++
		cctx, write := ctx.CacheContext()
		cctx = cctx.WithValue(types.TxHash, tmhash.Sum([]byte(fmt.Sprintf("f2-tx-%d", seq)))).
			WithValue(types.MsgIndex, int64(0))
		defer func() {
			if rec := recover(); rec != nil {
				err = fmt.Errorf("panic: %v", rec)
			}
		}()
		if _, err = h(cctx, msg); err == nil {
			write()
		}
		return err
	}

	if err := deliver(types.NewMsgDefineService("svc", "", nil, author, "", schemas)); err != nil {
		t.Fatal(err)
	}

	deposit := sdk.NewCoins(sdk.NewInt64Coin("stake", 20000))

	// base price 1: 1*200 < 6000, the global minimum (100atom,6000stake) applies -> refused
	errCheap := deliver(types.NewMsgBindService("svc", provA, deposit, `{"price":"1stake"}`, 10, "{}", owner))
	t.Logf("bind, base price 1stake, deposit %s: %v", deposit, errCheap)

	// base price 100: 100*200 = 20000 >= 6000, the global minimum is forgotten -> accepted
	errDear := deliver(types.NewMsgBindService("svc", provB, deposit, `{"price":"100stake"}`, 10, "{}", owner))
	t.Logf("bind, base price 100stake, deposit %s: %v", deposit, errDear)

	// C14: an available binding holds at least the larger of the global minimum deposit and
	// base price * multiple; for coins "the larger" is the component-wise maximum
	check := func(provider sdk.AccAddress, basePrice int64) {
		b, found := k.GetServiceBinding(ctx, "svc", provider)
		if !found || !b.Available {
			return
		}
		params := k.GetParams(ctx)
		want := params.MinDeposit // global minimum
		pm := sdk.NewInt(basePrice).MulRaw(params.MinDepositMultiple)
		if pm.GT(want.AmountOf("stake")) {
			want = want.Add(sdk.NewCoin("stake", pm.Sub(want.AmountOf("stake"))))
		}
		if !b.Deposit.IsAllGTE(want) {
			t.Errorf("C14 violated: binding of %s is available with deposit %s, but the global minimum deposit in force is %s (larger of it and price*multiple: %s)",
				provider, b.Deposit, params.MinDeposit, want)
		}
	}
	check(provA, 1)
	check(provB, 100)

	if (errCheap == nil) != (errDear == nil) {
		t.Logf("note: the same deposit under the same global minimum is refused for the cheap binding and accepted for the expensive one")
	}
}
