module deliver
