package service_test

// Finding 1 (C15): listing bindings by service and owner with an owner argument that
// is not 20 bytes long returns bindings of ANOTHER service and ANOTHER owner.
//
// Place this file as zz_finding_1_test.go in the module root (package service_test) and run
//   go test -vet=off -count=1 -run TestFinding1 .

import (
	"bytes"
	"fmt"
	"testing"
	"time"

	"github.com/tendermint/tendermint/crypto/tmhash"
	tmproto "github.com/tendermint/tendermint/proto/tendermint/types"

	sdk "github.com/cosmos/cosmos-sdk/types"
	banktypes "github.com/cosmos/cosmos-sdk/x/bank/types"

	service "github.com/irismod/service"
	simapp "github.com/irismod/service/app"
	"github.com/irismod/service/types"
)

func TestFinding1(t *testing.T) {
	app := simapp.Setup(false)
	ctx := app.BaseApp.NewContext(false, tmproto.Header{Height: 1, Time: time.Unix(1000, 0).UTC()})
	k := app.ServiceKeeper
	k.SetParams(ctx, types.DefaultParams())
	h := service.NewHandler(k)

	// the owner signs, so it has a 20-byte address; its last byte happens to be 'a' (0x61)
	owner := sdk.AccAddress(append(bytes.Repeat([]byte{0x11}, 19), 'a'))
	author := sdk.AccAddress(bytes.Repeat([]byte{0x22}, 20))
	provider1 := sdk.AccAddress(bytes.Repeat([]byte{0x33}, 20))
	provider2 := sdk.AccAddress(bytes.Repeat([]byte{0x44}, 20))

	// fund the owner
	coins := sdk.NewCoins(sdk.NewCoin("stake", sdk.NewInt(1000000)))
	app.BankKeeper.SetSupply(ctx, banktypes.NewSupply(app.BankKeeper.GetSupply(ctx).GetTotal().Add(coins...)))
	app.AccountKeeper.SetAccount(ctx, app.AccountKeeper.NewAccountWithAddress(ctx, owner))
	if _, err := app.BankKeeper.AddCoins(ctx, owner, coins); err != nil {
		t.Fatal(err)
	}

	// deliver a message the way baseapp does
	txN := 0
	deliver := func(msg sdk.Msg) {
		t.Helper()
		if err := msg.ValidateBasic(); err != nil {
			t.Fatalf("ValidateBasic: %v", err)
		}
		txN++
		cctx, write := ctx.CacheContext()
		cctx = cctx.WithValue(types.TxHash, tmhash.Sum([]byte(fmt.Sprintf("tx-%d", txN)))).WithValue(types.MsgIndex, int64(0))
		if _, err := h(cctx, msg); err != nil {
			t.Fatalf("handler: %v", err)
		}
		write()
	}

	schemas := `{"input":{"type":"object"},"output":{"type":"object"}}`
	deposit := sdk.NewCoins(sdk.NewCoin("stake", sdk.NewInt(10000)))
	pricing := `{"price":"1stake"}`

	// two services whose names are related: "b" and "ab"
	deliver(types.NewMsgDefineService("b", "", nil, author, "", schemas))
	deliver(types.NewMsgDefineService("ab", "", nil, author, "", schemas))
	// the owner binds provider1 to "ab" and provider2 to "b"
	deliver(types.NewMsgBindService("ab", provider1, deposit, pricing, 1, "{}", owner))
	deliver(types.NewMsgBindService("b", provider2, deposit, pricing, 1, "{}", owner))

	// ground truth: all stored bindings
	var all []types.ServiceBinding
	k.IterateServiceBindings(ctx, func(b types.ServiceBinding) bool { all = append(all, b); return false })

	list := func(serviceName string, o sdk.AccAddress) {
		t.Helper()
		resp, err := k.Bindings(sdk.WrapSDKContext(ctx), &types.QueryBindingsRequest{ServiceName: serviceName, Owner: o})
		if err != nil {
			// refusing the malformed owner would be fine as well
			t.Logf("list(service=%q, owner=%X) refused: %v", serviceName, o.Bytes(), err)
			return
		}
		want := 0
		for _, b := range all {
			if b.ServiceName == serviceName && b.Owner.Equals(o) {
				want++
			}
		}
		for _, b := range resp.ServiceBindings {
			if b.ServiceName != serviceName || !b.Owner.Equals(o) {
				t.Errorf("C15 violated: listing bindings by service %q and owner %X (%d bytes) returned the binding "+
					"{service %q, provider %X, owner %X}: neither its service nor its owner is the one asked for",
					serviceName, o.Bytes(), len(o), b.ServiceName, b.Provider.Bytes(), b.Owner.Bytes())
			}
		}
		if len(resp.ServiceBindings) != want {
			t.Errorf("C15 violated: listing bindings by service %q and owner %X returned %d bindings, but exactly %d stored bindings have that service and owner",
				serviceName, o.Bytes(), len(resp.ServiceBindings), want)
		}
	}

	// sanity: with the real owner the listing is exact
	list("ab", owner)
	list("b", owner)
	if t.Failed() {
		t.Fatal("unexpected: listing with the 20-byte owner is already wrong")
	}

	// (a) owner argument one byte too long: owner|'a' and service "b" scans  owner|"ab"|0x00 ...
	//     = the index entries of (owner, service "ab")
	list("b", sdk.AccAddress(append(append([]byte{}, owner...), 'a')))

	// (b) owner argument one byte too short: owner[:19] and service "ab" scans owner[:19]|"ab"|0x00 ...
	//     = owner|"b"|0x00 ... = the index entries of (owner, service "b")
	list("ab", sdk.AccAddress(owner[:19]))

	// the keeper function behind both the gRPC and the legacy query behaves the same
	for _, b := range k.GetOwnerServiceBindings(ctx, sdk.AccAddress(append(append([]byte{}, owner...), 'a')), "b") {
		t.Errorf("C15 violated: keeper.GetOwnerServiceBindings(owner|'a', \"b\") returned binding {service %q, owner %X}",
			b.ServiceName, b.Owner.Bytes())
	}
}
