package service_test

// Finding 2 (C15): listing bindings by service and owner with a service-name argument that
// contains the index separator (0x00) returns bindings of ANOTHER service.
//
// Place this file as zz_finding_2_test.go in the module root (package service_test) and run
//   go test -vet=off -count=1 -run TestFinding2 .

import (
	"bytes"
	"fmt"
	"testing"
	"time"

	"github.com/tendermint/tendermint/crypto/tmhash"
	tmproto "github.com/tendermint/tendermint/proto/tendermint/types"

	sdk "github.com/cosmos/cosmos-sdk/types"
	banktypes "github.com/cosmos/cosmos-sdk/x/bank/types"

	service "github.com/irismod/service"
	simapp "github.com/irismod/service/app"
	"github.com/irismod/service/types"
)

func TestFinding2(t *testing.T) {
	app := simapp.Setup(false)
	ctx := app.BaseApp.NewContext(false, tmproto.Header{Height: 1, Time: time.Unix(1000, 0).UTC()})
	k := app.ServiceKeeper
	k.SetParams(ctx, types.DefaultParams())
	h := service.NewHandler(k)

	owner := sdk.AccAddress(bytes.Repeat([]byte{0x11}, 20))
	author := sdk.AccAddress(bytes.Repeat([]byte{0x22}, 20))
	// an ordinary 20-byte provider address whose second byte is 0x00 (one address in 256 has that)
	provider := sdk.AccAddress(append([]byte{'A', 0x00}, bytes.Repeat([]byte{0x33}, 18)...))

	coins := sdk.NewCoins(sdk.NewCoin("stake", sdk.NewInt(1000000)))
	app.BankKeeper.SetSupply(ctx, banktypes.NewSupply(app.BankKeeper.GetSupply(ctx).GetTotal().Add(coins...)))
	app.AccountKeeper.SetAccount(ctx, app.AccountKeeper.NewAccountWithAddress(ctx, owner))
	if _, err := app.BankKeeper.AddCoins(ctx, owner, coins); err != nil {
		t.Fatal(err)
	}

	txN := 0
	deliver := func(msg sdk.Msg) {
		t.Helper()
		if err := msg.ValidateBasic(); err != nil {
			t.Fatalf("ValidateBasic: %v", err)
		}
		txN++
		cctx, write := ctx.CacheContext()
		cctx = cctx.WithValue(types.TxHash, tmhash.Sum([]byte(fmt.Sprintf("tx-%d", txN)))).WithValue(types.MsgIndex, int64(0))
		if _, err := h(cctx, msg); err != nil {
			t.Fatalf("handler: %v", err)
		}
		write()
	}

	schemas := `{"input":{"type":"object"},"output":{"type":"object"}}`
	deposit := sdk.NewCoins(sdk.NewCoin("stake", sdk.NewInt(10000)))

	deliver(types.NewMsgDefineService("a", "", nil, author, "", schemas))
	deliver(types.NewMsgBindService("a", provider, deposit, `{"price":"1stake"}`, 1, "{}", owner))

	// no definition and no binding has this name (it is not even a valid service name)
	asked := "a\x00A"
	if _, found := k.GetServiceDefinition(ctx, asked); found {
		t.Fatal("unexpected definition")
	}

	resp, err := k.Bindings(sdk.WrapSDKContext(ctx), &types.QueryBindingsRequest{ServiceName: asked, Owner: owner})
	if err != nil {
		// refusing the malformed name would be fine as well
		t.Logf("refused: %v", err)
		return
	}
	for _, b := range resp.ServiceBindings {
		if b.ServiceName != asked {
			t.Errorf("C15 violated: listing bindings by service %q and owner %X returned the binding {service %q, provider %X, owner %X}: "+
				"its service is not the one asked for (no binding and no definition with the asked name exists)",
				asked, owner.Bytes(), b.ServiceName, b.Provider.Bytes(), b.Owner.Bytes())
		}
	}

	// the same listing without the owner is exact (empty)
	resp2, err := k.Bindings(sdk.WrapSDKContext(ctx), &types.QueryBindingsRequest{ServiceName: asked})
	if err == nil && len(resp2.ServiceBindings) != 0 {
		t.Errorf("C15 violated: listing bindings by service %q returned %d bindings", asked, len(resp2.ServiceBindings))
	}
}
