module deliver
