package service_test

// C16 - Finished batches and contexts leave nothing behind.
//
// Finding 1: a repeated context whose total is reached while no batch is in flight
// (the total is lowered to the number of batches already issued after the last batch
// has expired) is never removed.
//
// Place this file in the module root (package service_test) and run
//   go test -vet=off -count=1 -run TestFinding1 .

import (
	"fmt"
	"testing"
	"time"

	"github.com/stretchr/testify/require"

	"github.com/tendermint/tendermint/crypto/tmhash"
	tmbytes "github.com/tendermint/tendermint/libs/bytes"
	tmproto "github.com/tendermint/tendermint/proto/tendermint/types"

	sdk "github.com/cosmos/cosmos-sdk/types"

	service "github.com/irismod/service"
	simapp "github.com/irismod/service/app"
	"github.com/irismod/service/keeper"
	"github.com/irismod/service/types"
)

type f1Chain struct {
	t   *testing.T
	ctx sdk.Context
	k   keeper.Keeper
	h   sdk.Handler
	txN int
}

// deliver delivers a message the way baseapp does: ValidateBasic, then the handler on a
// cache context that is written back only if the handler succeeds.
func (c *f1Chain) deliver(msg sdk.Msg) (*sdk.Result, error) {
	if err := msg.ValidateBasic(); err != nil {
		return nil, err
	}
	c.txN++
	cacheCtx, write := c.ctx.CacheContext()
	cacheCtx = cacheCtx.
		WithValue(types.TxHash, tmhash.Sum([]byte(fmt.Sprintf("f1-tx-%d", c.txN)))).
		WithValue(types.MsgIndex, int64(0))
	res, err := c.h(cacheCtx, msg)
	if err == nil {
		write()
	}
	return res, err
}

func (c *f1Chain) must(msg sdk.Msg) *sdk.Result {
	res, err := c.deliver(msg)
	require.NoError(c.t, err)
	return res
}

// endBlock runs the end blocker of the current height and moves on to the next height
func (c *f1Chain) endBlock() {
	service.EndBlocker(c.ctx, c.k)
	c.ctx = c.ctx.WithBlockHeight(c.ctx.BlockHeight() + 1).WithBlockTime(c.ctx.BlockTime().Add(5 * time.Second))
}

func (c *f1Chain) call(consumer, provider sdk.AccAddress, timeout int64, freq uint64, total int64) tmbytes.HexBytes {
	res := c.must(types.NewMsgCallService(
		"svc", []sdk.AccAddress{provider}, consumer, `{"header":{},"body":{}}`,
		sdk.NewCoins(sdk.NewInt64Coin("stake", 10)), timeout, false, true, freq, total,
	))
	for _, ev := range res.Events {
		for _, a := range ev.Attributes {
			if string(a.Key) == types.AttributeKeyRequestContextID {
				var id tmbytes.HexBytes
				require.NoError(c.t, id.UnmarshalJSON([]byte(`"`+string(a.Value)+`"`)))
				return id
			}
		}
	}
	c.t.Fatal("no request context id in the events")
	return nil
}

func (c *f1Chain) countRequests(id tmbytes.HexBytes) int {
	n := 0
	c.k.IterateRequests(c.ctx, func(requestID tmbytes.HexBytes, r types.CompactRequest) bool {
		if r.RequestContextId.String() == id.String() {
			n++
		}
		return false
	})
	return n
}

func TestFinding1(t *testing.T) {
	app := simapp.Setup(false)
	ctx := app.BaseApp.NewContext(false, tmproto.Header{Height: 10, Time: time.Unix(1600000000, 0).UTC()})
	k := app.ServiceKeeper
	k.SetParams(ctx, types.DefaultParams())

	addrs := simapp.AddTestAddrs(app, ctx, 4, sdk.NewInt(100000000))
	author, owner, provider, consumer := addrs[0], addrs[1], addrs[2], addrs[3]

	c := &f1Chain{t: t, ctx: ctx, k: k, h: service.NewHandler(k)}

	c.must(types.NewMsgDefineService("svc", "", nil, author, "", `{"input":{"type":"object"},"output":{"type":"object"}}`))
	c.must(types.NewMsgBindService("svc", provider, sdk.NewCoins(sdk.NewInt64Coin("stake", 10000)), `{"price":"1stake"}`, 1, "{}", owner))

	// ---- control: the total is lowered to the batch counter BEFORE the batch expires -> the context is removed
	ctl := c.call(consumer, provider, 2, 2, 3) // height 10: repeated, timeout 2, every 2 blocks, 3 batches
	c.endBlock()                               // end of 10: batch 1 issued, expires at 12
	c.must(types.NewMsgPauseRequestContext(ctl, consumer))
	c.must(types.NewMsgUpdateRequestContext(ctl, nil, nil, 0, 0, 1, consumer)) // total := 1 == batches issued
	c.endBlock()                                                              // end of 11
	c.endBlock()                                                              // end of 12: batch 1 expires
	_, found := k.GetRequestContext(c.ctx, ctl)
	require.False(t, found, "control: paused context whose total was reached before its batch expired is removed")

	// ---- the history of the finding: the same two messages, but the update comes AFTER the batch expired
	require.Equal(t, int64(13), c.ctx.BlockHeight())
	id := c.call(consumer, provider, 2, 2, 3) // height 13
	c.endBlock()                              // end of 13: batch 1 issued, expires at 15
	require.Equal(t, 1, c.countRequests(id))

	c.must(types.NewMsgPauseRequestContext(id, consumer)) // height 14
	c.endBlock()                                          // end of 14
	c.endBlock()                                          // end of 15: batch 1 expires while the context is paused

	rc, found := k.GetRequestContext(c.ctx, id)
	require.True(t, found, "paused after 1 of 3 batches: not finished, stays")
	require.Equal(t, types.PAUSED, rc.State)
	require.Equal(t, uint64(1), rc.BatchCounter)
	require.Equal(t, 0, c.countRequests(id), "the expired batch was cleaned")
	require.False(t, k.HasRequestBatchExpiration(c.ctx, id))
	require.False(t, k.HasNewRequestBatch(c.ctx, id))

	// height 16: the consumer lowers the total to the number of batches already issued
	c.must(types.NewMsgUpdateRequestContext(id, nil, nil, 0, 0, 1, consumer))

	// from now on the context is a repeated one whose total is reached (1 of 1), no batch is in flight,
	// nothing is scheduled for it: it has finished. Give the module 20 blocks to notice.
	for i := 0; i < 20; i++ {
		c.endBlock()
	}

	rc, found = k.GetRequestContext(c.ctx, id)
	require.False(t, found,
		"C16 violated: at height %d the repeated context %s still exists although its total is reached and no batch is in flight "+
			"(state=%s, batch counter=%d, repeated total=%d, batch state=%s, in expiry queue=%v, in new-batch queue=%v); "+
			"nothing will ever remove it",
		c.ctx.BlockHeight(), id, rc.State, rc.BatchCounter, rc.RepeatedTotal, rc.BatchState,
		k.HasRequestBatchExpiration(c.ctx, id), k.HasNewRequestBatch(c.ctx, id),
	)
}
