package service_test

// C16 - Finished batches and contexts leave nothing behind.
//
// Finding 2: the request timeout has no upper bound of its own (only the governance parameter
// MaxRequestTimeout, which accepts every positive int64). With a large timeout the expiry height
// `block height + timeout` overflows int64: the batch is filed under a negative expiry height,
// which no block ever reaches. The records of the batch (request, response, pending marker) and
// the context stay for ever although the expiry height recorded on them is in the past.
//
// Place this file in the module root (package service_test) and run
//   go test -vet=off -count=1 -run TestFinding2 .

import (
	"fmt"
	"math"
	"testing"
	"time"

	"github.com/stretchr/testify/require"

	"github.com/tendermint/tendermint/crypto/tmhash"
	tmbytes "github.com/tendermint/tendermint/libs/bytes"
	tmproto "github.com/tendermint/tendermint/proto/tendermint/types"

	sdk "github.com/cosmos/cosmos-sdk/types"

	service "github.com/irismod/service"
	simapp "github.com/irismod/service/app"
	"github.com/irismod/service/types"
)

func TestFinding2(t *testing.T) {
	app := simapp.Setup(false)
	ctx := app.BaseApp.NewContext(false, tmproto.Header{Height: 10, Time: time.Unix(1600000000, 0).UTC()})
	k := app.ServiceKeeper
	k.SetParams(ctx, types.DefaultParams())
	h := service.NewHandler(k)

	addrs := simapp.AddTestAddrs(app, ctx, 4, sdk.NewInt(100000000))
	author, owner, provider, consumer := addrs[0], addrs[1], addrs[2], addrs[3]

	txN := 0
	// baseapp-like delivery: ValidateBasic, handler on a cache context, written back on success only
	deliver := func(msg sdk.Msg) *sdk.Result {
		require.NoError(t, msg.ValidateBasic())
		txN++
		cacheCtx, write := ctx.CacheContext()
		cacheCtx = cacheCtx.
			WithValue(types.TxHash, tmhash.Sum([]byte(fmt.Sprintf("f2-tx-%d", txN)))).
			WithValue(types.MsgIndex, int64(0))
		res, err := h(cacheCtx, msg)
		require.NoError(t, err)
		write()
		return res
	}
	endBlock := func() {
		service.EndBlocker(ctx, k)
		ctx = ctx.WithBlockHeight(ctx.BlockHeight() + 1).WithBlockTime(ctx.BlockTime().Add(5 * time.Second))
	}

	deliver(types.NewMsgDefineService("svc", "", nil, author, "", `{"input":{"type":"object"},"output":{"type":"object"}}`))
	deliver(types.NewMsgBindService("svc", provider, sdk.NewCoins(sdk.NewInt64Coin("stake", 10000)), `{"price":"1stake"}`, 1, "{}", owner))

	// governance raises the maximum request timeout; the parameter store accepts every positive value
	params := k.GetParams(ctx)
	params.MaxRequestTimeout = math.MaxInt64
	require.NoError(t, params.Validate())
	k.SetParams(ctx, params)

	// height 10: a one-shot call with a very long timeout (ValidateBasic only asks for timeout > 0)
	res := deliver(types.NewMsgCallService(
		"svc", []sdk.AccAddress{provider}, consumer, `{"header":{},"body":{}}`,
		sdk.NewCoins(sdk.NewInt64Coin("stake", 10)), math.MaxInt64, false, false, 0, 0,
	))
	var id tmbytes.HexBytes
	for _, ev := range res.Events {
		for _, a := range ev.Attributes {
			if string(a.Key) == types.AttributeKeyRequestContextID {
				require.NoError(t, id.UnmarshalJSON([]byte(`"`+string(a.Value)+`"`)))
			}
		}
	}
	require.Len(t, id, types.ContextIDLen)

	endBlock() // end of 10: the batch is issued

	var requestID tmbytes.HexBytes
	var request types.CompactRequest
	k.IterateRequests(ctx, func(rid tmbytes.HexBytes, r types.CompactRequest) bool {
		requestID, request = rid, r
		return false
	})
	require.NotNil(t, requestID, "the batch was issued")
	t.Logf("request issued at height %d with timeout %d: recorded expiration height %d", request.RequestHeight, int64(math.MaxInt64), request.ExpirationHeight)

	// height 11: the provider answers, the batch completes early
	deliver(types.NewMsgRespondService(requestID, provider, `{"code":200,"message":""}`, `{"header":{},"body":{}}`))

	for i := 0; i < 10; i++ {
		endBlock()
	}

	// what the property says, checked after the end of block ctx.BlockHeight()-1:
	// no record of a batch whose expiry block is over, and no one-shot context whose batch is over
	last := ctx.BlockHeight() - 1
	k.IterateRequests(ctx, func(rid tmbytes.HexBytes, r types.CompactRequest) bool {
		_, hasResponse := k.GetResponse(ctx, rid)
		_, ctxFound := k.GetRequestContext(ctx, r.RequestContextId)
		require.True(t, r.ExpirationHeight > last,
			"C16 violated: block %d has ended, the request %s carries the expiration height %d, but its records are still there "+
				"(request record: true, response record: %v, pending marker: %v, one-shot context still stored: %v, "+
				"context filed in the expiry queue: %v) - no block will ever remove them",
			last, rid, r.ExpirationHeight, hasResponse, k.IsRequestActive(ctx, rid), ctxFound,
			k.HasRequestBatchExpiration(ctx, r.RequestContextId),
		)
		return false
	})
}
