module deliver
