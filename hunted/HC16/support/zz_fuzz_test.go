package service_test

import (
	"bytes"
	"encoding/binary"
	"encoding/hex"
	"fmt"
	"math/rand"
	"os"
	"strconv"
	"testing"
	"time"

	gogotypes "github.com/gogo/protobuf/types"
	"github.com/tendermint/tendermint/crypto/tmhash"
	tmbytes "github.com/tendermint/tendermint/libs/bytes"
	tmproto "github.com/tendermint/tendermint/proto/tendermint/types"

	sdk "github.com/cosmos/cosmos-sdk/types"

	service "github.com/irismod/service"
	simapp "github.com/irismod/service/app"
	"github.com/irismod/service/keeper"
	"github.com/irismod/service/types"
)

const (
	fzSchemas = `{"input":{"type":"object"},"output":{"type":"object"}}`
	fzInput   = `{"header":{},"body":{}}`
	fzResult  = `{"code":200,"message":""}`
	fzOutput  = `{"header":{},"body":{}}`
	fzBadOut  = `{"x":1}`
	fzResErr  = `{"code":400,"message":"bad"}`
)

type fzWorld struct {
	t       *testing.T
	app     *simapp.SimApp
	ctx     sdk.Context
	k       keeper.Keeper
	h       sdk.Handler
	rng     *rand.Rand
	accts   []sdk.AccAddress
	svcs    []string
	provs   map[string][]sdk.AccAddress
	owner   sdk.AccAddress
	ctxIDs  []tmbytes.HexBytes
	modCtx  map[string]bool
	txN     int
	log     []string
	inEnd   bool
	modName string
}

func (w *fzWorld) logf(f string, a ...interface{}) {
	w.log = append(w.log, fmt.Sprintf("[h=%d] ", w.ctx.BlockHeight())+fmt.Sprintf(f, a...))
}

func (w *fzWorld) txCtx() (sdk.Context, func()) {
	w.txN++
	c, write := w.ctx.CacheContext()
	c = c.WithValue(types.TxHash, tmhash.Sum([]byte("tx"+strconv.Itoa(w.txN)))).WithValue(types.MsgIndex, int64(0))
	return c, write
}

func (w *fzWorld) deliver(msg sdk.Msg) (res *sdk.Result, err error) {
	if e := msg.ValidateBasic(); e != nil {
		return nil, e
	}
	c, write := w.txCtx()
	defer func() {
		if r := recover(); r != nil {
			err = fmt.Errorf("panic: %v", r)
		}
	}()
	res, err = w.h(c, msg)
	if err == nil {
		write()
	}
	return
}

func (w *fzWorld) moduleTx(f func(c sdk.Context) error) (err error) {
	c, write := w.txCtx()
	defer func() {
		if r := recover(); r != nil {
			err = fmt.Errorf("panic: %v", r)
		}
	}()
	err = f(c)
	if err == nil {
		write()
	}
	return
}

func (w *fzWorld) pick(n int) int { return w.rng.Intn(n) }

func (w *fzWorld) randCtxID() tmbytes.HexBytes {
	if len(w.ctxIDs) == 0 {
		return make([]byte, 40)
	}
	// bias to recent
	n := len(w.ctxIDs)
	i := n - 1 - w.pick(minInt(n, 6))
	return w.ctxIDs[i]
}

func minInt(a, b int) int {
	if a < b {
		return a
	}
	return b
}

// module callback behaviour
func (w *fzWorld) modAct(c sdk.Context, id tmbytes.HexBytes, where string) {
	rc, found := w.k.GetRequestContext(c, id)
	if !found {
		return
	}
	n := w.pick(12)
	target := id
	trc := rc
	if w.pick(4) == 0 {
		// another own context
		var own []tmbytes.HexBytes
		for _, x := range w.ctxIDs {
			if w.modCtx[x.String()] {
				own = append(own, x)
			}
		}
		if len(own) > 0 {
			target = own[w.pick(len(own))]
			var ok bool
			trc, ok = w.k.GetRequestContext(c, target)
			if !ok {
				return
			}
		}
	}
	var err error
	var what string
	switch n {
	case 0, 1:
		what = "pause"
		err = w.k.PauseRequestContext(c, target, trc.Consumer)
	case 2, 3:
		what = "start"
		err = w.k.StartRequestContext(c, target, trc.Consumer)
	case 4:
		what = "kill"
		err = w.k.KillRequestContext(c, target, trc.Consumer)
	case 5:
		what = "pause+start"
		err = w.k.PauseRequestContext(c, target, trc.Consumer)
		if err == nil {
			err = w.k.StartRequestContext(c, target, trc.Consumer)
		}
	case 6:
		to := int64(1 + w.pick(fzMaxTO()))
		fr := uint64(to) + uint64(w.pick(3))
		tot := int64(0)
		switch w.pick(4) {
		case 0:
			tot = int64(trc.BatchCounter)
		case 1:
			tot = int64(trc.BatchCounter) + 1
		case 2:
			tot = -1
		}
		what = fmt.Sprintf("update to=%d fr=%d tot=%d", to, fr, tot)
		err = w.k.UpdateRequestContext(c, target, nil, 0, nil, to, fr, tot, trc.Consumer)
		if err == nil && tot != 0 {
			fzTotUpd[target.String()] = true
		}
	case 7:
		if c.Context().Value(types.TxHash) != nil && !w.inEnd {
			what = "create"
			var nid tmbytes.HexBytes
			nid, err = w.createModCtx(c)
			if err == nil {
				w.ctxIDs = append(w.ctxIDs, nid)
				w.modCtx[nid.String()] = true
			}
		}
	default:
		return
	}
	w.logf("  cb(%s) on %s target %s: %s err=%v", where, short(id), short(target), what, err)
}

func short(id tmbytes.HexBytes) string {
	s := id.String()
	if len(s) > 8 {
		return s[:8]
	}
	return s
}

func (w *fzWorld) createModCtx(c sdk.Context) (tmbytes.HexBytes, error) {
	svc := w.svcs[w.pick(len(w.svcs))]
	ps := w.randProviders(svc)
	to := int64(1 + w.pick(fzMaxTO()))
	rep := w.pick(3) != 0
	fr := uint64(0)
	tot := int64(0)
	if rep {
		fr = uint64(to) + uint64(w.pick(3))
		tot = int64(1 + w.pick(3))
		if w.pick(5) == 0 {
			tot = -1
		}
	}
	st := types.RUNNING
	if w.pick(4) == 0 {
		st = types.PAUSED
	}
	consumer := w.accts[w.pick(2)]
	thr := uint32(1 + w.pick(len(ps)))
	return w.k.CreateRequestContext(c, svc, ps, consumer, fzInput, sdk.NewCoins(sdk.NewInt64Coin("stake", int64(1+w.pick(5)))),
		to, w.pick(4) == 0, rep, fr, tot, st, thr, w.modName)
}

func (w *fzWorld) randProviders(svc string) []sdk.AccAddress {
	all := w.provs[svc]
	n := 1 + w.pick(len(all))
	perm := w.rng.Perm(len(all))
	var ps []sdk.AccAddress
	for i := 0; i < n; i++ {
		ps = append(ps, all[perm[i]])
	}
	return ps
}

func newFzWorld(t *testing.T, seed int64) *fzWorld {
	app := simapp.Setup(false)
	ctx := app.BaseApp.NewContext(false, tmproto.Header{Height: 1, Time: time.Unix(1600000000, 0).UTC()})
	k := app.ServiceKeeper
	k.SetParams(ctx, types.DefaultParams())
	w := &fzWorld{t: t, app: app, ctx: ctx, k: k, h: service.NewHandler(k), rng: rand.New(rand.NewSource(seed)),
		provs: map[string][]sdk.AccAddress{}, modCtx: map[string]bool{}}
	w.modName = "mod" + strconv.FormatInt(seed, 10)
	w.accts = simapp.AddTestAddrs(app, ctx, 8, sdk.NewInt(100000000))
	// accts[0] rich consumer, accts[1] poor consumer, accts[2] owner, accts[3..6] providers, accts[7] author
	w.owner = w.accts[2]
	// make accts[1] poor
	bal := app.BankKeeper.GetBalance(ctx, w.accts[1], "stake")
	if err := app.BankKeeper.SendCoins(ctx, w.accts[1], w.accts[7], sdk.NewCoins(sdk.NewCoin("stake", bal.Amount.SubRaw(int64(3+w.pick(10)))))); err != nil {
		t.Fatal(err)
	}
	w.svcs = []string{"svc", "svc1"}
	for _, s := range w.svcs {
		if _, err := w.deliver(types.NewMsgDefineService(s, "", nil, w.accts[7], "", fzSchemas)); err != nil {
			t.Fatal(err)
		}
		provs := []sdk.AccAddress{w.accts[3], w.accts[4], w.accts[5], w.accts[6], sdk.AccAddress([]byte{1, 2, 3}), append(sdk.AccAddress{}, append(w.accts[3].Bytes(), 0x01)...)}
		for i, p := range provs {
			price := 1 + i%3
			pricing := fmt.Sprintf(`{"price":"%dstake"}`, price)
			if _, err := w.deliver(types.NewMsgBindService(s, p, sdk.NewCoins(sdk.NewInt64Coin("stake", 10000)), pricing, uint64(1+i%3), "{}", w.owner)); err != nil {
				t.Fatal(err)
			}
			w.provs[s] = append(w.provs[s], p)
		}
	}
	_ = k.RegisterResponseCallback(w.modName, func(c sdk.Context, id tmbytes.HexBytes, responses []string, err error) {
		w.modAct(c, id, "resp")
	})
	_ = k.RegisterStateCallback(w.modName, func(c sdk.Context, id tmbytes.HexBytes, cause string) {
		w.modAct(c, id, "state")
	})
	return w
}

func (w *fzWorld) step() {
	switch n := w.pick(20); {
	case n < 4: // call service
		svc := w.svcs[w.pick(len(w.svcs))]
		ps := w.randProviders(svc)
		to := int64(1 + w.pick(fzMaxTO()))
		rep := w.pick(3) != 0
		fr := uint64(0)
		tot := int64(0)
		if rep {
			if w.pick(3) != 0 {
				fr = uint64(to) + uint64(w.pick(3))
			}
			tot = int64(1 + w.pick(3))
			if w.pick(5) == 0 {
				tot = -1
			}
		}
		consumer := w.accts[w.pick(2)]
		msg := types.NewMsgCallService(svc, ps, consumer, fzInput, sdk.NewCoins(sdk.NewInt64Coin("stake", int64(1+w.pick(5)))), to, w.pick(4) == 0, rep, fr, tot)
		res, err := w.deliver(msg)
		w.logf("call svc=%s nprov=%d to=%d rep=%v fr=%d tot=%d cons=%d err=%v", svc, len(ps), to, rep, fr, tot, bytes.Compare(consumer, w.accts[0]), err)
		if err == nil {
			for _, ev := range res.Events {
				for _, a := range ev.Attributes {
					if string(a.Key) == types.AttributeKeyRequestContextID {
						id, _ := hexDecode(string(a.Value))
						w.ctxIDs = append(w.ctxIDs, id)
						w.logf("  -> ctx %s", short(id))
					}
				}
			}
		}
	case n < 6: // module creates
		var nid tmbytes.HexBytes
		err := w.moduleTx(func(c sdk.Context) error {
			var e error
			nid, e = w.createModCtx(c)
			return e
		})
		w.logf("modcreate %s err=%v", short(nid), err)
		if err == nil {
			w.ctxIDs = append(w.ctxIDs, nid)
			w.modCtx[nid.String()] = true
		}
	case n < 12: // respond to some active request
		var reqs []tmbytes.HexBytes
		st := w.ctx.KVStore(w.app.GetKey(types.StoreKey))
		it := sdk.KVStorePrefixIterator(st, types.ActiveRequestByIDKey)
		for ; it.Valid(); it.Next() {
			reqs = append(reqs, append([]byte{}, it.Key()[1:]...))
		}
		it.Close()
		if len(reqs) == 0 {
			return
		}
		cnt := 1 + w.pick(3)
		for i := 0; i < cnt; i++ {
			rid := reqs[w.pick(len(reqs))]
			req, ok := w.k.GetRequest(w.ctx, rid)
			if !ok || len(req.Provider) != 20 {
				continue
			}
			result, output := fzResult, fzOutput
			switch w.pick(6) {
			case 0:
				output = fzBadOut
			case 1:
				result, output = fzResErr, ""
			}
			_, err := w.deliver(types.NewMsgRespondService(rid, req.Provider, result, output))
			w.logf("respond ctx=%s batch=%d out=%q err=%v", short(req.RequestContextId), req.RequestContextBatchCounter, output, err)
		}
	case n < 13:
		id := w.randCtxID()
		rc, _ := w.k.GetRequestContext(w.ctx, id)
		_, err := w.deliver(types.NewMsgPauseRequestContext(id, rc.Consumer))
		w.logf("pause %s err=%v", short(id), err)
	case n < 14:
		id := w.randCtxID()
		rc, _ := w.k.GetRequestContext(w.ctx, id)
		_, err := w.deliver(types.NewMsgStartRequestContext(id, rc.Consumer))
		w.logf("start %s err=%v", short(id), err)
	case n < 15:
		id := w.randCtxID()
		rc, _ := w.k.GetRequestContext(w.ctx, id)
		_, err := w.deliver(types.NewMsgKillRequestContext(id, rc.Consumer))
		w.logf("kill %s err=%v", short(id), err)
	case n < 16:
		id := w.randCtxID()
		rc, _ := w.k.GetRequestContext(w.ctx, id)
		to := int64(w.pick(5))
		fr := uint64(0)
		if w.pick(2) == 0 {
			fr = uint64(to) + uint64(w.pick(3))
		}
		tot := int64(0)
		switch w.pick(4) {
		case 0:
			tot = int64(rc.BatchCounter)
		case 1:
			tot = int64(rc.BatchCounter) + 1
		case 2:
			tot = -1
		}
		var ps []sdk.AccAddress
		if w.pick(3) == 0 && rc.ServiceName != "" {
			ps = w.randProviders(rc.ServiceName)
		}
		_, err := w.deliver(types.NewMsgUpdateRequestContext(id, ps, nil, to, fr, tot, rc.Consumer))
		w.logf("update %s to=%d fr=%d tot=%d np=%d err=%v", short(id), to, fr, tot, len(ps), err)
		if err == nil && tot != 0 {
			fzTotUpd[id.String()] = true
		}
	case n < 17: // module acts in own tx
		var own []tmbytes.HexBytes
		for _, x := range w.ctxIDs {
			if w.modCtx[x.String()] {
				own = append(own, x)
			}
		}
		if len(own) == 0 {
			return
		}
		id := own[len(own)-1-w.pick(minInt(len(own), 4))]
		_ = w.moduleTx(func(c sdk.Context) error { w.modAct(c, id, "modtx"); return nil })
	case n < 18: // binding ops
		svc := w.svcs[w.pick(len(w.svcs))]
		p := w.provs[svc][w.pick(len(w.provs[svc]))]
		if w.pick(2) == 0 {
			_, err := w.deliver(types.NewMsgDisableServiceBinding(svc, p, w.owner))
			w.logf("disable err=%v", err)
		} else {
			_, err := w.deliver(types.NewMsgEnableServiceBinding(svc, p, sdk.NewCoins(sdk.NewInt64Coin("stake", int64(w.pick(3)*5000+1))), w.owner))
			w.logf("enable err=%v", err)
		}
	case n < 19: // params
		p := w.k.GetParams(w.ctx)
		switch w.pick(4) {
		case 0:
			p.MaxRequestTimeout = int64(1 + w.pick(6))
		case 1:
			p.SlashFraction = sdk.NewDecWithPrec(int64(w.pick(11)), 1)
		case 2:
			p.ServiceFeeTax = sdk.NewDecWithPrec(int64(w.pick(10)), 1)
		case 3:
			p.MinDepositMultiple = int64(1 + w.pick(3000))
		}
		w.k.SetParams(w.ctx, p)
		w.logf("params %v", p.MaxRequestTimeout)
	default: // fund or drain poor consumer
		if w.pick(2) == 0 {
			_ = w.app.BankKeeper.SendCoins(w.ctx, w.accts[7], w.accts[1], sdk.NewCoins(sdk.NewInt64Coin("stake", int64(1+w.pick(20)))))
		}
	}
}

func hexDecode(s string) (tmbytes.HexBytes, error) {
	bz, e := hex.DecodeString(s)
	return bz, e
}

// invariants; afterEnd: additionally check the expiry clauses for height h
func (w *fzWorld) check(afterEnd bool) (hard []string, soft []string) {
	ctx := w.ctx
	st := ctx.KVStore(w.app.GetKey(types.StoreKey))
	ctxs := map[string]types.RequestContext{}
	w.k.IterateRequestContexts(ctx, func(id tmbytes.HexBytes, rc types.RequestContext) bool {
		ctxs[id.String()] = rc
		return false
	})
	reqs := map[string]types.CompactRequest{}
	w.k.IterateRequests(ctx, func(id tmbytes.HexBytes, r types.CompactRequest) bool {
		reqs[id.String()] = r
		rc, ok := ctxs[r.RequestContextId.String()]
		if !ok {
			hard = append(hard, fmt.Sprintf("request %s of missing context", id))
		} else if rc.BatchCounter != r.RequestContextBatchCounter {
			hard = append(hard, fmt.Sprintf("request %s of batch %d, context at batch %d", id, r.RequestContextBatchCounter, rc.BatchCounter))
		}
		if !bytes.Equal(id[:40], r.RequestContextId) || binary.BigEndian.Uint64(id[40:48]) != r.RequestContextBatchCounter {
			hard = append(hard, fmt.Sprintf("request %s key mismatch", id))
		}
		if afterEnd && r.ExpirationHeight <= ctx.BlockHeight() {
			hard = append(hard, fmt.Sprintf("request %s expired at %d still there", id, r.ExpirationHeight))
		}
		return false
	})
	w.k.IterateResponses(ctx, func(id tmbytes.HexBytes, r types.Response) bool {
		if _, ok := reqs[id.String()]; !ok {
			hard = append(hard, fmt.Sprintf("response %s without request", id))
		}
		rc, ok := ctxs[r.RequestContextId.String()]
		if !ok {
			hard = append(hard, fmt.Sprintf("response %s of missing context", id))
		} else if rc.BatchCounter != r.RequestContextBatchCounter {
			hard = append(hard, fmt.Sprintf("response %s stale batch", id))
		}
		return false
	})
	byID := map[string]bool{}
	it := sdk.KVStorePrefixIterator(st, types.ActiveRequestByIDKey)
	for ; it.Valid(); it.Next() {
		id := tmbytes.HexBytes(it.Key()[1:])
		byID[id.String()] = true
		if _, ok := reqs[id.String()]; !ok {
			hard = append(hard, fmt.Sprintf("active-by-id %s without request", id))
		}
	}
	it.Close()
	byB := map[string]bool{}
	it = sdk.KVStorePrefixIterator(st, types.ActiveRequestKey)
	for ; it.Valid(); it.Next() {
		var v gogotypes.BytesValue
		w.app.AppCodec().MustUnmarshalBinaryBare(it.Value(), &v)
		id := tmbytes.HexBytes(v.Value)
		if byB[id.String()] {
			hard = append(hard, fmt.Sprintf("active-by-binding %s listed twice", id))
		}
		byB[id.String()] = true
		if !byID[id.String()] {
			hard = append(hard, fmt.Sprintf("active-by-binding %s not in by-id", id))
		}
		if _, ok := reqs[id.String()]; !ok {
			hard = append(hard, fmt.Sprintf("active-by-binding %s without request", id))
		}
	}
	it.Close()
	for id := range byID {
		if !byB[id] {
			hard = append(hard, fmt.Sprintf("active-by-id %s not in by-binding", id))
		}
	}
	// queues
	it = sdk.KVStorePrefixIterator(st, types.ExpiredRequestBatchKey)
	exp := map[string]int64{}
	for ; it.Valid(); it.Next() {
		h := int64(binary.BigEndian.Uint64(it.Key()[1:9]))
		id := tmbytes.HexBytes(it.Key()[9:])
		if _, ok := ctxs[id.String()]; !ok {
			soft = append(soft, fmt.Sprintf("expiry entry of missing context %s at %d", short(id), h))
		}
		if _, dup := exp[id.String()]; dup {
			soft = append(soft, fmt.Sprintf("two expiry entries %s", short(id)))
		}
		exp[id.String()] = h
		if afterEnd && h <= ctx.BlockHeight() {
			soft = append(soft, fmt.Sprintf("expiry entry in the past %s at %d", short(id), h))
		}
	}
	it.Close()
	it = sdk.KVStorePrefixIterator(st, types.NewRequestBatchKey)
	nb := map[string]int64{}
	for ; it.Valid(); it.Next() {
		h := int64(binary.BigEndian.Uint64(it.Key()[1:9]))
		id := tmbytes.HexBytes(it.Key()[9:])
		if _, ok := ctxs[id.String()]; !ok {
			soft = append(soft, fmt.Sprintf("new-batch entry of missing context %s at %d", short(id), h))
		}
		nb[id.String()] = h
		if afterEnd && h <= ctx.BlockHeight() {
			soft = append(soft, fmt.Sprintf("new-batch entry in the past %s at %d", short(id), h))
		}
		if _, both := exp[id.String()]; both {
			soft = append(soft, fmt.Sprintf("both queues %s", short(id)))
		}
	}
	it.Close()
	if afterEnd {
		for id, rc := range ctxs {
			_, inflight := exp[id]
			if inflight {
				continue
			}
			if !rc.Repeated && rc.BatchCounter >= 1 {
				hard = append(hard, fmt.Sprintf("one-shot context %s finished but still there (state %s)", id[:8], rc.State))
			}
			if rc.Repeated && rc.RepeatedTotal > 0 && int64(rc.BatchCounter) >= rc.RepeatedTotal {
				upd := ""
				if !fzTotUpd[id] {
					upd = "NOUPD-"
				}
				soft = append(soft, fmt.Sprintf(upd+"SOFT-total-%s repeated context %s total reached (%d/%d) but still there", rc.State, id[:8], rc.BatchCounter, rc.RepeatedTotal))
			}
			if rc.State == types.COMPLETED {
				soft = append(soft, fmt.Sprintf("SOFT-killed context %s killed, no batch in flight, still there (batch %d)", id[:8], rc.BatchCounter))
			}
			// requests of a context without in-flight batch
			for rid, r := range reqs {
				if r.RequestContextId.String() == id {
					hard = append(hard, fmt.Sprintf("request %s of context with no batch in flight", rid))
				}
			}
		}
	}
	return
}

func (w *fzWorld) endBlock() (err error) {
	defer func() {
		if r := recover(); r != nil {
			err = fmt.Errorf("panic in EndBlocker: %v", r)
		}
	}()
	w.inEnd = true
	service.EndBlocker(w.ctx, w.k)
	w.inEnd = false
	return nil
}

func TestFuzzC16(t *testing.T) {
	seeds := 200
	if s := os.Getenv("FZ_SEEDS"); s != "" {
		seeds, _ = strconv.Atoi(s)
	}
	start := int64(0)
	if s := os.Getenv("FZ_START"); s != "" {
		start, _ = strconv.ParseInt(s, 10, 64)
	}
	softSeen := map[string]int{}
	for seed := start; seed < start+int64(seeds); seed++ {
		w := newFzWorld(t, seed)
		failed := false
		for blk := 0; blk < fzBlocks() && !failed; blk++ {
			nops := w.pick(fzOps())
			for i := 0; i < nops && !failed; i++ {
				w.step()
				hard, _ := w.check(false)
				if len(hard) > 0 {
					t.Errorf("seed %d: after step: %v", seed, hard)
					failed = true
				}
			}
			if failed {
				break
			}
			if err := w.endBlock(); err != nil {
				t.Errorf("seed %d: %v", seed, err)
				failed = true
				break
			}
			w.logf("endblock")
			hard, soft := w.check(true)
			if len(hard) > 0 {
				t.Errorf("seed %d: after endblock %d: %v", seed, w.ctx.BlockHeight(), hard)
				failed = true
			}
			for _, s := range soft {
				key := s
				if len(key) > 18 {
					key = key[:18]
				}
				if softSeen[key] == 0 {
					t.Logf("seed %d h=%d soft: %s", seed, w.ctx.BlockHeight(), s)
					if os.Getenv("FZ_SOFTLOG") != "" {
						for _, l := range w.log {
							t.Log(l)
						}
					}
				}
				softSeen[key]++
			}
			w.ctx = w.ctx.WithBlockHeight(w.ctx.BlockHeight() + 1).WithBlockTime(w.ctx.BlockTime().Add(5 * time.Second))
		}
		if failed {
			for _, l := range w.log {
				t.Log(l)
			}
			return
		}
	}
	t.Logf("soft summary: %v", softSeen)
}

func envInt(k string, d int) int {
	if s := os.Getenv(k); s != "" {
		v, _ := strconv.Atoi(s)
		return v
	}
	return d
}
func fzMaxTO() int  { return envInt("FZ_MAXTO", 4) }
func fzBlocks() int { return envInt("FZ_BLOCKS", 60) }
func fzOps() int    { return envInt("FZ_OPS", 5) }

var fzTotUpd = map[string]bool{}
