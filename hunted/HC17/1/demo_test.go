package service_test

// C17 finding 1: the gRPC query "bindings of a service of one owner" answers with the
// bindings of ANOTHER owner and ANOTHER service when the owner argument is not 20 bytes long.

import (
	"fmt"
	"testing"
	"time"

	"github.com/stretchr/testify/require"

	"github.com/tendermint/tendermint/crypto/tmhash"
	tmproto "github.com/tendermint/tendermint/proto/tendermint/types"

	sdk "github.com/cosmos/cosmos-sdk/types"

	service "github.com/irismod/service"
	simapp "github.com/irismod/service/app"
	"github.com/irismod/service/types"
)

func TestFinding1(t *testing.T) {
	app := simapp.Setup(false)
	ctx := app.BaseApp.NewContext(false, tmproto.Header{Height: 1, Time: time.Unix(1600000000, 0).UTC()})
	k := app.ServiceKeeper
	k.SetParams(ctx, types.DefaultParams())
	addrs := simapp.AddTestAddrs(app, ctx, 3, sdk.NewInt(1000000000))
	author, owner, provider := addrs[0], addrs[1], addrs[2]

	// deliver a message the way baseapp does
	txSeq := 0
	deliver := func(msg sdk.Msg) {
		require.NoError(t, msg.ValidateBasic())
		txSeq++
		cctx, write := ctx.CacheContext()
		cctx = cctx.WithValue(types.TxHash, tmhash.Sum([]byte(fmt.Sprintf("tx-%d", txSeq)))).WithValue(types.MsgIndex, int64(0))
		_, err := service.NewHandler(k)(cctx, msg)
		require.NoError(t, err)
		write()
	}

	const schemas = `{"input":{"type":"object"},"output":{"type":"object"}}`
	deposit := sdk.NewCoins(sdk.NewInt64Coin("stake", 100000))

	// history: two services, "svc" and "vc"; the owner binds a provider to "svc" only
	deliver(types.NewMsgDefineService("svc", "", nil, author, "", schemas))
	deliver(types.NewMsgDefineService("vc", "", nil, author, "", schemas))
	deliver(types.NewMsgBindService("svc", provider, deposit, `{"price":"2stake"}`, 1, "{}", owner))

	goCtx := sdk.WrapSDKContext(ctx)

	// sanity: the well-formed queries are right
	res, err := k.Bindings(goCtx, &types.QueryBindingsRequest{ServiceName: "svc", Owner: owner})
	require.NoError(t, err)
	require.Len(t, res.ServiceBindings, 1)
	res, err = k.Bindings(goCtx, &types.QueryBindingsRequest{ServiceName: "vc", Owner: owner})
	require.NoError(t, err)
	require.Len(t, res.ServiceBindings, 0)
	res, err = k.Bindings(goCtx, &types.QueryBindingsRequest{ServiceName: "vc"})
	require.NoError(t, err)
	require.Len(t, res.ServiceBindings, 0, "nobody has bound service vc")

	// a non-existing owner: the 21-byte address owner|'s'. It owns nothing, and service "vc" has no binding at all.
	ghost := sdk.AccAddress(append(append([]byte{}, owner.Bytes()...), 's'))
	stored := 0
	k.IterateServiceBindings(ctx, func(b types.ServiceBinding) bool {
		if b.ServiceName == "vc" && b.Owner.Equals(ghost) {
			stored++
		}
		return false
	})
	require.Equal(t, 0, stored)

	res, err = k.Bindings(goCtx, &types.QueryBindingsRequest{ServiceName: "vc", Owner: ghost})
	if err == nil {
		for _, b := range res.ServiceBindings {
			t.Errorf("C17 violated: query bindings(service=%q, owner=%X) returned the binding {service=%q provider=%s owner=%X}; "+
				"the store holds %d bindings of that service and owner",
				"vc", ghost.Bytes(), b.ServiceName, b.Provider, b.Owner.Bytes(), stored)
		}
	}

	// the same with a 19-byte owner argument: the last byte of the real owner moves into the service name
	ghost2 := sdk.AccAddress(owner.Bytes()[:19])
	name2 := string(owner.Bytes()[19:]) + "svc"
	res, err = k.Bindings(goCtx, &types.QueryBindingsRequest{ServiceName: name2, Owner: ghost2})
	if err == nil {
		for _, b := range res.ServiceBindings {
			t.Errorf("C17 violated: query bindings(service=%q, owner=%X) returned the binding {service=%q provider=%s owner=%X}; "+
				"no such service and no such owner exist",
				name2, ghost2.Bytes(), b.ServiceName, b.Provider, b.Owner.Bytes())
		}
	}
}
