package service_test

// C17 finding 2: the legacy query interface does not give the same answers as the gRPC interface
// for records that contain a string which is not valid UTF-8 (accepted by ValidateBasic and the handlers).

import (
	"fmt"
	"testing"
	"time"

	"github.com/stretchr/testify/require"

	abci "github.com/tendermint/tendermint/abci/types"
	"github.com/tendermint/tendermint/crypto/tmhash"
	tmproto "github.com/tendermint/tendermint/proto/tendermint/types"

	sdk "github.com/cosmos/cosmos-sdk/types"

	service "github.com/irismod/service"
	simapp "github.com/irismod/service/app"
	"github.com/irismod/service/keeper"
	"github.com/irismod/service/types"
)

func TestFinding2(t *testing.T) {
	app := simapp.Setup(false)
	ctx := app.BaseApp.NewContext(false, tmproto.Header{Height: 1, Time: time.Unix(1600000000, 0).UTC()})
	k := app.ServiceKeeper
	k.SetParams(ctx, types.DefaultParams())
	addrs := simapp.AddTestAddrs(app, ctx, 4, sdk.NewInt(1000000000))
	author, owner, provider, consumer := addrs[0], addrs[1], addrs[2], addrs[3]

	txSeq := 0
	var lastTx []byte
	deliver := func(msg sdk.Msg) {
		require.NoError(t, msg.ValidateBasic())
		txSeq++
		lastTx = tmhash.Sum([]byte(fmt.Sprintf("tx-%d", txSeq)))
		cctx, write := ctx.CacheContext()
		cctx = cctx.WithValue(types.TxHash, lastTx).WithValue(types.MsgIndex, int64(0))
		_, err := service.NewHandler(k)(cctx, msg)
		require.NoError(t, err)
		write()
	}

	const schemas = `{"input":{"type":"object"},"output":{"type":"object"}}`
	deposit := sdk.NewCoins(sdk.NewInt64Coin("stake", 100000))
	feeCap := sdk.NewCoins(sdk.NewInt64Coin("stake", 10))

	// history: a definition whose description holds the byte 0xff, a binding, and a call whose input holds 0xfe
	description := "price feed \xff v1"
	input := "{\"header\":{},\"body\":{\"pair\":\"a\xfeb\"}}"
	deliver(types.NewMsgDefineService("svc", description, nil, author, "", schemas))
	deliver(types.NewMsgBindService("svc", provider, deposit, `{"price":"2stake"}`, 1, "{}", owner))
	deliver(types.NewMsgCallService("svc", []sdk.AccAddress{provider}, consumer, input, feeCap, 5, false, false, 0, 0))
	ctxID := types.GenerateRequestContextID(lastTx, 0)
	service.EndBlocker(ctx, k)

	goCtx := sdk.WrapSDKContext(ctx)
	cdc := app.LegacyAmino()
	legacy := keeper.NewQuerier(k, cdc)

	// definition: stored record, gRPC answer, legacy answer
	stored, found := k.GetServiceDefinition(ctx, "svc")
	require.True(t, found)
	require.Equal(t, description, stored.Description)

	gres, err := k.Definition(goCtx, &types.QueryDefinitionRequest{ServiceName: "svc"})
	require.NoError(t, err)
	require.Equal(t, description, gres.ServiceDefinition.Description, "gRPC returns the stored description")

	bz, err := legacy(ctx, []string{types.QueryDefinition}, abci.RequestQuery{Data: cdc.MustMarshalJSON(types.QueryDefinitionParams{ServiceName: "svc"})})
	require.NoError(t, err)
	var ldef types.ServiceDefinition
	require.NoError(t, cdc.UnmarshalJSON(bz, &ldef))
	if ldef.Description != gres.ServiceDefinition.Description {
		t.Errorf("C17 violated: definition query: legacy answers description %q, gRPC answers %q (stored: %q)",
			ldef.Description, gres.ServiceDefinition.Description, stored.Description)
	}

	// the request issued for the call, as the provider would read it
	rres, err := k.Requests(goCtx, &types.QueryRequestsRequest{ServiceName: "svc", Provider: provider})
	require.NoError(t, err)
	require.Len(t, rres.Requests, 1)
	require.Equal(t, input, rres.Requests[0].Input, "gRPC returns the input stored in the context")

	bz, err = legacy(ctx, []string{types.QueryRequests}, abci.RequestQuery{Data: cdc.MustMarshalJSON(types.QueryRequestsParams{ServiceName: "svc", Provider: provider})})
	require.NoError(t, err)
	var lreqs []types.Request
	require.NoError(t, cdc.UnmarshalJSON(bz, &lreqs))
	require.Len(t, lreqs, 1)
	if lreqs[0].Input != rres.Requests[0].Input {
		t.Errorf("C17 violated: pending-requests query: legacy answers input %q, gRPC answers %q", lreqs[0].Input, rres.Requests[0].Input)
	}

	// the request context
	cres, err := k.RequestContext(goCtx, &types.QueryRequestContextRequest{RequestContextId: ctxID})
	require.NoError(t, err)
	require.Equal(t, input, cres.RequestContext.Input)
	bz, err = legacy(ctx, []string{types.QueryRequestContext}, abci.RequestQuery{Data: cdc.MustMarshalJSON(types.QueryRequestContextParams{RequestContextID: ctxID})})
	require.NoError(t, err)
	var lrc types.RequestContext
	require.NoError(t, cdc.UnmarshalJSON(bz, &lrc))
	if lrc.Input != cres.RequestContext.Input {
		t.Errorf("C17 violated: request-context query: legacy answers input %q, gRPC answers %q", lrc.Input, cres.RequestContext.Input)
	}
}
