module deliver
