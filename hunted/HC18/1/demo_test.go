package service_test

import (
	"testing"

	"github.com/stretchr/testify/require"

	tmproto "github.com/tendermint/tendermint/proto/tendermint/types"

	sdk "github.com/cosmos/cosmos-sdk/types"

	service "github.com/irismod/service"
	simapp "github.com/irismod/service/app"
	"github.com/irismod/service/types"
)

// deliverF1 runs a message the way baseapp does: ValidateBasic, then the handler on a
// cache context that is written back only when the handler succeeds.
func deliverF1(t *testing.T, ctx sdk.Context, h sdk.Handler, msg sdk.Msg) {
	require.NoError(t, msg.ValidateBasic())

	cacheCtx, write := ctx.CacheContext()
	_, err := h(cacheCtx, msg)
	require.NoError(t, err)

	write()
}

// TestFinding1: the "bindings of an owner" scan returns the bindings of ANOTHER owner and of
// ANOTHER service when the owner argument is not 20 bytes long, because the scan prefix
// owner|serviceName|0x00 has no separator between the owner and the service name.
func TestFinding1(t *testing.T) {
	app := simapp.Setup(false)
	ctx := app.BaseApp.NewContext(false, tmproto.Header{Height: 1})
	k := app.ServiceKeeper
	k.SetParams(ctx, types.DefaultParams())
	h := service.NewHandler(k)

	addrs := simapp.AddTestAddrs(app, ctx, 3, sdk.NewInt(1000000))
	author, owner, provider := addrs[0], addrs[1], addrs[2]
	require.Len(t, owner, 20)

	schemas := `{"input":{"type":"object"},"output":{"type":"object"}}`
	pricing := `{"price":"2stake"}`
	deposit := sdk.NewCoins(sdk.NewCoin(sdk.DefaultBondDenom, sdk.NewInt(10000)))

	// two valid service names; "bc" is a suffix of "abc"
	deliverF1(t, ctx, h, types.NewMsgDefineService("abc", "", nil, author, "", schemas))
	deliverF1(t, ctx, h, types.NewMsgDefineService("bc", "", nil, author, "", schemas))

	// the 20-byte owner binds a provider to "abc" only; nobody has a binding for "bc"
	deliverF1(t, ctx, h, types.NewMsgBindService("abc", provider, deposit, pricing, 10, "{}", owner))

	// sanity: the correct question gives the correct answer
	res, err := k.Bindings(sdk.WrapSDKContext(ctx), &types.QueryBindingsRequest{ServiceName: "abc", Owner: owner})
	require.NoError(t, err)
	require.Len(t, res.ServiceBindings, 1)

	res, err = k.Bindings(sdk.WrapSDKContext(ctx), &types.QueryBindingsRequest{ServiceName: "bc", Owner: owner})
	require.NoError(t, err)
	require.Len(t, res.ServiceBindings, 0)

	// a different account: the 21-byte address owner|'a'. It owns nothing.
	otherOwner := sdk.AccAddress(append(append([]byte{}, owner...), 'a'))
	require.False(t, otherOwner.Equals(owner))

	res, err = k.Bindings(sdk.WrapSDKContext(ctx), &types.QueryBindingsRequest{ServiceName: "bc", Owner: otherOwner})
	if err != nil {
		// refusing an owner that cannot exist is fine as well
		return
	}

	for _, b := range res.ServiceBindings {
		t.Errorf(
			"scan for the bindings of owner %X and service %q returned a record of owner %X and service %q (provider %X)",
			[]byte(otherOwner), "bc", []byte(b.Owner), b.ServiceName, []byte(b.Provider),
		)
	}
	require.Len(t, res.ServiceBindings, 0, "the scan by (owner, service) must return exactly the records of its subject")
}
