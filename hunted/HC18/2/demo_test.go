package service_test

import (
	"testing"

	"github.com/stretchr/testify/require"

	"github.com/tendermint/tendermint/crypto/tmhash"
	tmbytes "github.com/tendermint/tendermint/libs/bytes"
	tmproto "github.com/tendermint/tendermint/proto/tendermint/types"

	sdk "github.com/cosmos/cosmos-sdk/types"

	simapp "github.com/irismod/service/app"
	"github.com/irismod/service/types"
)

// TestFinding2: GenerateRequestContextID returns append(txHash, msgIndex...) without copying the
// hash. When the host's tx-hash slice has spare capacity, the IDs of all contexts created by the
// messages of one transaction share one backing array: building the ID of message 1 rewrites the
// ID that was handed out for message 0. The ID of message 0 then no longer decodes to message
// index 0 and is equal to the ID of message 1.
func TestFinding2(t *testing.T) {
	// the 32-byte hash of the transaction, held by the host in a buffer with room behind it
	buf := make([]byte, 32, 64)
	copy(buf, tmhash.Sum([]byte("some tx")))
	txHash := buf[:32]

	// ---- the ID functions by themselves
	id0 := types.GenerateRequestContextID(txHash, 0)
	id1 := types.GenerateRequestContextID(txHash, 1)

	require.Len(t, id0, types.ContextIDLen)
	require.Len(t, id1, types.ContextIDLen)

	_, gotIndex0, err := types.SplitRequestContextID(id0)
	require.NoError(t, err)
	_, gotIndex1, err := types.SplitRequestContextID(id1)
	require.NoError(t, err)

	if gotIndex0 != 0 || id0.String() == id1.String() {
		t.Errorf(
			"pure functions: ID built from (tx, msg 0) is %s and decodes to msg index %d; ID built from (tx, msg 1) is %s and decodes to msg index %d",
			id0, gotIndex0, id1, gotIndex1,
		)
	}

	// ---- no spare capacity needed: decode an ID, then build the ID of another message of the same transaction
	exactHash := tmhash.Sum([]byte("third tx")) // len 32, cap 32
	idA := types.GenerateRequestContextID(exactHash, 0)
	idAText := idA.String()

	decodedHash, decodedIndex, err := types.SplitRequestContextID(idA)
	require.NoError(t, err)
	require.Equal(t, int64(0), decodedIndex)

	idB := types.GenerateRequestContextID(decodedHash, 5)

	if idA.String() != idAText || idA.String() == idB.String() {
		t.Errorf(
			"split+generate: the ID %s of (tx, msg 0) turned into %s when the ID of (tx, msg 5) = %s was built from its decoded hash",
			idAText, idA, idB,
		)
	}

	// ---- the same through the keeper: a module creates one context in each of the two messages of a transaction
	app := simapp.Setup(false)
	ctx := app.BaseApp.NewContext(false, tmproto.Header{Height: 1})
	k := app.ServiceKeeper
	k.SetParams(ctx, types.DefaultParams())

	addrs := simapp.AddTestAddrs(app, ctx, 3, sdk.NewInt(1000000))
	author, provider, consumer := addrs[0], addrs[1], addrs[2]

	require.NoError(t, k.RegisterResponseCallback("mod", func(sdk.Context, tmbytes.HexBytes, []string, error) {}))
	require.NoError(t, k.RegisterStateCallback("mod", func(sdk.Context, tmbytes.HexBytes, string) {}))

	schemas := `{"input":{"type":"object"},"output":{"type":"object"}}`
	require.NoError(t, k.AddServiceDefinition(ctx, "svc", "", nil, author, "", schemas))

	buf2 := make([]byte, 32, 64)
	copy(buf2, tmhash.Sum([]byte("another tx")))
	hostHash := buf2[:32]

	feeCap := sdk.NewCoins(sdk.NewCoin(sdk.DefaultBondDenom, sdk.NewInt(10)))
	create := func(msgIndex int64, input string) tmbytes.HexBytes {
		msgCtx := ctx.WithValue(types.TxHash, hostHash).WithValue(types.MsgIndex, msgIndex)
		id, err := k.CreateRequestContext(
			msgCtx, "svc", []sdk.AccAddress{provider}, consumer, input, feeCap,
			10, false, true, 10, 5, types.PAUSED, 1, "mod",
		)
		require.NoError(t, err)
		return id
	}

	ctxID0 := create(0, `{"header":{},"body":{"msg":0}}`)
	ctxID1 := create(1, `{"header":{},"body":{"msg":1}}`)

	_, idx0, err := types.SplitRequestContextID(ctxID0)
	require.NoError(t, err)
	_, idx1, err := types.SplitRequestContextID(ctxID1)
	require.NoError(t, err)

	rc0, found := k.GetRequestContext(ctx, ctxID0)
	require.True(t, found)

	if idx0 != 0 || ctxID0.String() == ctxID1.String() || rc0.Input != `{"header":{},"body":{"msg":0}}` {
		t.Errorf(
			"keeper: the ID returned for the context of message 0 is %s (decodes to msg index %d, looks up the context with input %s); the ID returned for message 1 is %s (msg index %d)",
			ctxID0, idx0, rc0.Input, ctxID1, idx1,
		)
	}

	require.Equal(t, int64(0), gotIndex0, "the ID built from message index 0 must decode back to message index 0")
	require.NotEqual(t, id0.String(), id1.String(), "distinct (tx hash, message index) inputs must give distinct IDs")
	require.Equal(t, int64(0), idx0, "the ID returned for message 0 must decode back to message index 0")
	require.NotEqual(t, ctxID0.String(), ctxID1.String(), "the two contexts of one transaction must have distinct IDs")
}
