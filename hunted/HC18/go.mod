module deliver
