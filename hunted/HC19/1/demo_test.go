package service_test

// C19 - "State survives export and re-import": strings that are not valid UTF-8.
//
// Every text field of the module (service description, author description, tags,
// schemas, binding options, request input, ...) is accepted with arbitrary bytes:
// ValidateBasic and the handlers only look at byte lengths / JSON syntax. The
// genesis JSON writer replaces every invalid byte by U+FFFD (3 bytes), so the
// genesis that is written is NOT the genesis that was exported:
//   - a 280 byte description becomes 840 bytes -> the file fails ValidateGenesis
//     and InitGenesis panics (the exported chain cannot be started);
//   - tags "\xff" and "\xfe" become the same tag -> "duplicate tag";
//   - request inputs / options / schemas are silently changed.

import (
	"bytes"
	"fmt"
	"strings"
	"testing"
	"time"

	abci "github.com/tendermint/tendermint/abci/types"
	"github.com/tendermint/tendermint/crypto/tmhash"
	tmproto "github.com/tendermint/tendermint/proto/tendermint/types"

	"github.com/cosmos/cosmos-sdk/crypto/keys/secp256k1"
	"github.com/cosmos/cosmos-sdk/simapp/helpers"
	sdk "github.com/cosmos/cosmos-sdk/types"
	authtypes "github.com/cosmos/cosmos-sdk/x/auth/types"
	banktypes "github.com/cosmos/cosmos-sdk/x/bank/types"

	service "github.com/irismod/service"
	simapp "github.com/irismod/service/app"
	"github.com/irismod/service/types"
)

const (
	f1Schemas = `{"input":{"type":"object"},"output":{"type":"object"}}`
)

func f1Coins(n int64) sdk.Coins { return sdk.NewCoins(sdk.NewInt64Coin(sdk.DefaultBondDenom, n)) }

// f1Deliver delivers a message the way baseapp does: ValidateBasic, then the handler on a
// cache context that is written back only on success. If the message is refused (which is what
// a repaired tree does with these messages) the history is impossible and the subtest ends.
func f1Deliver(t *testing.T, app *simapp.SimApp, ctx sdk.Context, seq int, msg sdk.Msg) {
	t.Helper()
	if err := msg.ValidateBasic(); err != nil {
		t.Skipf("%T is refused by ValidateBasic, nothing to check: %v", msg, err)
	}
	txHash := tmhash.Sum([]byte(fmt.Sprintf("finding-1-tx-%d", seq)))
	cctx, write := ctx.WithValue(types.TxHash, txHash).WithValue(types.MsgIndex, int64(0)).CacheContext()
	if _, err := service.NewHandler(app.ServiceKeeper)(cctx, msg); err != nil {
		t.Skipf("%T is refused by the handler, nothing to check: %v", msg, err)
	}
	write()
}

// f1Cycle: zero-height preparation, export, write JSON, read back, validate, import into a
// fresh chain, export again, compare. Returns the violations of C19.
func f1Cycle(app *simapp.SimApp, ctx sdk.Context) (violations []string) {
	add := func(f string, a ...interface{}) { violations = append(violations, fmt.Sprintf(f, a...)) }
	cdc := app.AppCodec()
	k := app.ServiceKeeper

	service.PrepForZeroHeightGenesis(ctx, k)
	exported := service.ExportGenesis(ctx, k)
	if err := types.ValidateGenesis(*exported); err != nil {
		add("the exported genesis does not pass ValidateGenesis: %v", err)
		return
	}

	bz, err := cdc.MarshalJSON(exported) // what AppModule.ExportGenesis writes
	if err != nil {
		add("the exported genesis cannot be written as JSON: %v", err)
		return
	}
	var readBack types.GenesisState
	if err := cdc.UnmarshalJSON(bz, &readBack); err != nil { // what AppModule.InitGenesis / ValidateGenesis read
		add("the genesis JSON cannot be read back: %v", err)
		return
	}
	if err := types.ValidateGenesis(readBack); err != nil {
		add("the genesis passes ValidateGenesis when exported, but NOT after it has been written as JSON and read back: %v", err)
	}

	app2 := simapp.Setup(false)
	ctx2 := app2.BaseApp.NewContext(false, tmproto.Header{Height: 1, Time: ctx.BlockTime()})
	func() {
		defer func() {
			if r := recover(); r != nil {
				add("importing the written genesis into a fresh chain panics: %v", r)
			}
		}()
		service.InitGenesis(ctx2, app2.ServiceKeeper, readBack)
	}()
	again := service.ExportGenesis(ctx2, app2.ServiceKeeper)

	if len(again.Definitions) != len(exported.Definitions) {
		add("definitions: %d exported, %d after re-import", len(exported.Definitions), len(again.Definitions))
	} else {
		for i := range exported.Definitions {
			a, b := exported.Definitions[i], again.Definitions[i]
			if !bytes.Equal(cdc.MustMarshalBinaryBare(&a), cdc.MustMarshalBinaryBare(&b)) {
				add("definition %q is not identical after export -> import -> export:\n   description %q -> %q\n   tags %q -> %q\n   schemas %q -> %q",
					a.Name, a.Description, b.Description, a.Tags, b.Tags, a.Schemas, b.Schemas)
			}
		}
	}
	if len(again.Bindings) != len(exported.Bindings) {
		add("bindings: %d exported, %d after re-import", len(exported.Bindings), len(again.Bindings))
	} else {
		for i := range exported.Bindings {
			a, b := exported.Bindings[i], again.Bindings[i]
			if !bytes.Equal(cdc.MustMarshalBinaryBare(&a), cdc.MustMarshalBinaryBare(&b)) {
				add("binding %s/%s is not identical after export -> import -> export: options %q -> %q", a.ServiceName, a.Provider, a.Options, b.Options)
			}
		}
	}
	if len(again.RequestContexts) != len(exported.RequestContexts) {
		add("request contexts: %d exported, %d after re-import", len(exported.RequestContexts), len(again.RequestContexts))
	} else {
		for id, a := range exported.RequestContexts {
			b, ok := again.RequestContexts[id]
			if !ok {
				add("request context %s is missing after re-import", id)
				continue
			}
			if !bytes.Equal(cdc.MustMarshalBinaryBare(a), cdc.MustMarshalBinaryBare(b)) {
				add("request context %s is not identical after export -> import -> export: input %q -> %q", id, a.Input, b.Input)
			}
		}
	}
	return violations
}

func TestFinding1(t *testing.T) {
	// precondition: such a message is accepted by the real transaction pipeline (protobuf tx
	// decoder, signature verification with SIGN_MODE_DIRECT, ante handler, ValidateBasic, handler)
	t.Run("a signed tx with a non-UTF-8 description is accepted by baseapp", func(t *testing.T) {
		priv := secp256k1.GenPrivKey()
		addr := sdk.AccAddress(priv.PubKey().Address())
		app := simapp.SetupWithGenesisAccounts(
			[]authtypes.GenesisAccount{&authtypes.BaseAccount{Address: addr}},
			banktypes.Balance{Address: addr, Coins: f1Coins(1000000)},
		)
		msg := types.NewMsgDefineService("svc", strings.Repeat("\xff", types.MaxDescriptionLength), nil, addr, "", f1Schemas)
		txCfg := simapp.MakeEncodingConfig().TxConfig
		tx, err := helpers.GenTx(txCfg, []sdk.Msg{msg}, sdk.Coins{sdk.NewInt64Coin(sdk.DefaultBondDenom, 0)},
			helpers.DefaultGenTxGas, "", []uint64{0}, []uint64{0}, priv)
		if err != nil {
			t.Fatal(err)
		}
		txBytes, err := txCfg.TxEncoder()(tx)
		if err != nil {
			t.Fatal(err)
		}
		if res := app.DeliverTx(abci.RequestDeliverTx{Tx: txBytes}); res.Code != 0 {
			t.Skipf("the tx was rejected (code %d: %s)", res.Code, res.Log)
		}
		def, found := app.ServiceKeeper.GetServiceDefinition(app.BaseApp.NewContext(false, tmproto.Header{}), "svc")
		if !found || def.Description != strings.Repeat("\xff", types.MaxDescriptionLength) {
			t.Skip("the definition was not stored as sent")
		}
	})

	newChain := func(t *testing.T) (*simapp.SimApp, sdk.Context, []sdk.AccAddress) {
		app := simapp.Setup(false)
		ctx := app.BaseApp.NewContext(false, tmproto.Header{Height: 1, Time: time.Date(2020, 1, 1, 0, 0, 0, 0, time.UTC)})
		app.ServiceKeeper.SetParams(ctx, types.DefaultParams())
		return app, ctx, simapp.AddTestAddrs(app, ctx, 4, sdk.NewInt(1000000))
	}

	t.Run("description of the maximum length: the written genesis is invalid", func(t *testing.T) {
		app, ctx, addrs := newChain(t)
		// 280 bytes = MaxDescriptionLength: accepted. Written to JSON each byte becomes U+FFFD = 3 bytes.
		f1Deliver(t, app, ctx, 1, types.NewMsgDefineService("svc", strings.Repeat("\xff", types.MaxDescriptionLength), nil, addrs[0], "", f1Schemas))
		for _, v := range f1Cycle(app, ctx) {
			t.Errorf("C19 violated: %s", v)
		}
	})

	t.Run("two different tags become duplicates: the written genesis is invalid", func(t *testing.T) {
		app, ctx, addrs := newChain(t)
		f1Deliver(t, app, ctx, 1, types.NewMsgDefineService("svc", "", []string{"\xff", "\xfe"}, addrs[0], "", f1Schemas))
		for _, v := range f1Cycle(app, ctx) {
			t.Errorf("C19 violated: %s", v)
		}
	})

	t.Run("options and request input are silently changed", func(t *testing.T) {
		app, ctx, addrs := newChain(t)
		author, owner, provider, consumer := addrs[0], addrs[1], addrs[2], addrs[3]
		f1Deliver(t, app, ctx, 1, types.NewMsgDefineService("svc", "", nil, author, "", f1Schemas))
		f1Deliver(t, app, ctx, 2, types.NewMsgBindService("svc", provider, f1Coins(10000), `{"price":"2stake"}`, 1, "{\"k\":\"\xff\"}", owner))
		f1Deliver(t, app, ctx, 3, types.NewMsgCallService("svc", []sdk.AccAddress{provider}, consumer,
			"{\"header\":{},\"body\":{\"k\":\"\xff\"}}", f1Coins(10), 5, false, true, 6, 10))
		service.EndBlocker(ctx, app.ServiceKeeper)
		ctx = ctx.WithBlockHeader(tmproto.Header{Height: 2, Time: ctx.BlockTime().Add(5 * time.Second)})
		for _, v := range f1Cycle(app, ctx) {
			t.Errorf("C19 violated: %s", v)
		}
	})
}
