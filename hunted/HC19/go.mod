module deliver
