package service_test

// Finding 1 - a bind / update-binding message that passes ValidateBasic makes the handler panic
// ("NewIntFromBigInt() out of bound") when its price is written with a decimal point and has
// more than 77 integer digits.

import (
	"fmt"
	"strings"
	"testing"

	"github.com/tendermint/tendermint/crypto/tmhash"
	tmproto "github.com/tendermint/tendermint/proto/tendermint/types"

	sdk "github.com/cosmos/cosmos-sdk/types"

	service "github.com/irismod/service"
	simapp "github.com/irismod/service/app"
	"github.com/irismod/service/types"
)

type f1Node struct {
	t   *testing.T
	app *simapp.SimApp
	ctx sdk.Context
	h   sdk.Handler
	seq int
}

func f1NewNode(t *testing.T) *f1Node {
	app := simapp.Setup(false)
	ctx := app.BaseApp.NewContext(false, tmproto.Header{Height: 1})
	app.ServiceKeeper.SetParams(ctx, types.DefaultParams())
	return &f1Node{t: t, app: app, ctx: ctx, h: service.NewHandler(app.ServiceKeeper)}
}

func (n *f1Node) fund(addr sdk.AccAddress, amt int64) {
	n.app.AccountKeeper.SetAccount(n.ctx, n.app.AccountKeeper.NewAccountWithAddress(n.ctx, addr))
	coins := sdk.NewCoins(sdk.NewCoin("stake", sdk.NewInt(amt)))
	if _, err := n.app.BankKeeper.AddCoins(n.ctx, addr, coins); err != nil {
		n.t.Fatal(err)
	}
	supply := n.app.BankKeeper.GetSupply(n.ctx)
	supply.Inflate(coins)
	n.app.BankKeeper.SetSupply(n.ctx, supply)
}

// deliver runs a message the way baseapp does: ValidateBasic, then the handler on a cache
// context that is written back only if the handler neither fails nor panics.
func (n *f1Node) deliver(msg sdk.Msg) (validateErr, handlerErr error, panicked interface{}) {
	if err := msg.ValidateBasic(); err != nil {
		return err, nil, nil
	}
	n.seq++
	ctx := n.ctx.
		WithValue(types.TxHash, tmhash.Sum([]byte(fmt.Sprintf("tx-%d", n.seq)))).
		WithValue(types.MsgIndex, int64(0))
	cacheCtx, write := ctx.CacheContext()
	func() {
		defer func() {
			if r := recover(); r != nil {
				panicked = r
			}
		}()
		_, handlerErr = n.h(cacheCtx, msg)
	}()
	if handlerErr == nil && panicked == nil {
		write()
	}
	return nil, handlerErr, panicked
}

func f1Addr(b byte) sdk.AccAddress {
	a := make([]byte, 20)
	for i := range a {
		a[i] = b
	}
	return a
}

func TestFinding1(t *testing.T) {
	n := f1NewNode(t)
	author, owner, provider := f1Addr(1), f1Addr(2), f1Addr(3)
	n.fund(owner, 1000000)

	deposit := sdk.NewCoins(sdk.NewCoin("stake", sdk.NewInt(10000)))
	schemas := `{"input":{"type":"object"},"output":{"type":"object"}}`

	vErr, hErr, p := n.deliver(types.NewMsgDefineService("svc", "", nil, author, "", schemas))
	if vErr != nil || hErr != nil || p != nil {
		t.Fatalf("setup: define service: %v %v %v", vErr, hErr, p)
	}
	vErr, hErr, p = n.deliver(types.NewMsgBindService("svc", provider, deposit, `{"price":"1stake"}`, 1, "{}", owner))
	if vErr != nil || hErr != nil || p != nil {
		t.Fatalf("setup: bind service: %v %v %v", vErr, hErr, p)
	}

	// 1 followed by 77 zeros is 10^77 > 2^255: too large for sdk.Int.
	// Written WITH a decimal point the string is accepted by sdk.ParseDecCoin, which has no size limit.
	hugePricing := `{"price":"1` + strings.Repeat("0", 77) + `.0stake"}`

	msgs := map[string]sdk.Msg{
		"MsgBindService":          types.NewMsgBindService("svc", f1Addr(4), deposit, hugePricing, 1, "{}", owner),
		"MsgUpdateServiceBinding": types.NewMsgUpdateServiceBinding("svc", provider, nil, hugePricing, 0, "{}", owner),
	}

	for _, name := range []string{"MsgBindService", "MsgUpdateServiceBinding"} {
		vErr, hErr, p := n.deliver(msgs[name])
		if vErr != nil {
			t.Fatalf("%s: expected the message to pass stateless validation, got %v", name, vErr)
		}
		if p != nil {
			t.Errorf("C20 violated: %s passes ValidateBasic but makes the handler PANIC: %v (handler error: %v)", name, p, hErr)
			continue
		}
		if hErr == nil {
			t.Errorf("%s: a price of 10^77 stake was accepted", name)
		}
	}
}
