package service_test

// Finding 2 - the stateless validation of MsgDefineService resolves "$ref"s of the user supplied
// JSON schemas by reading local files and by HTTP GET. Whether the message is accepted therefore
// depends on the file system / network of the process that executes the block: replaying the very
// same history yields different module state.

import (
	"fmt"
	"io/ioutil"
	"net/http"
	"net/http/httptest"
	"os"
	"path/filepath"
	"sync/atomic"
	"testing"

	"github.com/tendermint/tendermint/crypto/tmhash"
	tmproto "github.com/tendermint/tendermint/proto/tendermint/types"

	sdk "github.com/cosmos/cosmos-sdk/types"

	service "github.com/irismod/service"
	simapp "github.com/irismod/service/app"
	"github.com/irismod/service/types"
)

func f2Addr(b byte) sdk.AccAddress {
	a := make([]byte, 20)
	for i := range a {
		a[i] = b
	}
	return a
}

// f2Replay executes the history [block 1: msgs..., end of block] on a fresh chain, delivering
// the messages the way baseapp does, and returns a dump of the whole service store.
func f2Replay(t *testing.T, msgs []sdk.Msg) (dump string, accepted []bool) {
	app := simapp.Setup(false)
	ctx := app.BaseApp.NewContext(false, tmproto.Header{Height: 1})
	app.ServiceKeeper.SetParams(ctx, types.DefaultParams())
	h := service.NewHandler(app.ServiceKeeper)

	for i, msg := range msgs {
		ok := false
		if err := msg.ValidateBasic(); err == nil {
			msgCtx := ctx.
				WithValue(types.TxHash, tmhash.Sum([]byte(fmt.Sprintf("tx-%d", i)))).
				WithValue(types.MsgIndex, int64(0))
			cacheCtx, write := msgCtx.CacheContext()
			func() {
				defer func() { _ = recover() }()
				if _, err := h(cacheCtx, msg); err == nil {
					write()
					ok = true
				}
			}()
		}
		accepted = append(accepted, ok)
	}

	service.EndBlocker(ctx, app.ServiceKeeper)

	store := ctx.KVStore(app.GetKey(types.StoreKey))
	it := store.Iterator(nil, nil)
	defer it.Close()
	for ; it.Valid(); it.Next() {
		dump += fmt.Sprintf("%x=%x\n", it.Key(), it.Value())
	}
	return dump, accepted
}

func TestFinding2(t *testing.T) {
	author := f2Addr(1)

	// ---- variant A: a file on the machine that runs the node -------------------------------
	dir, err := ioutil.TempDir("", "f2")
	if err != nil {
		t.Fatal(err)
	}
	defer os.RemoveAll(dir)
	file := filepath.Join(dir, "schema.json")

	fileHistory := []sdk.Msg{
		types.NewMsgDefineService(
			"svc", "", nil, author, "",
			`{"input":{"$ref":"file://`+file+`"},"output":{"type":"object"}}`,
		),
	}

	// "validator 1" happens to have the file, "validator 2" does not
	if err := ioutil.WriteFile(file, []byte(`{"type":"object"}`), 0600); err != nil {
		t.Fatal(err)
	}
	dump1, acc1 := f2Replay(t, fileHistory)
	if err := os.Remove(file); err != nil {
		t.Fatal(err)
	}
	dump2, acc2 := f2Replay(t, fileHistory)

	if dump1 != dump2 {
		t.Errorf("C20 violated (file $ref): the same history gives different module state in two processes:\n"+
			"  replay 1 (file present): message accepted=%v, %d bytes of state\n"+
			"  replay 2 (file absent):  message accepted=%v, %d bytes of state",
			acc1, len(dump1), acc2, len(dump2))
	}

	// ---- variant B: the network ------------------------------------------------------------------
	var hits, fail int32
	srv := httptest.NewServer(http.HandlerFunc(func(w http.ResponseWriter, r *http.Request) {
		atomic.AddInt32(&hits, 1)
		if atomic.LoadInt32(&fail) == 1 {
			http.Error(w, "gone", http.StatusNotFound)
			return
		}
		_, _ = w.Write([]byte(`{"type":"object"}`))
	}))
	defer srv.Close()

	httpHistory := []sdk.Msg{
		types.NewMsgDefineService(
			"svc", "", nil, author, "",
			`{"input":{"type":"object"},"output":{"id":"`+srv.URL+`/base/","properties":{"a":{"$ref":"a.json"}}}}`,
		),
	}

	dump3, acc3 := f2Replay(t, httpHistory)
	atomic.StoreInt32(&fail, 1)
	dump4, acc4 := f2Replay(t, httpHistory)

	if n := atomic.LoadInt32(&hits); n > 0 {
		t.Errorf("C20 violated: executing the block made %d HTTP request(s) to a server named by the message", n)
	}
	if dump3 != dump4 {
		t.Errorf("C20 violated (http $ref): the same history gives different module state depending on what the remote server answers:\n"+
			"  replay 1 (server answers 200): message accepted=%v, %d bytes of state\n"+
			"  replay 2 (server answers 404): message accepted=%v, %d bytes of state",
			acc3, len(dump3), acc4, len(dump4))
	}
}
