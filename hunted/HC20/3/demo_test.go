package service_test

// Finding 3 - EndBlocker panics (chain halt) when a module creates a request context from inside
// its own response callback and that callback is run by EndBlocker (batch expiry): there is no
// transaction at the end of a block, and CreateRequestContext type-asserts the TxHash / MsgIndex
// context values without checking them.

import (
	"fmt"
	"testing"

	"github.com/tendermint/tendermint/crypto/tmhash"
	tmbytes "github.com/tendermint/tendermint/libs/bytes"
	tmproto "github.com/tendermint/tendermint/proto/tendermint/types"

	sdk "github.com/cosmos/cosmos-sdk/types"

	service "github.com/irismod/service"
	simapp "github.com/irismod/service/app"
	"github.com/irismod/service/types"
)

func f3Addr(b byte) sdk.AccAddress {
	a := make([]byte, 20)
	for i := range a {
		a[i] = b
	}
	return a
}

func TestFinding3(t *testing.T) {
	app := simapp.Setup(false)
	ctx := app.BaseApp.NewContext(false, tmproto.Header{Height: 1})
	k := app.ServiceKeeper
	k.SetParams(ctx, types.DefaultParams())
	h := service.NewHandler(k)

	author, owner, provider, consumer := f3Addr(1), f3Addr(2), f3Addr(3), f3Addr(9)
	for _, a := range []sdk.AccAddress{owner, consumer} {
		app.AccountKeeper.SetAccount(ctx, app.AccountKeeper.NewAccountWithAddress(ctx, a))
		coins := sdk.NewCoins(sdk.NewCoin("stake", sdk.NewInt(1000000)))
		if _, err := app.BankKeeper.AddCoins(ctx, a, coins); err != nil {
			t.Fatal(err)
		}
		supply := app.BankKeeper.GetSupply(ctx)
		supply.Inflate(coins)
		app.BankKeeper.SetSupply(ctx, supply)
	}

	seq := 0
	txCtx := func() sdk.Context { // what the host chain does for every message of a transaction
		seq++
		return ctx.WithValue(types.TxHash, tmhash.Sum([]byte(fmt.Sprintf("tx-%d", seq)))).WithValue(types.MsgIndex, int64(0))
	}
	deliver := func(msg sdk.Msg) {
		if err := msg.ValidateBasic(); err != nil {
			t.Fatal(err)
		}
		cacheCtx, write := txCtx().CacheContext()
		if _, err := h(cacheCtx, msg); err != nil {
			t.Fatal(err)
		}
		write()
	}

	input := `{"header":{},"body":{}}`
	feeCap := sdk.NewCoins(sdk.NewCoin("stake", sdk.NewInt(10)))
	providers := []sdk.AccAddress{provider}

	// the other module: when a batch did not bring enough answers it asks once more with a new context
	const moduleName = "asker"
	retries := 0
	if err := k.RegisterResponseCallback(moduleName, func(cbCtx sdk.Context, id tmbytes.HexBytes, outputs []string, cbErr error) {
		if cbErr != nil && retries == 0 {
			retries++
			_, _ = k.CreateRequestContext(cbCtx, "svc", providers, consumer, input, feeCap, 2, false, false, 0, 0, types.RUNNING, 1, moduleName)
		}
	}); err != nil {
		t.Fatal(err)
	}
	if err := k.RegisterStateCallback(moduleName, func(sdk.Context, tmbytes.HexBytes, string) {}); err != nil {
		t.Fatal(err)
	}

	// block 1
	deliver(types.NewMsgDefineService("svc", "", nil, author, "", `{"input":{"type":"object"},"output":{"type":"object"}}`))
	deliver(types.NewMsgBindService("svc", provider, sdk.NewCoins(sdk.NewCoin("stake", sdk.NewInt(10000))), `{"price":"1stake"}`, 1, "{}", owner))
	// the module's own message handler creates its context (TxHash / MsgIndex are set: it is inside a transaction)
	if _, err := k.CreateRequestContext(txCtx(), "svc", providers, consumer, input, feeCap, 2, false, false, 0, 0, types.RUNNING, 1, moduleName); err != nil {
		t.Fatal(err)
	}

	// blocks 1..4: the provider never answers, the batch of block 1 expires at the end of block 3
	for height := int64(1); height <= 4; height++ {
		header := ctx.BlockHeader()
		header.Height = height
		ctx = ctx.WithBlockHeader(header)

		var panicked interface{}
		func() {
			defer func() { panicked = recover() }()
			service.EndBlocker(ctx, k)
		}()
		if panicked != nil {
			t.Fatalf("C20 violated: EndBlocker PANICS at height %d in a reachable state: %v", height, panicked)
		}
	}
}
