package service_test

// Finding 4 - when two modules register a module service under the same service name the provider
// that serves a MsgCallService is chosen by Go map iteration order (keeper.GetModuleServiceByServiceName):
// replaying the same history gives different module state and different balances.

import (
	"fmt"
	"testing"
	"time"

	"github.com/tendermint/tendermint/crypto/tmhash"
	tmproto "github.com/tendermint/tendermint/proto/tendermint/types"

	sdk "github.com/cosmos/cosmos-sdk/types"

	service "github.com/irismod/service"
	simapp "github.com/irismod/service/app"
	"github.com/irismod/service/types"
)

func f4Addr(b byte) sdk.AccAddress {
	a := make([]byte, 20)
	for i := range a {
		a[i] = b
	}
	return a
}

// f4Replay runs the same history on a fresh chain and returns the service store plus the balances
func f4Replay(t *testing.T) string {
	app := simapp.Setup(false)
	ctx := app.BaseApp.NewContext(false, tmproto.Header{Height: 1})
	k := app.ServiceKeeper

	author, owner, consumer := f4Addr(1), f4Addr(2), f4Addr(9)
	providerA, providerB := f4Addr(0xA), f4Addr(0xB)
	depositAcc := k.GetServiceDepositAccount(ctx).GetAddress()
	requestAcc := k.GetServiceRequestAccount(ctx).GetAddress()

	fund := func(a sdk.AccAddress, amt int64) {
		if app.AccountKeeper.GetAccount(ctx, a) == nil {
			app.AccountKeeper.SetAccount(ctx, app.AccountKeeper.NewAccountWithAddress(ctx, a))
		}
		coins := sdk.NewCoins(sdk.NewCoin("stake", sdk.NewInt(amt)))
		if _, err := app.BankKeeper.AddCoins(ctx, a, coins); err != nil {
			t.Fatal(err)
		}
		supply := app.BankKeeper.GetSupply(ctx)
		supply.Inflate(coins)
		app.BankKeeper.SetSupply(ctx, supply)
	}
	fund(consumer, 1000000)
	fund(depositAcc, 20000) // the two genesis deposits below

	// app wiring: two modules each offer "svc" as a module service (nothing refuses the second one)
	answer := func(sdk.Context, string) (string, string) {
		return `{"code":200,"message":""}`, `{"header":{},"body":{}}`
	}
	if err := k.RegisterModuleService("moduleA", &types.ModuleService{ServiceName: "svc", Provider: providerA, ReuquestService: answer}); err != nil {
		t.Fatal(err)
	}
	if err := k.RegisterModuleService("moduleB", &types.ModuleService{ServiceName: "svc", Provider: providerB, ReuquestService: answer}); err != nil {
		t.Logf("the second registration is refused (fixed behaviour): %v", err)
	}

	// genesis: the definition and the bindings of the module providers (the way the oracle module service is set up)
	deposit := sdk.NewCoins(sdk.NewCoin("stake", sdk.NewInt(10000)))
	binding := func(p sdk.AccAddress) types.ServiceBinding {
		return types.NewServiceBinding("svc", p, deposit, `{"price":"5stake"}`, 1, "{}", true, time.Time{}, owner)
	}
	service.InitGenesis(ctx, k, *types.NewGenesisState(
		types.DefaultParams(),
		[]types.ServiceDefinition{types.NewServiceDefinition("svc", "", nil, author, "", `{"input":{"type":"object"},"output":{"type":"object"}}`)},
		[]types.ServiceBinding{binding(providerA), binding(providerB)},
		nil, nil,
	))

	// block 1: six identical calls of the module service, then the end of the block
	h := service.NewHandler(k)
	for i := 0; i < 6; i++ {
		msg := types.NewMsgCallService("svc", []sdk.AccAddress{providerA}, consumer, `{"header":{},"body":{}}`,
			sdk.NewCoins(sdk.NewCoin("stake", sdk.NewInt(10))), 1, false, false, 0, 0)
		if err := msg.ValidateBasic(); err != nil {
			t.Fatal(err)
		}
		msgCtx := ctx.WithValue(types.TxHash, tmhash.Sum([]byte(fmt.Sprintf("tx-%d", i)))).WithValue(types.MsgIndex, int64(0))
		cacheCtx, write := msgCtx.CacheContext()
		if _, err := h(cacheCtx, msg); err != nil {
			t.Fatal(err)
		}
		write()
	}
	service.EndBlocker(ctx, k)

	out := ""
	feesA, _ := k.GetEarnedFees(ctx, providerA)
	feesB, _ := k.GetEarnedFees(ctx, providerB)
	out += fmt.Sprintf("earned fees: providerA=%q providerB=%q\n", feesA.String(), feesB.String())
	for _, a := range []sdk.AccAddress{consumer, owner, providerA, providerB, depositAcc, requestAcc} {
		out += fmt.Sprintf("balance %s = %s\n", a, app.BankKeeper.GetAllBalances(ctx, a))
	}
	store := ctx.KVStore(app.GetKey(types.StoreKey))
	it := store.Iterator(nil, nil)
	defer it.Close()
	for ; it.Valid(); it.Next() {
		out += fmt.Sprintf("%x=%x\n", it.Key(), it.Value())
	}
	return out
}

func f4FirstLine(s string) string {
	for i := range s {
		if s[i] == '\n' {
			return s[:i]
		}
	}
	return s
}

func TestFinding4(t *testing.T) {
	first := f4Replay(t)
	for replay := 2; replay <= 8; replay++ {
		if again := f4Replay(t); again != first {
			t.Fatalf("C20 violated: replay %d of the same history ends in a different module state (map iteration order decides the provider):\n"+
				"  replay 1: %s\n  replay %d: %s", replay, f4FirstLine(first), replay, f4FirstLine(again))
		}
	}
}
