module deliver
