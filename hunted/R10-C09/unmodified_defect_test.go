package service_test

import (
	"context"
	"testing"
	"time"

	"github.com/stretchr/testify/require"

	tmproto "github.com/tendermint/tendermint/proto/tendermint/types"

	sdk "github.com/cosmos/cosmos-sdk/types"

	service "github.com/irismod/service"
	simapp "github.com/irismod/service/app"
	"github.com/irismod/service/types"
)

func TestUnmodifiedKilledContextRestartedAfterZeroHeight(t *testing.T) {
	app := simapp.Setup(false)
	ctx := app.BaseApp.NewContext(false, tmproto.Header{Height: 1})
	k := app.ServiceKeeper
	k.SetParams(ctx, types.DefaultParams())

	addrs := simapp.AddTestAddrs(app, ctx, 3, sdk.NewInt(100000))
	author, provider, consumer := addrs[0], addrs[1], addrs[2]

	schemas := `{"input":{"type":"object"},"output":{"type":"object"}}`
	pricing := `{"price":"2stake"}`
	deposit := sdk.NewCoins(sdk.NewCoin(sdk.DefaultBondDenom, sdk.NewInt(10000)))
	feeCap := sdk.NewCoins(sdk.NewCoin(sdk.DefaultBondDenom, sdk.NewInt(2)))

	k.SetServiceDefinition(ctx, types.NewServiceDefinition("svc", "d", nil, author, "a", schemas))
	binding := types.NewServiceBinding("svc", provider, deposit, pricing, 50, "{}", true, time.Time{}, provider)
	k.SetServiceBinding(ctx, binding)
	k.SetOwner(ctx, provider, provider)
	p, err := k.ParsePricing(ctx, pricing)
	require.NoError(t, err)
	k.SetPricing(ctx, "svc", provider, p)

	// a one-shot context; its only batch is issued at the end of the block
	txCtx := ctx.WithContext(context.WithValue(
		context.WithValue(context.Background(), types.TxHash, []byte("tx-hash-of-the-demo")), types.MsgIndex, int64(0)))
	id, err := k.CreateRequestContext(
		txCtx, "svc", []sdk.AccAddress{provider}, consumer, `{"header":{},"body":{}}`,
		feeCap, 100, false, true, 120, 5, types.RUNNING, 1, "",
	)
	require.NoError(t, err)
	service.EndBlocker(ctx, k)

	rc, found := k.GetRequestContext(ctx, id)
	require.True(t, found)
	require.Equal(t, uint64(1), rc.BatchCounter)

	require.NoError(t, k.KillRequestContext(ctx, id, consumer))

	// the chain is stopped and restarted from a zero-height export
	service.PrepForZeroHeightGenesis(ctx, k)
	genesis := service.ExportGenesis(ctx, k)

	app2 := simapp.Setup(false)
	ctx2 := app2.BaseApp.NewContext(false, tmproto.Header{Height: 1})
	k2 := app2.ServiceKeeper
	service.InitGenesis(ctx2, k2, *genesis)

	before, found := k2.GetRequestContext(ctx2, id)
	require.True(t, found)
	require.Equal(t, types.PAUSED, before.State)

	err = k2.StartRequestContext(ctx2, id, consumer)
	after, _ := k2.GetRequestContext(ctx2, id)
	require.Error(t, err, "C09: a killed (completed) context was restarted after a zero-height export; state now %s", after.State)
}
