package service_test

import (
	"testing"

	"github.com/stretchr/testify/require"

	"github.com/tendermint/tendermint/crypto/tmhash"
	tmproto "github.com/tendermint/tendermint/proto/tendermint/types"

	sdk "github.com/cosmos/cosmos-sdk/types"

	service "github.com/irismod/service"
	simapp "github.com/irismod/service/app"
	"github.com/irismod/service/types"
)

// A killed (completed) context that is still waiting for the expiry of its last batch is reset to PAUSED by
// PrepForZeroHeightGenesis and can then be started again: "completed is final" does not hold across a
// zero-height export.
func TestUnmodifiedCompletedContextRestartedAfterZeroHeightExport(t *testing.T) {
	app := simapp.Setup(false)
	ctx := app.BaseApp.NewContext(false, tmproto.Header{Height: 1})
	k := app.ServiceKeeper
	k.SetParams(ctx, types.DefaultParams())
	h := service.NewHandler(k)

	addrs := simapp.AddTestAddrs(app, ctx, 4, sdk.NewInt(1000000))
	author, owner, provider, consumer := addrs[0], addrs[1], addrs[2], addrs[3]

	deliver := func(ctx sdk.Context, msg sdk.Msg) {
		require.NoError(t, msg.ValidateBasic())
		_, err := h(ctx, msg)
		require.NoError(t, err)
	}

	deliver(ctx, types.NewMsgDefineService("demo-service", "", nil, author, "", `{"input":{"type":"object"},"output":{"type":"object"}}`))
	deliver(ctx, types.NewMsgBindService(
		"demo-service", provider, sdk.NewCoins(sdk.NewCoin(sdk.DefaultBondDenom, sdk.NewInt(10000))), `{"price":"2stake"}`, 1, "{}", owner,
	))

	txHash := tmhash.Sum([]byte("tx"))
	id := types.GenerateRequestContextID(txHash, 0)
	deliver(ctx.WithValue(types.TxHash, txHash).WithValue(types.MsgIndex, int64(0)), types.NewMsgCallService(
		"demo-service", []sdk.AccAddress{provider}, consumer, `{"header":{},"body":{}}`,
		sdk.NewCoins(sdk.NewCoin(sdk.DefaultBondDenom, sdk.NewInt(10))), 10, false, true, 10, 5,
	))
	service.EndBlocker(ctx, k)

	ctx = ctx.WithBlockHeight(2)
	deliver(ctx, types.NewMsgKillRequestContext(id, consumer))
	rc, _ := k.GetRequestContext(ctx, id)
	require.Equal(t, types.COMPLETED, rc.State)

	service.PrepForZeroHeightGenesis(ctx, k)

	rc, found := k.GetRequestContext(ctx, id)
	require.True(t, found)
	require.Equal(t, types.COMPLETED, rc.State, "C09: completed is final, but the zero-height export preparation moved the context to %s", rc.State)
}
