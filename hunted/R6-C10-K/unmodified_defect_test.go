package keeper_test

import (
	"fmt"
	"testing"

	"github.com/stretchr/testify/require"

	"github.com/tendermint/tendermint/crypto/tmhash"
	tmbytes "github.com/tendermint/tendermint/libs/bytes"
	tmproto "github.com/tendermint/tendermint/proto/tendermint/types"

	sdk "github.com/cosmos/cosmos-sdk/types"

	service "github.com/irismod/service"
	simapp "github.com/irismod/service/app"
	"github.com/irismod/service/keeper"
	"github.com/irismod/service/types"
)

type udChain struct {
	t       *testing.T
	app     *simapp.SimApp
	ctx     sdk.Context
	keeper  keeper.Keeper
	handler sdk.Handler
	addrs   []sdk.AccAddress
}

func newUDChain(t *testing.T) *udChain {
	app := simapp.Setup(false)
	ctx := app.BaseApp.NewContext(false, tmproto.Header{Height: 1})
	app.ServiceKeeper.SetParams(ctx, types.DefaultParams())
	addrs := simapp.AddTestAddrsIncremental(app, ctx, 4, sdk.NewInt(1000000))

	return &udChain{t: t, app: app, ctx: ctx, keeper: app.ServiceKeeper, handler: service.NewHandler(app.ServiceKeeper), addrs: addrs}
}

func (c *udChain) deliver(tx string, msg sdk.Msg) {
	require.NoError(c.t, msg.ValidateBasic())
	cacheCtx, write := c.ctx.CacheContext()
	cacheCtx = cacheCtx.WithValue(types.TxHash, tmhash.Sum([]byte(tx))).WithValue(types.MsgIndex, int64(0))
	_, err := c.handler(cacheCtx, msg)
	require.NoError(c.t, err)
	write()
}

func (c *udChain) endBlock() {
	service.EndBlocker(c.ctx, c.keeper)
	c.ctx = c.ctx.WithBlockHeight(c.ctx.BlockHeight() + 1)
}

func (c *udChain) setup() {
	c.deliver("define", types.NewMsgDefineService("svc", "desc", nil, c.addrs[0], "author",
		`{"input":{"type":"object"},"output":{"type":"object"}}`))
	c.deliver("bind", types.NewMsgBindService("svc", c.addrs[2],
		sdk.NewCoins(sdk.NewInt64Coin(sdk.DefaultBondDenom, 10000)), `{"price":"2stake"}`, 1, "{}", c.addrs[1]))
}

// 1. a one-shot context exported (zero-height) while its only batch is in flight, imported and started again
func TestUnmodifiedOneShotAfterGenesis(t *testing.T) {
	old := newUDChain(t)
	old.setup()
	provider, consumer := old.addrs[2], old.addrs[3]

	old.deliver("call", types.NewMsgCallService("svc", []sdk.AccAddress{provider}, consumer, `{"header":{},"body":{}}`,
		sdk.NewCoins(sdk.NewInt64Coin(sdk.DefaultBondDenom, 10)), 3, false, false, 0, 0))
	id := tmbytes.HexBytes(types.GenerateRequestContextID(tmhash.Sum([]byte("call")), 0))

	old.endBlock() // the only batch is issued at height 1 and expires at height 4
	old.endBlock()

	rc, _ := old.keeper.GetRequestContext(old.ctx, id)
	require.Equal(t, uint64(1), rc.BatchCounter)

	service.PrepForZeroHeightGenesis(old.ctx, old.keeper)
	genesis := service.ExportGenesis(old.ctx, old.keeper)

	fresh := newUDChain(t) // same (incremental) addresses, funded
	service.InitGenesis(fresh.ctx, fresh.keeper, *genesis)

	fresh.deliver("start", types.NewMsgStartRequestContext(id, consumer))
	for i := 0; i < 10; i++ {
		fresh.endBlock()
		if rc, found := fresh.keeper.GetRequestContext(fresh.ctx, id); found {
			require.True(t, rc.BatchCounter <= 1, fmt.Sprintf(
				"C10 violated: a one-shot context never gets more than one batch, batch counter is %d at height %d of the new chain",
				rc.BatchCounter, fresh.ctx.BlockHeight()-1))
		}
	}
}

// 2. governance changes BaseDenom while a repeated context is running, and changes it back three blocks later
func TestUnmodifiedCadenceAcrossBaseDenomChange(t *testing.T) {
	c := newUDChain(t)
	c.setup()
	provider, consumer := c.addrs[2], c.addrs[3]

	c.deliver("call", types.NewMsgCallService("svc", []sdk.AccAddress{provider}, consumer, `{"header":{},"body":{}}`,
		sdk.NewCoins(sdk.NewInt64Coin(sdk.DefaultBondDenom, 10)), 3, false, true, 5, 4))
	id := tmbytes.HexBytes(types.GenerateRequestContextID(tmhash.Sum([]byte("call")), 0))

	setBaseDenom := func(denom string) {
		params := c.keeper.GetParams(c.ctx)
		params.BaseDenom = denom
		require.NoError(t, params.Validate())
		c.keeper.SetParams(c.ctx, params)
	}

	var starts []int64
	last := uint64(0)
	for i := 0; i < 25; i++ {
		height := c.ctx.BlockHeight()
		if height == 5 {
			setBaseDenom("iris")
		}
		if height == 8 {
			setBaseDenom(sdk.DefaultBondDenom)
		}

		c.endBlock()

		if rc, found := c.keeper.GetRequestContext(c.ctx, id); found {
			require.Equal(t, types.RUNNING, rc.State)
			require.Equal(t, int64(3), rc.Timeout)
			require.Equal(t, uint64(5), rc.RepeatedFrequency)
			if rc.BatchCounter != last {
				last = rc.BatchCounter
				starts = append(starts, height)
			}
		}
	}

	for i := 1; i < len(starts); i++ {
		require.True(t, starts[i]-starts[i-1] == 5, fmt.Sprintf(
			"C10 violated: the context stayed running with unchanged timeout and frequency (5), but its batches started at heights %v", starts))
	}
}
