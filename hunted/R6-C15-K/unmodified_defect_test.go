package keeper_test

import (
	"testing"

	"github.com/stretchr/testify/require"
	tmproto "github.com/tendermint/tendermint/proto/tendermint/types"

	sdk "github.com/cosmos/cosmos-sdk/types"

	service "github.com/irismod/service"
	simapp "github.com/irismod/service/app"
	"github.com/irismod/service/types"
)

func TestUnmodifiedShortProviderRestart(t *testing.T) {
	app := simapp.Setup(false)
	ctx := app.BaseApp.NewContext(false, tmproto.Header{Height: 1})
	k := app.ServiceKeeper
	k.SetParams(ctx, types.DefaultParams())
	addrs := simapp.AddTestAddrs(app, ctx, 3, sdk.NewInt(1000000))
	h := service.NewHandler(k)

	schemas := `{"input":{"type":"object"},"output":{"type":"object"}}`
	msg := types.NewMsgDefineService("svc", "", nil, addrs[0], "", schemas)
	require.NoError(t, msg.ValidateBasic())
	_, err := h(ctx, msg)
	require.NoError(t, err)

	bind := types.NewMsgBindService("svc", sdk.AccAddress([]byte{1, 2, 3, 4, 5}), sdk.NewCoins(sdk.NewInt64Coin("stake", 10000)), `{"price":"1stake"}`, 10, "{}", addrs[1])
	require.NoError(t, bind.ValidateBasic())
	_, err = h(ctx, bind)
	require.NoError(t, err)

	gs := service.ExportGenesis(ctx, k)
	bz, err := app.AppCodec().MarshalJSON(gs)
	require.NoError(t, err)
	t.Log(string(bz))
	var gs2 types.GenesisState
	require.NoError(t, app.AppCodec().UnmarshalJSON(bz, &gs2))
	require.NoError(t, types.ValidateGenesis(gs2))
}
