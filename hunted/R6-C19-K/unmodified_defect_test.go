package service_test

import (
	"fmt"
	"testing"

	"github.com/stretchr/testify/require"

	"github.com/tendermint/tendermint/crypto/tmhash"
	tmproto "github.com/tendermint/tendermint/proto/tendermint/types"

	sdk "github.com/cosmos/cosmos-sdk/types"

	service "github.com/irismod/service"
	simapp "github.com/irismod/service/app"
	"github.com/irismod/service/types"
)

type udChain struct {
	t      *testing.T
	app    *simapp.SimApp
	ctx    sdk.Context
	handle sdk.Handler
	txs    int
}

func newUDChain(t *testing.T) *udChain {
	app := simapp.Setup(false)
	ctx := app.BaseApp.NewContext(false, tmproto.Header{Height: 1})
	app.ServiceKeeper.SetParams(ctx, types.DefaultParams())

	return &udChain{t: t, app: app, ctx: ctx, handle: service.NewHandler(app.ServiceKeeper)}
}

func (c *udChain) deliver(msg sdk.Msg) {
	require.NoError(c.t, msg.ValidateBasic())

	c.txs++
	cacheCtx, write := c.ctx.CacheContext()
	cacheCtx = cacheCtx.WithValue(types.TxHash, tmhash.Sum([]byte(fmt.Sprintf("ud-tx-%d", c.txs)))).WithValue(types.MsgIndex, int64(0))

	_, err := c.handle(cacheCtx, msg)
	require.NoError(c.t, err)

	write()
}

func (c *udChain) endBlock() {
	service.EndBlocker(c.ctx, c.app.ServiceKeeper)
	c.ctx = c.ctx.WithBlockHeight(c.ctx.BlockHeight() + 1)
}

const udSchemas = `{"input":{"type":"object"},"output":{"type":"object"}}`

// A binding whose provider is not 20 bytes long (accepted by MsgBindService.ValidateBasic and by the
// handler) is exported, passes ValidateGenesis and is written as JSON, but the JSON cannot be read back.
func TestUnmodifiedShortProviderGenesisJSON(t *testing.T) {
	c := newUDChain(t)
	addrs := simapp.AddTestAddrsIncremental(c.app, c.ctx, 2, sdk.NewInt(1000000))
	author, owner := addrs[0], addrs[1]

	c.deliver(types.NewMsgDefineService("demo-svc", "", nil, author, "", udSchemas))
	c.deliver(types.NewMsgBindService("demo-svc", sdk.AccAddress("short"), sdk.NewCoins(sdk.NewInt64Coin("stake", 10000)), `{"price":"2stake"}`, 10, "{}", owner))
	c.endBlock()

	service.PrepForZeroHeightGenesis(c.ctx, c.app.ServiceKeeper)
	exported := service.ExportGenesis(c.ctx, c.app.ServiceKeeper)
	require.NoError(t, types.ValidateGenesis(*exported))

	bz, err := c.app.AppCodec().MarshalJSON(exported)
	require.NoError(t, err)

	var back types.GenesisState
	require.NoError(t, c.app.AppCodec().UnmarshalJSON(bz, &back),
		"C19 violated on the unmodified tree: the exported genesis cannot be read back from JSON")
}
