package main

import (
	"crypto/sha256"
	"encoding/hex"
	"fmt"
	"sort"
	"strings"
	"time"

	sdk "github.com/cosmos/cosmos-sdk/types"

	servicekeeper "github.com/irismod/service/keeper"
	st "github.com/irismod/service/types"
)

// ---------------------------------------------------------------------------------------------
// Universe of addresses. Signers (owners, consumers, responding providers, author, stranger) are 20 bytes,
// as any account that can sign on a real chain. Pp is a provider address that is a strict byte-prefix of
// P1; it never signs anything.

func addr20(name string) sdk.AccAddress {
	b := []byte(name)
	for len(b) < 20 {
		b = append(b, '_')
	}
	return sdk.AccAddress(b[:20])
}

var (
	AU = addr20("author")
	O1 = addr20("owner1")
	O2 = addr20("owner2")
	C1 = addr20("consumer1")
	C2 = addr20("consumer2")
	P1 = addr20("provider1")
	P2 = addr20("provider2")
	P3 = addr20("provider3")
	P4 = addr20("provider4")
	Pp = sdk.AccAddress(P1[:1])
	PL = sdk.AccAddress(append(append([]byte{}, P1...), 0x01))                                        // 21 bytes, P1 is a strict byte-prefix of it
	P0 = sdk.AccAddress(append([]byte{0x00, 'p', '0', 0x00, 'z', 0x00}, []byte("______________")...)) // 20 bytes with zero bytes in front and inside
	W1 = addr20("withdraw1")
	XX = addr20("stranger")
)

var addrNames = map[string]sdk.AccAddress{
	"AU": AU, "O1": O1, "O2": O2, "C1": C1, "C2": C2, "P1": P1, "P2": P2, "P3": P3, "P4": P4, "Pp": Pp, "PL": PL, "P0": P0, "W1": W1, "XX": XX,
}

func A(name string) sdk.AccAddress {
	a, ok := addrNames[name]
	if !ok {
		panic("unknown address name " + name)
	}
	return a
}

func nameOf(a []byte) string {
	for n, x := range addrNames {
		if string(x) == string(a) {
			return n
		}
	}
	if hexs(a) == unknownAcc {
		return "unknown-address"
	}
	return "0x" + hexs(a)
}

func coins(n int64) sdk.Coins {
	if n == 0 {
		return sdk.Coins{}
	}
	return sdk.NewCoins(sdk.NewInt64Coin(denom, n))
}

const (
	schemasOK = `{"input":{"type":"object"},"output":{"type":"object"}}`
	inputOK   = `{"header":{},"body":{}}`
	resultOK  = `{"code":200,"message":""}`
	result400 = `{"code":400,"message":"no"}`
	outputOK  = `{"header":{},"body":{}}`
	outputBad = `{}` // valid JSON, passes stateless validation, fails the output schema (no header)
)

// Pricing table (DESIGN 3.3 "PR"). Time windows are relative to T0 (1 block = 1 s).
func pricingText(name string) string {
	ts := func(sec int) string { return T0.Add(timeSec(sec)).Format("2006-01-02T15:04:05Z") }
	switch name {
	case "p0":
		return `{"price":"0stake"}`
	case "p1":
		return `{"price":"1stake"}`
	case "p1v":
		return `{"price":"1stake","promotions_by_volume":[{"volume":1,"discount":"0.5"}]}`
	case "p2":
		return `{"price":"2stake"}`
	case "p2v":
		return `{"price":"2stake","promotions_by_volume":[{"volume":1,"discount":"0.5"}]}`
	case "p3vv":
		return `{"price":"3stake","promotions_by_volume":[{"volume":1,"discount":"0.7"},{"volume":2,"discount":"0.4"}]}`
	case "p1t":
		return fmt.Sprintf(`{"price":"1stake","promotions_by_time":[{"start_time":"%s","end_time":"%s","discount":"0.5"}]}`, ts(2), ts(4))
	case "p1te": // a time promotion that is open when the chain starts and ends two seconds later
		return fmt.Sprintf(`{"price":"1stake","promotions_by_time":[{"start_time":"%s","end_time":"%s","discount":"0.5"}]}`, ts(0), ts(2))
	case "p1tp": // a time promotion that ended before the chain started
		return fmt.Sprintf(`{"price":"1stake","promotions_by_time":[{"start_time":"%s","end_time":"%s","discount":"0.5"}]}`, ts(-10), ts(-5))
	case "p4t":
		return fmt.Sprintf(`{"price":"4stake","promotions_by_time":[{"start_time":"%s","end_time":"%s","discount":"0.5"}]}`, ts(1), ts(3))
	case "p4tr": // two disjoint windows listed newest first (rejected by the unmodified module)
		return fmt.Sprintf(`{"price":"4stake","promotions_by_time":[{"start_time":"%s","end_time":"%s","discount":"0.9"},{"start_time":"%s","end_time":"%s","discount":"0.5"}]}`, ts(5), ts(7), ts(1), ts(3))
	case "p20t": // base 20, half price during the first three seconds
		return fmt.Sprintf(`{"price":"20stake","promotions_by_time":[{"start_time":"%s","end_time":"%s","discount":"0.5"}]}`, ts(0), ts(3))
	case "p3t": // 3stake at half price during the first six seconds: 1.5 -> fee 1
		return fmt.Sprintf(`{"price":"3stake","promotions_by_time":[{"start_time":"%s","end_time":"%s","discount":"0.5"}]}`, ts(0), ts(6))
	case "p4tms": // a window whose ends carry fractions of a second: [T0+1.5s, T0+3.9s)
		return fmt.Sprintf(`{"price":"4stake","promotions_by_time":[{"start_time":"%s","end_time":"%s","discount":"0.5"}]}`,
			T0.Add(1500*time.Millisecond).Format("2006-01-02T15:04:05.000Z"), T0.Add(3900*time.Millisecond).Format("2006-01-02T15:04:05.000Z"))
	case "p4vd": // volume promotions listed in descending order of volume (refused by the unmodified module)
		return `{"price":"4stake","promotions_by_volume":[{"volume":2,"discount":"0.5"},{"volume":1,"discount":"0.75"}]}`
	case "p5":
		return `{"price":"5stake"}`
	case "p20":
		return `{"price":"20stake"}`
	case "p100":
		return `{"price":"100stake"}`
	case "p4v7": // 4 -> 2.8 after the first response: fraction above one half
		return `{"price":"4stake","promotions_by_volume":[{"volume":1,"discount":"0.7"}]}`
	case "p5v3": // 5 -> 1.5 after the first response: fraction of exactly one half above an odd number
		return `{"price":"5stake","promotions_by_volume":[{"volume":1,"discount":"0.3"}]}`
	case "p1h": // published with a fraction below the smallest unit: stored as 1
		return `{"price":"1.5stake"}`
	case "p1x": // an extra property inside a promotion: the pricing schema refuses it, the keeper's parser would not notice
		return `{"price":"1stake","promotions_by_volume":[{"volume":1,"discount":"0.5","note":"x"}]}`
	case "p1d": // a "discount" above 1: refused by the schema only
		return `{"price":"1stake","promotions_by_volume":[{"volume":1,"discount":"1.5"}]}`
	// prices in a main unit or a foreign token (host chain with a token module, scenario S-FX)
	case "fusd1": // 1usd = 100cent
		return `{"price":"1usd"}`
	case "fusd1v":
		return `{"price":"1usd","promotions_by_volume":[{"volume":1,"discount":"0.5"}]}`
	case "fcent150":
		return `{"price":"150cent"}`
	case "fkilo2": // 0.002kilo = 2stake
		return `{"price":"0.002kilo"}`
	case "fkilo20": // 0.02kilo = 20stake
		return `{"price":"0.02kilo"}`
	case "fkilo1h": // 0.0015kilo = 1.5stake, stored as 1
		return `{"price":"0.0015kilo"}`
	case "fyen": // a token the host chain does not know
		return `{"price":"1yen"}`
	}
	panic("unknown pricing " + name)
}

// Template is a call template. The context ID is a pure function of the template (tx hash = f(index)), so
// two paths creating the same contexts in different orders merge.
type Template struct {
	Name        string
	Consumer    string
	Service     string
	Providers   []string
	Cap         int64
	CapBig      string // decimal fee cap beyond int64 (used instead of Cap when set)
	Timeout     int64
	Super       bool
	Repeated    bool
	Freq        uint64
	Total       int64
	Module      string // non-empty: created through the keeper API by "another module"
	Input       string // request input ("" = a plain valid one)
	StartPaused bool   // module templates: the context is created in state PAUSED
	SameTxAs    string // created while handling the same message as the named template (same tx hash and message index)
	Threshold   uint32
}

func (sc *Scenario) TxHash(ti int) []byte {
	if o := sc.Templates[ti].SameTxAs; o != "" {
		for j := range sc.Templates {
			if sc.Templates[j].Name == o {
				return sc.TxHash(j)
			}
		}
		panic("unknown template " + o)
	}
	h := sha256.Sum256([]byte("tmpl:" + sc.Templates[ti].Name))
	b := h[:]
	// the first byte decides the processing order inside EndBlocker; FlipIDs reverses it
	if sc.FlipIDs {
		b[0] = byte(0xF0 - ti)
	} else {
		b[0] = byte(0x10 + ti)
	}
	return b
}

func (sc *Scenario) CtxID(ti int) []byte {
	return st.GenerateRequestContextID(sc.TxHash(ti), 0)
}

func (sc *Scenario) TemplateOfCtx(idHex string) int {
	for i := range sc.Templates {
		if hexs(sc.CtxID(i)) == idHex {
			return i
		}
	}
	return -1
}

// Action is one transition label.
type Action struct {
	Name     string
	Kind     string // define bind update disable enable refund setw withdraw call respond pause start kill updctx E mcreate mpause mstart mkill mupdate
	Msg      sdk.Msg
	TxHash   []byte
	Mod      func(ctx sdk.Context, k servicekeeper.Keeper) error
	TimeStep int64 // E only: seconds by which the block time advances (0 = one second)
	Carry    bool  // Mod only: the calling module ignores a refusal and carries on with its message, so what the keeper wrote before refusing stays

	Signer   sdk.AccAddress
	Svc      string
	Prov     sdk.AccAddress
	Dep      int64
	Pricing  string // text
	QoS      uint64
	Tmpl     int
	Ctx      string // hex
	Req      string // hex
	RespKind string // ok bad noout
	Upd      string
	To       sdk.AccAddress
}

func (a Action) IsE() bool { return a.Kind == "E" }

// actDefineSplitTags: two neighbouring tags that split one multi-byte character between them (each is invalid UTF-8, their concatenation is valid).
func actDefineSplitTags(name, author string) Action {
	return Action{Name: fmt.Sprintf("define(%s,%s,tags splitting a character)", name, author), Kind: "define", Svc: name, Signer: A(author), Tmpl: -1,
		Msg: st.NewMsgDefineService(name, "d", []string{"caf\xc3", "\xa9-bar"}, A(author), "a", schemasOK)}
}

func actE() Action { return Action{Name: "E", Kind: "E", Tmpl: -1} }

// actEJump: an end of block after which the next block's time lies `sec` seconds later instead of one (block times
// are only required to increase): windows and periods measured in time can be jumped over.
func actEJump(sec int64) Action {
	return Action{Name: fmt.Sprintf("E+%ds", sec), Kind: "E", Tmpl: -1, TimeStep: sec}
}

// actDefineBytes: a definition whose free-text fields hold bytes that are not valid UTF-8 (a protobuf transaction can
// carry them; the JSON genesis cannot).
func actDefineBytes(name, author string) Action {
	return Action{Name: fmt.Sprintf("define(%s,%s,non-utf8 text)", name, author), Kind: "define", Svc: name, Signer: A(author), Tmpl: -1,
		Msg: st.NewMsgDefineService(name, "d\xff\xfe", []string{"\xff", "\xfe"}, A(author), "a\xff", schemasOK)}
}

// definitions differ in tags and descriptions from one name to the next (the first has both, the second neither)
func actDefine(name string, author string) Action {
	desc, adesc := "d-"+name, "ad-"+name
	tags := []string{"t-" + name, "common"}
	if len(name)%2 == 0 {
		desc, adesc, tags = "", "", nil
	}
	return Action{Name: fmt.Sprintf("define(%s,%s)", name, author), Kind: "define", Svc: name, Signer: A(author), Tmpl: -1,
		Msg: st.NewMsgDefineService(name, desc, tags, A(author), adesc, schemasOK)}
}

func actBind(svc, prov, owner string, dep int64, pr string, qos uint64) Action {
	return Action{Name: fmt.Sprintf("bind(%s,%s,%s,%d,%s,q%d)", svc, prov, owner, dep, pr, qos), Kind: "bind", Svc: svc, Prov: A(prov), Signer: A(owner),
		Dep: dep, Pricing: pricingText(pr), QoS: qos, Tmpl: -1,
		Msg: st.NewMsgBindService(svc, A(prov), coins(dep), pricingText(pr), qos, "{}", A(owner))}
}

func bigCoins(dec string) sdk.Coins {
	n, ok := sdk.NewIntFromString(dec)
	if !ok {
		panic("bad amount " + dec)
	}
	return sdk.NewCoins(sdk.NewCoin(denom, n))
}

func (t Template) input() string {
	if t.Input != "" {
		return t.Input
	}
	return inputOK
}

func (t Template) capCoins() sdk.Coins {
	if t.CapBig != "" {
		return bigCoins(t.CapBig)
	}
	return coins(t.Cap)
}

// actBindCoins / actUpdateCoins: deposits given as arbitrary coins (other denominations).
func actBindCoins(svc, prov, owner string, dep sdk.Coins, pr string) Action {
	return Action{Name: fmt.Sprintf("bind(%s,%s,%s,%s,%s)", svc, prov, owner, dep, pr), Kind: "bind", Svc: svc, Prov: A(prov), Signer: A(owner),
		Pricing: pricingText(pr), QoS: 1, Tmpl: -1, Msg: st.NewMsgBindService(svc, A(prov), dep, pricingText(pr), 1, "{}", A(owner))}
}

func actUpdateCoins(svc, prov, owner string, dep sdk.Coins) Action {
	return Action{Name: fmt.Sprintf("update(%s,%s,%s,+%s)", svc, prov, owner, dep), Kind: "update", Svc: svc, Prov: A(prov), Signer: A(owner), Tmpl: -1,
		Msg: st.NewMsgUpdateServiceBinding(svc, A(prov), dep, "", 0, "{}", A(owner))}
}

func actEnableCoins(svc, prov, owner string, dep sdk.Coins) Action {
	return Action{Name: fmt.Sprintf("enable(%s,%s,%s,+%s)", svc, prov, owner, dep), Kind: "enable", Svc: svc, Prov: A(prov), Signer: A(owner), Tmpl: -1,
		Msg: st.NewMsgEnableServiceBinding(svc, A(prov), dep, A(owner))}
}

// actUpdateOpts: an update that carries a pricing and the given options text.
func actUpdateOpts(svc, prov, owner, pr, options string) Action {
	return Action{Name: fmt.Sprintf("update(%s,%s,%s,%s,options %q)", svc, prov, owner, pr, options), Kind: "update", Svc: svc, Prov: A(prov), Signer: A(owner),
		Pricing: pricingText(pr), Tmpl: -1, Msg: st.NewMsgUpdateServiceBinding(svc, A(prov), nil, pricingText(pr), 0, options, A(owner))}
}

// negCoins: a coin list holding one negative amount (only constructible by hand; a transaction can carry it).
func negCoins(n int64) sdk.Coins { return sdk.Coins{sdk.Coin{Denom: denom, Amount: sdk.NewInt(-n)}} }

// actBindBig: a binding whose price and deposit are beyond int64 (decimal strings).
func actBindBig(svc, prov, owner, dep, price string, qos uint64) Action {
	return actBindBigText(svc, prov, owner, dep, price, `{"price":"`+price+`stake"}`, qos)
}

func actBindBigText(svc, prov, owner, dep, price, pt string, qos uint64) Action {
	return Action{Name: fmt.Sprintf("bind(%s,%s,%s,%s,price %s,q%d)", svc, prov, owner, dep, price, qos), Kind: "bind", Svc: svc, Prov: A(prov), Signer: A(owner),
		Pricing: pt, QoS: qos, Tmpl: -1,
		Msg: st.NewMsgBindService(svc, A(prov), bigCoins(dep), pt, qos, "{}", A(owner))}
}

// actUpdateBigPrice: a price update to a decimal price beyond int64 arithmetic.
func actUpdateBigPrice(svc, prov, owner, price string) Action {
	pt := `{"price":"` + price + `stake"}`
	return Action{Name: fmt.Sprintf("update(%s,%s,%s,price %s)", svc, prov, owner, price), Kind: "update", Svc: svc, Prov: A(prov), Signer: A(owner), Pricing: pt, Tmpl: -1,
		Msg: st.NewMsgUpdateServiceBinding(svc, A(prov), nil, pt, 0, "{}", A(owner))}
}

// actUpdateBig / actEnableBig: top-ups beyond int64.
func actUpdateBig(svc, prov, owner, dep string) Action {
	return Action{Name: fmt.Sprintf("update(%s,%s,%s,+%s)", svc, prov, owner, dep), Kind: "update", Svc: svc, Prov: A(prov), Signer: A(owner), Tmpl: -1,
		Msg: st.NewMsgUpdateServiceBinding(svc, A(prov), bigCoins(dep), "", 0, "{}", A(owner))}
}

func actEnableBig(svc, prov, owner, dep string) Action {
	return Action{Name: fmt.Sprintf("enable(%s,%s,%s,+%s)", svc, prov, owner, dep), Kind: "enable", Svc: svc, Prov: A(prov), Signer: A(owner), Tmpl: -1,
		Msg: st.NewMsgEnableServiceBinding(svc, A(prov), bigCoins(dep), A(owner))}
}

func actUpdate(svc, prov, owner string, dep int64, pr string, qos uint64) Action {
	pt := ""
	if pr != "" {
		pt = pricingText(pr)
	}
	return Action{Name: fmt.Sprintf("update(%s,%s,%s,+%d,%s,q%d)", svc, prov, owner, dep, pr, qos), Kind: "update", Svc: svc, Prov: A(prov), Signer: A(owner),
		Dep: dep, Pricing: pt, QoS: qos, Tmpl: -1,
		Msg: st.NewMsgUpdateServiceBinding(svc, A(prov), coins(dep), pt, qos, "{}", A(owner))}
}

func actDisable(svc, prov, owner string) Action {
	return Action{Name: fmt.Sprintf("disable(%s,%s,%s)", svc, prov, owner), Kind: "disable", Svc: svc, Prov: A(prov), Signer: A(owner), Tmpl: -1,
		Msg: st.NewMsgDisableServiceBinding(svc, A(prov), A(owner))}
}

func actEnable(svc, prov, owner string, dep int64) Action {
	return Action{Name: fmt.Sprintf("enable(%s,%s,%s,+%d)", svc, prov, owner, dep), Kind: "enable", Svc: svc, Prov: A(prov), Signer: A(owner), Dep: dep, Tmpl: -1,
		Msg: st.NewMsgEnableServiceBinding(svc, A(prov), coins(dep), A(owner))}
}

func actRefund(svc, prov, owner string) Action {
	return Action{Name: fmt.Sprintf("refund(%s,%s,%s)", svc, prov, owner), Kind: "refund", Svc: svc, Prov: A(prov), Signer: A(owner), Tmpl: -1,
		Msg: st.NewMsgRefundServiceDeposit(svc, A(prov), A(owner))}
}

func actSetW(owner, to string) Action {
	return Action{Name: fmt.Sprintf("setw(%s,%s)", owner, to), Kind: "setw", Signer: A(owner), To: A(to), Tmpl: -1,
		Msg: st.NewMsgSetWithdrawAddress(A(owner), A(to))}
}

func actWithdraw(owner, prov string) Action {
	var p sdk.AccAddress
	if prov != "" {
		p = A(prov)
	}
	return Action{Name: fmt.Sprintf("withdraw(%s,%s)", owner, prov), Kind: "withdraw", Signer: A(owner), Prov: p, Tmpl: -1,
		Msg: st.NewMsgWithdrawEarnedFees(A(owner), p)}
}

func addrs(names []string) []sdk.AccAddress {
	out := make([]sdk.AccAddress, len(names))
	for i, n := range names {
		out[i] = A(n)
	}
	return out
}

func (sc *Scenario) actCall(ti int) Action {
	t := sc.Templates[ti]
	a := Action{Name: fmt.Sprintf("call(%s)", t.Name), Kind: "call", Tmpl: ti, Signer: A(t.Consumer), Svc: t.Service,
		TxHash: sc.TxHash(ti), Ctx: hexs(sc.CtxID(ti))}
	if t.Module == "" {
		a.Msg = st.NewMsgCallService(t.Service, addrs(t.Providers), A(t.Consumer), t.input(), t.capCoins(), t.Timeout, t.Super, t.Repeated, t.Freq, t.Total)
	} else {
		a.Kind = "mcreate"
		a.Name = fmt.Sprintf("mcreate(%s)", t.Name)
		a.Mod = func(ctx sdk.Context, k servicekeeper.Keeper) error {
			state := st.RUNNING
			if t.StartPaused {
				state = st.PAUSED
			}
			_, err := k.CreateRequestContext(ctx, t.Service, addrs(t.Providers), A(t.Consumer), t.input(), t.capCoins(), t.Timeout,
				t.Super, t.Repeated, t.Freq, t.Total, state, t.Threshold, t.Module)
			return err
		}
	}
	return a
}

func mustHex(s string) []byte {
	b, err := hex.DecodeString(s)
	if err != nil {
		panic(err)
	}
	return b
}

func actRespond(reqHex string, signer sdk.AccAddress, kind string) Action {
	res, out := resultOK, outputOK
	switch kind {
	case "bad":
		out = outputBad
	case "noout":
		res, out = result400, ""
	case "utf8": // bytes that are not valid UTF-8 inside JSON strings of the result and the output
		res, out = "{\"code\":200,\"message\":\"ok\xfe\"}", "{\"header\":{},\"body\":{\"x\":\"\xff\"}}"
	}
	return Action{Name: fmt.Sprintf("respond(%s,%s,%s)", shortReq(reqHex), nameOf(signer), kind), Kind: "respond", Req: reqHex, Signer: signer, RespKind: kind, Tmpl: -1,
		Msg: st.NewMsgRespondService(mustHex(reqHex), signer, res, out)}
}

// shortReq renders a request ID as ctx-prefix/batch/height/index.
func shortReq(reqHex string) string {
	b, err := hex.DecodeString(reqHex)
	if err != nil || len(b) != st.RequestIDLen {
		return reqHex
	}
	_, bc, h, i, _ := st.SplitRequestID(b)
	return fmt.Sprintf("%s/b%d/h%d/i%d", reqHex[:4], bc, h, i)
}

func (sc *Scenario) ctxName(ctxHex string) string {
	if ti := sc.TemplateOfCtx(ctxHex); ti >= 0 {
		return sc.Templates[ti].Name
	}
	if len(ctxHex) > 6 {
		return ctxHex[:6]
	}
	return ctxHex
}

func (sc *Scenario) actCtxMsg(kind, ctxHex string, signer sdk.AccAddress) Action {
	a := Action{Name: fmt.Sprintf("%s(%s,%s)", kind, sc.ctxName(ctxHex), nameOf(signer)), Kind: kind, Ctx: ctxHex, Signer: signer, Tmpl: -1}
	id := mustHex(ctxHex)
	switch kind {
	case "pause":
		a.Msg = st.NewMsgPauseRequestContext(id, signer)
	case "start":
		a.Msg = st.NewMsgStartRequestContext(id, signer)
	case "kill":
		a.Msg = st.NewMsgKillRequestContext(id, signer)
	}
	return a
}

// CtxUpdate is one variant of update-context.
type CtxUpdate struct {
	Name      string
	Providers []string
	Cap       int64
	Timeout   int64
	Freq      uint64
	Total     int64
	Threshold uint32
	CapZero   bool // the fee cap is given as the single coin 0stake
}

func (u CtxUpdate) capCoins() sdk.Coins {
	if u.CapZero {
		return sdk.Coins{sdk.NewInt64Coin(denom, 0)}
	}
	return coins(u.Cap)
}

func (sc *Scenario) actUpdCtx(ctxHex string, signer sdk.AccAddress, u CtxUpdate) Action {
	return Action{Name: fmt.Sprintf("updctx(%s,%s,%s)", sc.ctxName(ctxHex), nameOf(signer), u.Name), Kind: "updctx", Ctx: ctxHex, Signer: signer, Upd: u.Name, Tmpl: -1,
		Msg: st.NewMsgUpdateRequestContext(mustHex(ctxHex), addrs(u.Providers), u.capCoins(), u.Timeout, u.Freq, u.Total, signer)}
}

// keeper-API calls played by "another module" on its own contexts
func (sc *Scenario) actMod(kind, ctxHex string, consumer sdk.AccAddress, u CtxUpdate) Action {
	id := mustHex(ctxHex)
	a := Action{Kind: kind, Ctx: ctxHex, Signer: consumer, Tmpl: -1, Upd: u.Name}
	switch kind {
	case "mpause":
		a.Name = fmt.Sprintf("mpause(%s)", sc.ctxName(ctxHex))
		a.Mod = func(ctx sdk.Context, k servicekeeper.Keeper) error { return k.PauseRequestContext(ctx, id, consumer) }
	case "mstart":
		a.Name = fmt.Sprintf("mstart(%s)", sc.ctxName(ctxHex))
		a.Mod = func(ctx sdk.Context, k servicekeeper.Keeper) error { return k.StartRequestContext(ctx, id, consumer) }
	case "mstart!": // the same call by a module that does not look at the error
		a.Kind, a.Carry = "mstart", true
		a.Name = fmt.Sprintf("mstart!(%s)", sc.ctxName(ctxHex))
		a.Mod = func(ctx sdk.Context, k servicekeeper.Keeper) error { return k.StartRequestContext(ctx, id, consumer) }
	case "mkill":
		a.Name = fmt.Sprintf("mkill(%s)", sc.ctxName(ctxHex))
		a.Mod = func(ctx sdk.Context, k servicekeeper.Keeper) error { return k.KillRequestContext(ctx, id, consumer) }
	case "mupdate":
		a.Name = fmt.Sprintf("mupdate(%s,%s)", sc.ctxName(ctxHex), u.Name)
		a.Mod = func(ctx sdk.Context, k servicekeeper.Keeper) error {
			return k.UpdateRequestContext(ctx, id, addrs(u.Providers), u.Threshold, coins(u.Cap), u.Timeout, u.Freq, u.Total, consumer)
		}
	}
	return a
}

// ---------------------------------------------------------------------------------------------

// Scenario closes the system: initial state, alphabet, bounds.
type Scenario struct {
	Name             string
	Rig              RigConfig
	Params           ParamSet
	FlipIDs          bool
	GovRaisesMinimum bool // the alphabet contains parameter changes that raise the minimum deposit (C14 judges steps, not states)
	Funds            []Funding
	Extra            []sdk.AccAddress
	Setup            []Action // executed by real messages to build the initial state; all must succeed
	Templates        []Template
	Alpha            func(sc *Scenario, v *View) []Action // enabled actions except E and call (added by the engine)
	Depth            int
	MaxBlocks        int   // bound on E actions (absolute: height < H0+MaxBlocks)
	MaxMsgs          int   // messages per block
	SubSecondMs      int64 // every block time of the run carries this many milliseconds besides its whole seconds
	TimeJump         int64 // if > 0, an end of block may also be followed by a block whose time lies that many seconds later
	Restart          bool  // the chain may be restarted once from a zero-height export (between two blocks)
}

// Enabled lists the actions of a state in canonical order: E first (time passing is the default), then
// calls of unused templates, then the scenario's alphabet.
func (sc *Scenario) Enabled(v *View) []Action {
	var out []Action
	s := v.S
	if int(s.Height-H0) < sc.MaxBlocks {
		out = append(out, actE())
		if sc.TimeJump > 0 {
			out = append(out, actEJump(sc.TimeJump))
		}
	}
	if sc.Restart && s.Msgs == 0 && s.Used&restartBit == 0 && s.Height > H0 {
		out = append(out, actRestart())
	}
	if s.Msgs >= sc.MaxMsgs {
		return out
	}
	for ti := range sc.Templates {
		if s.Used&(1<<uint(ti)) == 0 {
			out = append(out, sc.actCall(ti))
		}
	}
	if sc.Alpha != nil {
		out = append(out, sc.Alpha(sc, v)...)
	}
	// names must be unique: replay finds actions by name
	seen := map[string]bool{}
	for _, a := range out {
		if seen[a.Name] {
			panic("duplicate action name " + a.Name)
		}
		seen[a.Name] = true
	}
	return out
}

func sortedKeys(m map[string]bool) []string {
	out := make([]string, 0, len(m))
	for k := range m {
		out = append(out, k)
	}
	sort.Strings(out)
	return out
}

func has(set string, item string) bool {
	for _, x := range strings.Split(set, ",") {
		if x == item {
			return true
		}
	}
	return false
}
