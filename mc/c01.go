package main

import (
	"fmt"
	"math/big"
)

// C01 — escrowed service fees are always exactly backed.
// balance(request escrow) = Σ fee of requests with an active marker + Σ provider earnings records,
// computed from a raw store scan, in every state.
type oracleC01 struct{ baseOracle }

func (oracleC01) Prop() string { return "C01" }

func (oracleC01) Invariant(x *OCtx, v *View, m *Mon) []Violation {
	pending := new(big.Int)
	npend := 0
	for id := range v.ActiveByID {
		if r, ok := v.Reqs[id]; ok {
			pending.Add(pending, coinAmt(r.ServiceFee))
			npend++
		}
	}
	earned := v.SumEarned()
	want := new(big.Int).Add(pending, earned)
	got := v.BalOf(reqAcc)
	if npend > 0 {
		x.Wit("C01:state-with-pending-fee")
	}
	if earned.Sign() > 0 {
		x.Wit("C01:state-with-earnings")
	}
	if npend > 0 && earned.Sign() > 0 {
		x.Wit("C01:state-with-both")
	}
	if got.Cmp(want) != 0 {
		disc := "escrow-short"
		if got.Cmp(want) > 0 {
			disc = "escrow-excess"
		}
		return []Violation{viol("C01", "escrow-equals-obligations", "state", disc,
			fmt.Sprintf("escrow balance %s, pending fees %s (%d requests) + earnings %s = %s", got, pending, npend, earned, want))}
	}
	return nil
}
