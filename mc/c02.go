package main

import (
	"fmt"
)

// C02 — each paid request is settled exactly once, to the right party (money ledger, DESIGN 9.C).
type oracleC02 struct{ baseOracle }

func (oracleC02) Prop() string { return "C02" }

func isBindOp(k string) bool {
	return k == "bind" || k == "update" || k == "enable" || k == "refund"
}

func (oracleC02) Step(x *OCtx, t *Trans) []Violation {
	L := BuildLedger(t)
	var out []Violation
	kind := t.Act.Kind
	for _, s := range L.Settled {
		x.Wit("C02:settled-" + s.Cause)
		if s.Cause != "none" && s.Fee.Sign() > 0 {
			x.Wit("C02:settled-with-fee-" + s.Cause)
		}
		if s.Fee.Cmp(bi(1)) == 0 && (s.Cause == "response-ok" || s.Cause == "response-noout") {
			x.Wit("C02:tax-truncates-on-fee-1")
		}
	}
	// a response of the designated provider that arrives in time (up to and including the request's expiry block) is the
	// one settlement of that request: it cannot be refused (a refusal leaves the fee to be refunded at expiry instead)
	if a := t.Act; kind == "respond" && t.Res.Stateless == nil { // (a panic refuses the response as well; C20 reports the panic itself)
		if r := t.Pre.Reqs[a.Req]; r != nil && t.Pre.ActiveByID[a.Req] && hexs(r.Provider) == hexs(a.Signer) && t.Pre.H <= r.ExpirationHeight {
			x.Wit(fmt.Sprintf("C02:in-time-response-at-%d-blocks-before-expiry", r.ExpirationHeight-t.Pre.H))
			if !t.Res.OK() {
				out = append(out, viol("C02", "in-time-response-settles-the-request", kind, fmt.Sprintf("refused/%d-before-expiry", r.ExpirationHeight-t.Pre.H),
					fmt.Sprintf("the designated provider answered pending request %s at height %d (expires at %d) and was refused: %s", shortReq(a.Req), t.Pre.H, r.ExpirationHeight, t.Res.ErrString())))
			}
		}
	}
	if len(L.Issued) > 0 {
		x.Wit("C02:batch-issued")
	}
	for _, p := range L.Problems {
		if p.Cat == "fee" || p.Cat == "expiry" || p.Cat == "early" {
			out = append(out, viol("C02", p.Clause, kind, p.Disc, p.Detail))
		}
	}
	if kind == "withdraw" {
		return out // paid-out earnings are C13's clause
	}
	for _, p := range L.CompareBalances(t.Pre, t.Post) {
		if p.Disc == "deposit-account" || p.Cat == "supply" {
			continue // C03 / C04
		}
		if isBindOp(kind) && p.Disc == nameOf(t.Act.Signer) {
			continue // C03
		}
		out = append(out, viol("C02", "fee-money-moves-only-by-settlement", kind, p.Disc+"/"+settleKinds(L), p.Detail))
	}
	for _, p := range L.CompareEarnings(t.Pre, t.Post) {
		out = append(out, viol("C02", p.Clause, kind, p.Disc+"/"+settleKinds(L), p.Detail))
	}
	return out
}

func settleKinds(L *Ledger) string {
	m := map[string]bool{}
	for _, s := range L.Settled {
		m[s.Cause] = true
	}
	if len(L.Issued) > 0 {
		m["issue"] = true
	}
	ks := sortedKeys(m)
	if len(ks) == 0 {
		return "no-settlement"
	}
	return fmt.Sprint(ks)
}
