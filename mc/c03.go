package main

import (
	"fmt"
	"math/big"
)

// C03 — binding deposits stay in custody and leave only by the rules.
type oracleC03 struct{ baseOracle }

func (oracleC03) Prop() string { return "C03" }

func (oracleC03) Invariant(x *OCtx, v *View, m *Mon) []Violation {
	sum := new(big.Int)
	for _, b := range v.Bindings {
		sum.Add(sum, coinAmt(b.B.Deposit))
	}
	got := v.BalOf(depAcc)
	if len(v.Bindings) > 0 {
		x.Wit("C03:state-with-bindings")
	}
	if got.Cmp(sum) != 0 {
		return []Violation{viol("C03", "deposit-account-equals-sum-of-deposits", "state", cmpWord(got, sum),
			fmt.Sprintf("deposit account holds %s, bindings record %s", got, sum))}
	}
	return nil
}

func cmpWord(got, want *big.Int) string {
	if got.Cmp(want) < 0 {
		return "short"
	}
	return "excess"
}

func (oracleC03) Step(x *OCtx, t *Trans) []Violation {
	L := BuildLedger(t)
	var out []Violation
	kind := t.Act.Kind
	a := t.Act
	// every binding's deposit moves exactly as predicted
	for _, br := range t.Post.Bindings {
		b := br.B
		k := bkey(b.ServiceName, b.Provider)
		preDep := new(big.Int)
		if pb := t.Pre.Binding(b.ServiceName, b.Provider); pb != nil {
			preDep = coinAmt(pb.Deposit)
		}
		want, touched := L.ExpDeposit[k]
		if !touched {
			want = preDep
		}
		got := coinAmt(b.Deposit)
		if got.Cmp(want) != 0 {
			out = append(out, viol("C03", "deposit-changes-only-by-owner-payment-slash-or-refund", kind, nameOf(b.Provider)+"/"+cmpWord(got, want),
				fmt.Sprintf("deposit of (%s,%s) is %s after the step, predicted %s (was %s)", b.ServiceName, nameOf(b.Provider), got, want, preDep)))
		}
		if got.Cmp(preDep) > 0 {
			x.Wit("C03:deposit-grew")
		}
	}
	for _, p := range L.CompareBalances(t.Pre, t.Post) {
		if p.Disc == "deposit-account" || p.Cat == "supply" || (isBindOp(kind) && p.Disc == nameOf(a.Signer)) {
			out = append(out, viol("C03", p.Clause, kind, p.Disc, p.Detail))
		}
	}
	if len(L.Slashes) > 0 {
		x.Wit("C03:slash-burned")
	}
	// refund rules
	if kind == "refund" {
		pb := t.Pre.Binding(a.Svc, a.Prov)
		if t.Res.OK() {
			x.Wit("C03:refund-succeeded")
			switch {
			case pb == nil:
				out = append(out, viol("C03", "refund-only-when-allowed", kind, "no-binding", "refund succeeded for a missing binding"))
			case pb.Available:
				out = append(out, viol("C03", "refund-only-when-allowed", kind, "binding-available", "refund succeeded while the binding is available"))
			case coinAmt(pb.Deposit).Sign() == 0:
				out = append(out, viol("C03", "refund-only-when-allowed", kind, "zero-deposit", "refund succeeded with a zero deposit"))
			default:
				// the disabling time is the harness's own record of when the binding became unavailable
				disabledAt := pb.DisabledTime
				if sec, ok := t.PreMon.Dis[bkey(a.Svc, a.Prov)]; ok {
					disabledAt = T0.Add(timeSec(int(sec)))
					if !disabledAt.Equal(pb.DisabledTime) {
						x.Wit("C03:recorded-disabling-time-differs-from-observed")
					}
				}
				refundable := disabledAt.Add(t.Pre.Params.ArbitrationTimeLimit).Add(t.Pre.Params.ComplaintRetrospect)
				if t.Pre.S.BlockTime().Before(refundable) {
					out = append(out, viol("C03", "refund-only-when-allowed", kind, "too-early",
						fmt.Sprintf("refund succeeded at %s, refundable from %s", t.Pre.S.BlockTime(), refundable)))
				}
				if t.Pre.S.BlockTime().Equal(refundable) {
					x.Wit("C03:refund-exactly-at-refundable-instant")
				}
			}
		} else if pb != nil && !pb.Available && coinAmt(pb.Deposit).Sign() > 0 && string(pb.Owner) == string(a.Signer) {
			refundable := pb.DisabledTime.Add(t.Pre.Params.ArbitrationTimeLimit).Add(t.Pre.Params.ComplaintRetrospect)
			if t.Pre.S.BlockTime().Before(refundable) {
				x.Wit("C03:refund-refused-too-early")
			}
		} else if pb != nil && !pb.Available && coinAmt(pb.Deposit).Sign() == 0 {
			x.Wit("C03:refund-refused-zero-deposit")
		} else if pb != nil && pb.Available {
			x.Wit("C03:refund-refused-available")
		}
	}
	return out
}
