package main

import (
	"fmt"
	"strings"

	st "github.com/irismod/service/types"
)

// C04 — providers are slashed exactly when they fail a request.
type oracleC04 struct{ baseOracle }

func (oracleC04) Prop() string { return "C04" }

func (oracleC04) Step(x *OCtx, t *Trans) []Violation {
	L := BuildLedger(t)
	var out []Violation
	kind := t.Act.Kind
	// slash events per provider
	evs := map[string]int{}
	for _, e := range t.Res.Events {
		if e.Type == st.EventTypeServiceSlash {
			evs[e.Attrs[st.AttributeKeyProvider]]++
		}
	}
	wantEvs := map[string]int{}
	for k, n := range L.Slashes {
		parts := strings.SplitN(k, "|", 2)
		wantEvs[addrBech(mustHex(parts[1]))] += n
		x.Wit("C04:failure-slashed")
		if n > 1 {
			x.Wit("C04:several-failures-of-one-binding-in-one-step")
		}
	}
	for _, s := range L.Settled {
		if s.Cause == "expiry" && s.Super {
			x.Wit("C04:super-mode-expiry-not-slashed")
		}
		if s.Cause == "response-ok" || s.Cause == "response-noout" {
			x.Wit("C04:good-response-not-slashed")
		}
	}
	for _, p := range L.Problems {
		if p.Cat == "expiry" {
			out = append(out, viol("C04", "timed-out-request-is-slashed", kind, p.Disc, p.Detail))
		}
		if p.Cat == "early" {
			out = append(out, viol("C04", "slashed-only-for-a-request-that-timed-out", kind, p.Disc, p.Detail))
		}
	}
	// the service_slash events are not part of the property: they are only counted
	for p, n := range wantEvs {
		if evs[p] == n {
			x.Wit("C04:slash-events-match-failures")
		} else {
			x.Wit("C04:slash-events-differ-from-failures")
		}
	}
	// deposits: slashed bindings fall by the sequential floor rule; bindings without failure are not reduced
	for _, br := range t.Post.Bindings {
		b := br.B
		k := bkey(b.ServiceName, b.Provider)
		pb := t.Pre.Binding(b.ServiceName, b.Provider)
		if pb == nil {
			continue
		}
		got := coinAmt(b.Deposit)
		preDep := coinAmt(pb.Deposit)
		if n := L.Slashes[k]; n > 0 {
			want := L.ExpDeposit[k]
			if got.Cmp(want) != 0 {
				out = append(out, viol("C04", "slash-amount-is-floor-of-deposit-times-fraction", kind, cmpWord(got, want),
					fmt.Sprintf("deposit of (%s,%s) %s -> %s after %d failure(s), predicted %s", b.ServiceName, nameOf(b.Provider), preDep, got, n, want)))
			}
			wantAvail := L.ExpAvail[k]
			if b.Available != wantAvail {
				out = append(out, viol("C04", "slashed-below-minimum-becomes-unavailable", kind, fmt.Sprintf("available=%v", b.Available),
					fmt.Sprintf("(%s,%s) available=%v after slash to %s, predicted %v", b.ServiceName, nameOf(b.Provider), b.Available, got, wantAvail)))
			}
			if L.ExpDisabledNow[k] {
				x.Wit("C04:slash-disabled-binding")
				if !b.DisabledTime.Equal(t.Pre.S.BlockTime()) {
					out = append(out, viol("C04", "disabling-time-is-block-time", kind, "disabled-time",
						fmt.Sprintf("(%s,%s) disabled by slash at %s but records %s", b.ServiceName, nameOf(b.Provider), t.Pre.S.BlockTime(), b.DisabledTime)))
				}
			} else if !b.DisabledTime.Equal(pb.DisabledTime) {
				out = append(out, viol("C04", "disabling-time-unchanged-otherwise", kind, "disabled-time",
					fmt.Sprintf("(%s,%s) disabling time changed %s -> %s without becoming unavailable", b.ServiceName, nameOf(b.Provider), pb.DisabledTime, b.DisabledTime)))
			}
			if !pb.Available {
				x.Wit("C04:slash-of-already-disabled-binding")
			}
			if preDep.Sign() == 0 {
				x.Wit("C04:slash-of-refunded-binding")
			}
		} else if got.Cmp(preDep) < 0 && !(kind == "refund" && t.Res.OK()) {
			out = append(out, viol("C04", "never-slashed-for-any-other-reason", kind, nameOf(b.Provider),
				fmt.Sprintf("deposit of (%s,%s) fell %s -> %s without an observed failure", b.ServiceName, nameOf(b.Provider), preDep, got)))
		}
	}
	// supply falls by exactly the slashed amounts
	for _, p := range L.CompareBalances(t.Pre, t.Post) {
		if p.Cat == "supply" {
			out = append(out, viol("C04", "slashed-coins-are-destroyed", kind, "supply", p.Detail))
		}
	}
	return out
}
