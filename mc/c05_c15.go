package main

import (
	"bytes"
	"fmt"
	abci "github.com/tendermint/tendermint/abci/types"
	"math/big"
	"reflect"
	"sort"

	sdk "github.com/cosmos/cosmos-sdk/types"

	st "github.com/irismod/service/types"
)

// ---------------------------------------------------------------------------------------------
// C05 — only the rightful party can act, and a message debits only its signer.
type oracleC05 struct{ baseOracle }

func (oracleC05) Prop() string { return "C05" }

func (oracleC05) Step(x *OCtx, t *Trans) []Violation {
	var out []Violation
	a := t.Act
	kind := a.Kind
	add := func(clause, disc, detail string) { out = append(out, viol("C05", clause, kind, disc, detail)) }
	ok := t.Res.OK()
	who := nameOf(a.Signer)
	switch kind {
	case "update", "disable", "enable", "refund":
		b := t.Pre.Binding(a.Svc, a.Prov)
		rightful := b != nil && bytes.Equal(b.Owner, a.Signer)
		x.Wit(fmt.Sprintf("C05:%s/rightful=%v/%s", kind, rightful, t.Res.Outcome()))
		if ok && !rightful {
			add("binding-operations-only-by-owner", who, fmt.Sprintf("%s of (%s,%s) signed by %s succeeded; owner is %v", kind, a.Svc, nameOf(a.Prov), who, ownerName(b)))
		}
	case "withdraw":
		rightful := true
		if len(a.Prov) > 0 {
			o := t.Pre.OwnerOf(a.Prov)
			rightful = o != nil && bytes.Equal(o, a.Signer)
		}
		x.Wit(fmt.Sprintf("C05:withdraw/rightful=%v/%s", rightful, t.Res.Outcome()))
		if ok && !rightful {
			add("withdraw-only-by-owner", who, fmt.Sprintf("withdraw for provider %s signed by %s succeeded", nameOf(a.Prov), who))
		}
	case "pause", "start", "kill", "updctx":
		c := t.Pre.Ctxs[a.Ctx]
		rightful := c != nil && bytes.Equal(c.Consumer, a.Signer) && len(c.ModuleName) == 0
		mod := c != nil && len(c.ModuleName) > 0
		x.Wit(fmt.Sprintf("C05:%s/rightful=%v/module-owned=%v/%s", kind, rightful, mod, t.Res.Outcome()))
		if ok && !rightful {
			disc := who
			if mod {
				disc = "module-owned-context"
			}
			add("context-operations-only-by-consumer-and-never-on-module-contexts", disc, fmt.Sprintf("%s of context %s signed by %s succeeded", kind, x.Sc.ctxName(a.Ctx), who))
		}
	case "respond":
		r := t.Pre.Reqs[a.Req]
		rightful := r != nil && bytes.Equal(r.Provider, a.Signer)
		x.Wit(fmt.Sprintf("C05:respond/rightful=%v/%s", rightful, t.Res.Outcome()))
		if ok && !rightful {
			add("response-only-from-designated-provider", who, fmt.Sprintf("response to %s signed by %s accepted", shortReq(a.Req), who))
		}
	case "bind":
		o := t.Pre.OwnerOf(a.Prov)
		foreign := o != nil && !bytes.Equal(o, a.Signer)
		reserved := x.Rig.reserved[a.Svc] // the keeper accepted a host module's registration of that name
		x.Wit(fmt.Sprintf("C05:bind/foreign-provider=%v/reserved=%v/%s", foreign, reserved, t.Res.Outcome()))
		if ok && foreign {
			add("provider-of-another-owner-cannot-be-bound", who, fmt.Sprintf("bind of provider %s (owner %s) by %s succeeded", nameOf(a.Prov), nameOf(o), who))
		}
		if ok && reserved {
			add("module-service-cannot-be-bound", a.Svc, "bind of module service "+a.Svc+" succeeded")
		}
	}
	// debits
	if kind == "E" {
		// a context its owning module paused from inside a callback earlier in this end-of-block is not running any more:
		// a batch issued for it afterwards debits a consumer whose context is not running
		for _, cb := range t.Res.Callbacks {
			if cb.Kind != "pause" {
				continue
			}
			pc, qc := t.Pre.Ctxs[cb.Ctx], t.Post.Ctxs[cb.Ctx]
			if pc == nil || qc == nil {
				continue
			}
			x.Wit("C05:paused-by-its-module-inside-a-callback")
			if cb.BatchCounter == pc.BatchCounter && qc.BatchCounter > pc.BatchCounter && !pc.SuperMode {
				if reqs, _ := batchRecords(t.Post, cb.Ctx, qc.BatchCounter); len(reqs) > 0 {
					add("end-of-block-debits-only-issuing-consumers", "paused-in-callback/"+nameOf(pc.Consumer),
						fmt.Sprintf("context %s was paused by its module during this end of block (at batch %d) and was issued batch %d afterwards; %s paid for it",
							x.Sc.ctxName(cb.Ctx), cb.BatchCounter, qc.BatchCounter, nameOf(pc.Consumer)))
				}
			}
		}
		allowed := map[string]bool{}
		for _, id := range t.Pre.CtxIDs {
			pc, qc := t.Pre.Ctxs[id], t.Post.Ctxs[id]
			if qc != nil && qc.BatchCounter > pc.BatchCounter && !pc.SuperMode && stName(pc.State) == "running" {
				if reqs, _ := batchRecords(t.Post, id, qc.BatchCounter); len(reqs) > 0 {
					allowed[hexs(pc.Consumer)] = true
				}
			}
		}
		for _, k := range allBalKeys(t.Pre, t.Post) {
			if isModuleAcc(k) {
				continue
			}
			if d := balDelta(t.Pre, t.Post, k); d.Sign() < 0 {
				x.Wit("C05:end-of-block-debit")
				if !allowed[k] {
					add("end-of-block-debits-only-issuing-consumers", nameOf(mustHex(k)), fmt.Sprintf("%s lost %s at end of block without a batch issued for it", nameOf(mustHex(k)), new(big.Int).Neg(d)))
				}
			}
		}
	} else {
		for _, k := range allBalKeys(t.Pre, t.Post) {
			if isModuleAcc(k) || k == hexs(a.Signer) {
				continue
			}
			if d := balDelta(t.Pre, t.Post, k); d.Sign() < 0 {
				add("message-debits-only-its-signer", nameOf(mustHex(k)), fmt.Sprintf("%s lost %s in a %s step signed by %s", nameOf(mustHex(k)), new(big.Int).Neg(d), kind, who))
			}
		}
		if d := balDelta(t.Pre, t.Post, hexs(a.Signer)); d.Sign() < 0 {
			x.Wit("C05:signer-debited/" + kind)
		}
	}
	return out
}

func ownerName(b *st.ServiceBinding) string {
	if b == nil {
		return "(no binding)"
	}
	return nameOf(b.Owner)
}

// ---------------------------------------------------------------------------------------------
// C15 — definitions and bindings are unique, stable and consistently indexed.
type oracleC15 struct{ baseOracle }

func (oracleC15) Prop() string { return "C15" }

func keySet(recs []RawRec) map[string]bool {
	m := map[string]bool{}
	for _, r := range recs {
		m[string(r.K)] = true
	}
	return m
}

func diffSets(want, got map[string]bool) (missing, extra []string) {
	for k := range want {
		if !got[k] {
			missing = append(missing, hexs([]byte(k)))
		}
	}
	for k := range got {
		if !want[k] {
			extra = append(extra, hexs([]byte(k)))
		}
	}
	sort.Strings(missing)
	sort.Strings(extra)
	return
}

func (oracleC15) Invariant(x *OCtx, v *View, m *Mon) []Violation {
	var out []Violation
	add := func(clause, disc, detail string) { out = append(out, viol("C15", clause, "state", disc, detail)) }
	// definitions: key <=> content, valid
	i := 0
	names := make([]string, 0, len(v.Defs))
	for n := range v.Defs {
		names = append(names, n)
	}
	sort.Strings(names)
	if len(v.DefKeys) != len(names) {
		add("definition-key-matches-name", "duplicate", "two definition records decode to the same name")
	}
	for _, n := range names {
		d := v.Defs[n]
		found := false
		for _, k := range v.DefKeys {
			if bytes.Equal(k, st.GetServiceDefinitionKey(n)) {
				found = true
			}
		}
		if !found {
			add("definition-key-matches-name", n, "definition "+n+" is not stored under its own key")
		}
		if err := d.Validate(); err != nil {
			add("stored-definition-is-valid", n, "definition "+n+" fails its own validation: "+err.Error())
		}
		i++
	}
	wantOB, wantOwner, wantOP, wantPr := map[string]bool{}, map[string]bool{}, map[string]bool{}, map[string]bool{}
	ownerOf := map[string][]byte{}
	seenB := map[string]bool{}
	for _, br := range v.Bindings {
		b := br.B
		k := bkey(b.ServiceName, b.Provider)
		if seenB[k] {
			add("one-binding-per-service-and-provider", nameOf(b.Provider), "two binding records for "+k)
		}
		seenB[k] = true
		if !bytes.Equal(br.Key, st.GetServiceBindingKey(b.ServiceName, b.Provider)) {
			add("binding-key-matches-content", nameOf(b.Provider), fmt.Sprintf("binding (%s,%s) is not stored under its own key", b.ServiceName, nameOf(b.Provider)))
		}
		if _, ok := v.Defs[b.ServiceName]; !ok {
			add("binding-only-for-defined-service", b.ServiceName, "binding for undefined service "+b.ServiceName)
		}
		if err := b.Validate(); err != nil {
			add("stored-binding-is-valid", nameOf(b.Provider), fmt.Sprintf("binding (%s,%s) fails its own validation: %v", b.ServiceName, nameOf(b.Provider), err))
		}
		if o, ok := ownerOf[hexs(b.Provider)]; ok && !bytes.Equal(o, b.Owner) {
			add("provider-has-one-owner", nameOf(b.Provider), fmt.Sprintf("provider %s has bindings owned by %s and %s", nameOf(b.Provider), nameOf(o), nameOf(b.Owner)))
		}
		ownerOf[hexs(b.Provider)] = b.Owner
		wantOB[string(st.GetOwnerServiceBindingKey(b.Owner, b.ServiceName, b.Provider))] = true
		wantOwner[string(st.GetOwnerKey(b.Provider))] = true
		wantOP[string(st.GetOwnerProviderKey(b.Owner, b.Provider))] = true
		wantPr[string(st.GetPricingKey(b.ServiceName, b.Provider))] = true
		if raw, ok := rawLookup(v.Owner, st.GetOwnerKey(b.Provider)); ok {
			if !bytes.Equal(bytesVal(raw), b.Owner) {
				add("owner-index-matches-binding-owner", nameOf(b.Provider), fmt.Sprintf("owner index of %s says %s, binding says %s", nameOf(b.Provider), nameOf(bytesVal(raw)), nameOf(b.Owner)))
			}
		}
		// stored price terms = published pricing text
		if raw, ok := rawLookup(v.Pricing, st.GetPricingKey(b.ServiceName, b.Provider)); ok {
			var p st.Pricing
			mustUnmarshal(raw, &p)
			if d := pricingDiff(p, parseRefPricing(b.Pricing)); d != "" {
				add("stored-price-terms-match-published-pricing", nameOf(b.Provider), fmt.Sprintf("(%s,%s): %s (text %s)", b.ServiceName, nameOf(b.Provider), d, b.Pricing))
			}
			if err := st.ValidatePricing(p); err != nil { // the module's own rule for price terms
				add("stored-price-terms-are-valid", nameOf(b.Provider), fmt.Sprintf("(%s,%s): stored price terms are refused by the module's own validation: %v (text %s)", b.ServiceName, nameOf(b.Provider), err, b.Pricing))
			}
			x.Wit("C15:pricing-record-compared")
		}
	}
	chk := func(clause string, want map[string]bool, raw []RawRec) {
		miss, extra := diffSets(want, keySet(raw))
		if len(miss) > 0 {
			add(clause, "missing", fmt.Sprintf("missing index records %v", miss))
		}
		if len(extra) > 0 {
			add(clause, "extra", fmt.Sprintf("index records without binding %v", extra))
		}
	}
	chk("owner-binding-index-matches-bindings", wantOB, v.OwnerBind)
	chk("provider-owner-index-matches-bindings", wantOwner, v.Owner)
	chk("owner-provider-index-matches-bindings", wantOP, v.OwnerProv)
	chk("pricing-records-match-bindings", wantPr, v.Pricing)

	// listings through the keeper API
	ctx := x.Rig.ReadCtx(v.S)
	for _, n := range []string{"a", "ab", "b"} {
		var want []string
		for _, br := range v.Bindings {
			if br.B.ServiceName == n {
				want = append(want, bkey(br.B.ServiceName, br.B.Provider))
			}
		}
		var got []string
		it := x.Rig.sk.ServiceBindingsIterator(ctx, n)
		for ; it.Valid(); it.Next() {
			var b st.ServiceBinding
			mustUnmarshal(it.Value(), &b)
			got = append(got, bkey(b.ServiceName, b.Provider))
		}
		it.Close()
		if len(want) > 0 {
			x.Wit("C15:listing-by-service-nonempty")
		}
		sort.Strings(want)
		sort.Strings(got)
		if !reflect.DeepEqual(want, got) {
			add("listing-by-service-is-exact", n, fmt.Sprintf("bindings of service %s: listed %v, stored %v", n, got, want))
		}
		// the same listing as users ask for it: the gRPC query and the legacy querier
		var wantStr []string
		for _, br := range v.Bindings {
			if br.B.ServiceName == n {
				wantStr = append(wantStr, br.B.String())
			}
		}
		sort.Strings(wantStr)
		if p, _ := tryPanic(func() {
			if r, err := x.Rig.sk.Bindings(sdk.WrapSDKContext(ctx), &st.QueryBindingsRequest{ServiceName: n}); err == nil {
				var gs []string
				for _, b := range r.ServiceBindings {
					gs = append(gs, b.String())
				}
				sort.Strings(gs)
				x.Wit("C15:listing-by-grpc-query-compared")
				if !reflect.DeepEqual(wantStr, gs) {
					add("listing-by-service-is-exact", n+"/grpc", fmt.Sprintf("gRPC bindings query of service %s lists %d bindings %v, stored %v", n, len(gs), gs, wantStr))
				}
			}
			if data, err := encCfg.Amino.MarshalJSON(st.QueryBindingsParams{ServiceName: n}); err == nil {
				if bz, err := x.Rig.querier(ctx, []string{st.QueryBindings}, abci.RequestQuery{Data: data}); err == nil {
					var bs []st.ServiceBinding
					if encCfg.Amino.UnmarshalJSON(bz, &bs) == nil {
						var ls []string
						for _, b := range bs {
							ls = append(ls, b.String())
						}
						sort.Strings(ls)
						x.Wit("C15:listing-by-legacy-query-compared")
						if !reflect.DeepEqual(wantStr, ls) {
							add("listing-by-service-is-exact", n+"/legacy", fmt.Sprintf("legacy bindings query of service %s lists %v, stored %v", n, ls, wantStr))
						}
					}
				}
			}
		}); p != "" {
			add("listing-by-service-is-exact", n+"/query-panics", "bindings query of service "+n+" panics: "+p)
		}
		for _, o := range []sdk.AccAddress{O1, O2} {
			var wantO []string
			for _, br := range v.Bindings {
				if br.B.ServiceName == n && bytes.Equal(br.B.Owner, o) {
					wantO = append(wantO, bkey(br.B.ServiceName, br.B.Provider))
				}
			}
			var gotO []string
			for _, b := range x.Rig.sk.GetOwnerServiceBindings(ctx, o, n) {
				gotO = append(gotO, bkey(b.ServiceName, b.Provider))
			}
			sort.Strings(wantO)
			sort.Strings(gotO)
			if len(wantO) > 0 {
				x.Wit("C15:listing-by-owner-nonempty")
			}
			if !reflect.DeepEqual(wantO, gotO) {
				add("listing-by-service-and-owner-is-exact", n+"/"+nameOf(o), fmt.Sprintf("bindings of (%s,%s): listed %v, stored %v", n, nameOf(o), gotO, wantO))
			}
		}
	}
	return out
}

func pricingDiff(p st.Pricing, r refPricing) string {
	if len(p.Price) != 1 || p.Price[0].Denom != r.Denom || p.Price[0].Amount.BigInt().Cmp(r.Base) != 0 {
		return fmt.Sprintf("stored price %s, text says %s%s", p.Price, r.Base, r.Denom)
	}
	if len(p.PromotionsByTime) != len(r.ByTime) || len(p.PromotionsByVolume) != len(r.ByVol) {
		return "number of promotions differs"
	}
	for i, w := range p.PromotionsByTime {
		if !w.StartTime.Equal(r.ByTime[i].Start) || !w.EndTime.Equal(r.ByTime[i].End) || decRat(w.Discount).Cmp(r.ByTime[i].Disc) != 0 {
			return fmt.Sprintf("time promotion %d differs", i)
		}
	}
	for i, w := range p.PromotionsByVolume {
		if w.Volume != r.ByVol[i].Vol || decRat(w.Discount).Cmp(r.ByVol[i].Disc) != 0 {
			return fmt.Sprintf("volume promotion %d differs", i)
		}
	}
	return ""
}

func (oracleC15) Step(x *OCtx, t *Trans) []Violation {
	var out []Violation
	a := t.Act
	kind := a.Kind
	add := func(clause, disc, detail string) { out = append(out, viol("C15", clause, kind, disc, detail)) }
	for n, raw := range t.Pre.DefRaw {
		if q, ok := t.Post.DefRaw[n]; !ok {
			add("definition-never-disappears", n, "definition "+n+" disappeared")
		} else if !bytes.Equal(raw, q) {
			add("definition-never-changes", n, "definition "+n+" changed")
		}
	}
	if kind == "define" {
		_, existed := t.Pre.Defs[a.Svc]
		x.Wit(fmt.Sprintf("C15:define/existed=%v/%s", existed, t.Res.Outcome()))
		if existed && t.Res.OK() {
			add("second-definition-rejected", a.Svc, "second definition of "+a.Svc+" accepted")
		}
	}
	if kind == "bind" {
		existed := t.Pre.Binding(a.Svc, a.Prov) != nil
		_, defined := t.Pre.Defs[a.Svc]
		x.Wit(fmt.Sprintf("C15:bind/existed=%v/defined=%v/%s", existed, defined, t.Res.Outcome()))
		if t.Res.OK() && existed {
			add("second-binding-rejected", nameOf(a.Prov), "second binding accepted")
		}
		if t.Res.OK() && !defined {
			add("binding-only-for-defined-service", a.Svc, "binding for undefined service accepted")
		}
	}
	for _, br := range t.Pre.Bindings {
		b := br.B
		q := t.Post.Binding(b.ServiceName, b.Provider)
		if q == nil {
			add("binding-never-disappears", nameOf(b.Provider), fmt.Sprintf("binding (%s,%s) disappeared", b.ServiceName, nameOf(b.Provider)))
			continue
		}
		if !bytes.Equal(q.Owner, b.Owner) {
			add("binding-owner-never-changes", nameOf(b.Provider), fmt.Sprintf("owner of (%s,%s) changed %s -> %s", b.ServiceName, nameOf(b.Provider), nameOf(b.Owner), nameOf(q.Owner)))
		}
	}
	for _, p := range universe() {
		if o := t.Pre.OwnerOf(p); o != nil {
			if q := t.Post.OwnerOf(p); q == nil || !bytes.Equal(o, q) {
				add("provider-owner-for-life", nameOf(p), fmt.Sprintf("owner of provider %s changed %s -> %s", nameOf(p), nameOf(o), nameOf(q)))
			}
		}
	}
	return out
}
