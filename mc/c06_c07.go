package main

import (
	"bytes"
	"fmt"
	"math/big"
	"sort"

	sdk "github.com/cosmos/cosmos-sdk/types"

	st "github.com/irismod/service/types"
)

// storedVolume reads the request-volume record through a constructed key.
func storedVolume(v *View, consumer []byte, svc string, prov []byte) uint64 {
	if raw, ok := rawLookup(v.Vol, st.GetRequestVolumeKey(consumer, svc, prov)); ok {
		return uvarVal(raw)
	}
	return 0
}

type batchDecision struct {
	Kind      string // issue skip pause
	Providers [][]byte
	Fees      []*big.Int
	Total     *big.Int
	NoRate    bool // skipped because the exchange-rate service had no answer
}

// refDecision is the reference for one batch start (DESIGN 9.B). Bindings are taken from bv (post-state of the
// end-of-block), context terms from pc, the block time is t's.
func refDecision(sc *Scenario, bv *View, pc *st.RequestContext, blockTimeOf *View, volOf func(prov []byte) uint64, balance *big.Int) batchDecision {
	d := batchDecision{Total: new(big.Int)}
	cap := coinAmt(pc.ServiceFeeCap)
	rate := rateFn(sc, blockTimeOf.Params.BaseDenom, blockTimeOf.S.Height)
	seen := map[string]bool{}
	for _, p := range pc.Providers {
		if seen[string(p)] {
			continue // "a request for exactly those providers named in the context": a provider is named once, however often it is listed
		}
		seen[string(p)] = true
		b := bv.Binding(pc.ServiceName, p)
		if b == nil || !b.Available || b.QoS > uint64(pc.Timeout) {
			continue
		}
		price, ok := parseRefPricing(b.Pricing).PriceAt(blockTimeOf.S.BlockTime(), volOf(p), rate)
		if !ok {
			// the exchange-rate service has no answer for a provider that would have to be priced: nobody can be
			// charged correctly, the whole batch is skipped
			return batchDecision{Kind: "skip", Total: new(big.Int), NoRate: true}
		}
		if price.Cmp(cap) > 0 {
			continue
		}
		d.Providers = append(d.Providers, p)
		d.Fees = append(d.Fees, price)
		d.Total.Add(d.Total, price)
	}
	switch {
	case len(d.Providers) == 0 || len(d.Providers) < int(pc.ResponseThreshold):
		d.Kind = "skip"
	case !pc.SuperMode && balance.Cmp(d.Total) < 0:
		d.Kind = "pause"
	default:
		d.Kind = "issue"
	}
	return d
}

// ---------------------------------------------------------------------------------------------
// C06 — requests go only to eligible providers, within the consumer's fee cap.
type oracleC06 struct{ baseOracle }

func (oracleC06) Prop() string { return "C06" }

func (oracleC06) Step(x *OCtx, t *Trans) []Violation {
	var out []Violation
	kind := t.Act.Kind
	add := func(clause, disc, detail string) { out = append(out, viol("C06", clause, kind, disc, detail)) }
	// the terms a batch is decided by (providers, fee cap, timeout, threshold) change only by an update of the context
	for _, id := range t.Pre.CtxIDs {
		pc, qc := t.Pre.Ctxs[id], t.Post.Ctxs[id]
		if qc == nil || ((kind == "updctx" || kind == "mupdate") && t.Act.Ctx == id && t.Res.OK()) || (kind == "restart" && t.Res.OK()) {
			continue
		}
		if cappedInCallback(t, id) {
			continue // updated by its owning module from inside a callback of this step
		}
		same := len(pc.Providers) == len(qc.Providers) && pc.ServiceFeeCap.IsEqual(qc.ServiceFeeCap) && pc.Timeout == qc.Timeout && pc.ResponseThreshold == qc.ResponseThreshold
		for i := 0; same && i < len(pc.Providers); i++ {
			same = bytes.Equal(pc.Providers[i], qc.Providers[i])
		}
		if !same {
			add("context-terms-change-only-by-update", x.Sc.ctxName(id), fmt.Sprintf("providers / fee cap / timeout / threshold of context %s changed in a %s step: %v cap %s timeout %d threshold %d -> %v cap %s timeout %d threshold %d",
				x.Sc.ctxName(id), kind, namesOf(pc.Providers), pc.ServiceFeeCap, pc.Timeout, pc.ResponseThreshold, namesOf(qc.Providers), qc.ServiceFeeCap, qc.Timeout, qc.ResponseThreshold))
		}
	}
	// requests may only be created at end of block (or by a module-service call)
	if kind != "E" {
		for _, id := range t.Post.ReqIDs {
			if _, had := t.Pre.Reqs[id]; !had && !(kind == "call" && len(x.Sc.Rig.ModuleServices) > 0) {
				add("requests-issued-only-at-batch-start", kind, "request "+shortReq(id)+" created by a "+kind+" step")
			}
		}
		return out
	}
	H := t.Pre.H
	// running balances: pre balance + refunds of this end-of-block
	L := BuildLedger(t)
	bal := map[string]*big.Int{}
	balOf := func(c []byte) *big.Int {
		k := hexs(c)
		if bal[k] == nil {
			bal[k] = new(big.Int).Set(t.Pre.BalOf(c))
			for _, s := range L.Settled {
				if s.Cause == "expiry" && !s.Super && bytes.Equal(s.Consumer, c) {
					bal[k].Add(bal[k], s.Fee)
				}
			}
		}
		return bal[k]
	}
	ids := append([]string{}, t.Pre.CtxIDs...)
	sort.Strings(ids) // ascending context ID = processing order of the new-batch queue
	for _, id := range ids {
		pc := t.Pre.Ctxs[id]
		qc := t.Post.Ctxs[id]
		if qc == nil {
			continue
		}
		name := x.Sc.ctxName(id)
		advanced := qc.BatchCounter > pc.BatchCounter
		paused := stName(pc.State) == "running" && stName(qc.State) == "paused"
		due := false
		if h, ok := t.Pre.NewH[id]; ok && h == H && stName(pc.State) == "running" {
			due = true // a batch of this running context is scheduled for this very block
		}
		if !advanced && !paused && !due {
			continue
		}
		if cappedInCallback(t, id) && capChangedBeforeItsTurn(t, id, ids) {
			// its owning module lowered the fee cap from inside the state callback of a context processed earlier in
			// this end of block: the batch is decided under the cap in force when its turn comes
			cp := *pc
			cp.ServiceFeeCap = qc.ServiceFeeCap
			pc = &cp
			x.Wit("C06:decided-under-terms-updated-in-a-callback-of-this-block")
		}
		d := refDecision(x.Sc, t.Post, pc, t.Pre, func(p []byte) uint64 { return storedVolume(t.Pre, pc.Consumer, pc.ServiceName, p) }, balOf(pc.Consumer))
		x.Wit("C06:decision-" + d.Kind)
		if d.NoRate {
			x.Wit("C06:skipped-for-want-of-an-exchange-rate")
		}
		if len(d.Providers) < len(pc.Providers) && len(d.Providers) > 0 {
			x.Wit("C06:some-providers-filtered-out")
		}
		reqs, _ := batchRecords(t.Post, id, pc.BatchCounter+1)
		observed := "skip"
		switch {
		case paused && !advanced:
			observed = "pause"
		case advanced && len(reqs) > 0:
			observed = "issue"
		case !advanced && !paused:
			observed = "nothing"
		}
		if observed != d.Kind {
			add("batch-decision-follows-eligibility-threshold-and-balance", fmt.Sprintf("%s/want=%s/got=%s", name, d.Kind, observed),
				fmt.Sprintf("context %s at height %d: reference decision %s (eligible %d of %d, threshold %d, total %s, balance %s), module did %s",
					name, H, d.Kind, len(d.Providers), len(pc.Providers), pc.ResponseThreshold, d.Total, balOf(pc.Consumer), observed))
			continue
		}
		switch d.Kind {
		case "issue":
			if len(reqs) != len(d.Providers) {
				add("request-for-exactly-the-eligible-providers", fmt.Sprintf("%s/want=%d/got=%d", name, len(d.Providers), len(reqs)),
					fmt.Sprintf("context %s: %d requests issued, %d providers eligible", name, len(reqs), len(d.Providers)))
				break
			}
			cap := coinAmt(pc.ServiceFeeCap)
			for i, rid := range reqs { // request IDs sort by position in the batch
				r := t.Post.Reqs[rid]
				if !bytes.Equal(r.Provider, d.Providers[i]) {
					add("request-for-exactly-the-eligible-providers", name+"/provider", fmt.Sprintf("request %d of %s goes to %s, eligible[%d] is %s", i, name, nameOf(r.Provider), i, nameOf(d.Providers[i])))
				}
				fee := coinAmt(r.ServiceFee)
				if !pc.SuperMode && fee.Cmp(cap) > 0 {
					add("fee-never-above-cap", name, fmt.Sprintf("request to %s carries fee %s above the cap %s", nameOf(r.Provider), fee, cap))
				}
			}
			if !pc.SuperMode {
				balOf(pc.Consumer).Sub(balOf(pc.Consumer), d.Total)
			}
			if h, ok := t.Post.ExpH[id]; !ok || h != H+pc.Timeout {
				add("issued-batch-expires-after-timeout", name, fmt.Sprintf("batch of %s issued at %d with timeout %d has expiry pointer %d (present=%v)", name, H, pc.Timeout, h, ok))
			}
		case "skip":
			if len(reqs) != 0 {
				add("skipped-batch-has-no-requests", name, "skipped batch has request records")
			}
		case "pause":
			if len(reqs) != 0 || advanced {
				add("unpaid-batch-has-no-requests", name, "context paused for funds but a batch was recorded")
			}
		}
	}
	// consumers are debited exactly the issued totals (cross-check with the ledger's balance comparison)
	for _, p := range L.CompareBalances(t.Pre, t.Post) {
		if p.Disc == "deposit-account" || p.Cat == "supply" || p.Disc == "fee-collector" {
			continue
		}
		add("no-charge-without-issued-requests", p.Disc, p.Detail)
	}
	return out
}

// ---------------------------------------------------------------------------------------------
// C07 — the fee charged follows the provider's published pricing (history: accepted responses per triple).
type oracleC07 struct{ baseOracle }

func (oracleC07) Prop() string { return "C07" }

func (oracleC07) Invariant(x *OCtx, v *View, m *Mon) []Violation {
	// stored volume records = accepted responses counted by the monitor
	var out []Violation
	for k, n := range m.Vol {
		var c, p []byte
		var svc string
		parts := splitBar(k)
		c, svc, p = mustHex(parts[0]), parts[1], mustHex(parts[2])
		if got := storedVolume(v, c, svc, p); got != n {
			disc := nameOf(p)
			if b := m.VolBase[k]; b > 0 && got == n-b {
				disc += "/delivered-before-a-zero-height-export-forgotten"
			}
			out = append(out, viol("C07", "volume-counts-delivered-responses", "state", disc, fmt.Sprintf("stored volume of (%s,%s,%s) is %d, %d responses were accepted", nameOf(c), svc, nameOf(p), got, n)))
		}
	}
	return out
}

func splitBar(s string) []string {
	var out []string
	cur := ""
	for _, ch := range s {
		if ch == '|' {
			out = append(out, cur)
			cur = ""
		} else {
			cur += string(ch)
		}
	}
	return append(out, cur)
}

func (oracleC07) Step(x *OCtx, t *Trans) []Violation {
	var out []Violation
	kind := t.Act.Kind
	for _, id := range t.Post.ReqIDs {
		if _, had := t.Pre.Reqs[id]; had {
			continue
		}
		r := t.Post.Reqs[id]
		c := t.Post.Ctxs[hexs(r.RequestContextId)]
		if c == nil {
			continue
		}
		fee := coinAmt(r.ServiceFee)
		if c.SuperMode {
			x.Wit("C07:super-mode-request")
			if fee.Sign() != 0 || len(r.ServiceFee) != 0 {
				out = append(out, viol("C07", "super-mode-requests-carry-no-fee", kind, nameOf(r.Provider), fmt.Sprintf("super-mode request carries fee %s", r.ServiceFee)))
			}
			continue
		}
		b := t.Post.Binding(c.ServiceName, r.Provider)
		if b == nil {
			continue
		}
		rp := parseRefPricing(b.Pricing)
		vol := t.PreMon.Vol[volKey(c.Consumer, c.ServiceName, r.Provider)]
		foreign := rp.Denom != "" && rp.Denom != t.Pre.Params.BaseDenom
		want, haveRate := rp.PriceAt(t.Pre.S.BlockTime(), vol, rateFn(x.Sc, t.Pre.Params.BaseDenom, t.Pre.S.Height))
		if !haveRate {
			out = append(out, viol("C07", "no-request-without-a-price", kind, nameOf(r.Provider), "request issued to "+nameOf(r.Provider)+" although the exchange-rate service had no rate for "+rp.Denom))
			continue
		}
		if foreign {
			x.Wit("C07:fee-exchanged-from-another-denomination")
		}
		x.Wit("C07:fee-checked")
		if want.Cmp(rp.Base) < 0 {
			x.Wit("C07:fee-discounted")
		}
		if rp.Base.Sign() == 0 || new(big.Int).Mul(want, bi(1)).Cmp(bi(1)) == 0 && rp.Base.Cmp(bi(1)) >= 0 && want.Cmp(rp.Base) != 0 {
			x.Wit("C07:fee-clamped-or-reduced-to-one")
		}
		if fee.Cmp(want) != 0 {
			disc := fmt.Sprintf("%s/vol=%d", nameOf(r.Provider), vol)
			if b := t.PreMon.VolBase[volKey(c.Consumer, c.ServiceName, r.Provider)]; b > 0 {
				if w2, ok := rp.PriceAt(t.Pre.S.BlockTime(), vol-b, rateFn(x.Sc, t.Pre.Params.BaseDenom, t.Pre.S.Height)); ok && fee.Cmp(w2) == 0 {
					disc += "/delivered-before-a-zero-height-export-forgotten"
				}
			}
			out = append(out, viol("C07", "fee-equals-reference-price", kind, disc,
				fmt.Sprintf("request to %s at %s with %d prior responses: fee %s, pricing %s gives %s", nameOf(r.Provider), t.Pre.S.BlockTime().Format("15:04:05"), vol, fee, b.Pricing, want)))
		}
		max := new(big.Int).Set(rp.Base)
		if max.Cmp(bi(1)) < 0 {
			max = bi(1)
		}
		if fee.Cmp(max) > 0 && !foreign {
			out = append(out, viol("C07", "fee-never-above-base-price", kind, nameOf(r.Provider), fmt.Sprintf("fee %s above max(base %s, 1)", fee, rp.Base)))
		}
	}
	if kind == "E" || kind == "call" {
		// the consumer's debit is the sum of the fees (super mode costs nothing): ledger comparison on ordinary accounts
		L := BuildLedger(t)
		for _, p := range L.CompareBalances(t.Pre, t.Post) {
			if p.Disc == "deposit-account" || p.Cat == "supply" {
				continue
			}
			out = append(out, viol("C07", "consumer-pays-exactly-the-fees", kind, p.Disc, p.Detail))
		}
	}
	return out
}

func namesOf(ps []sdk.AccAddress) []string {
	var out []string
	for _, p := range ps {
		out = append(out, nameOf(p))
	}
	return out
}

// cappedInCallback: the owning module lowered this context's fee cap from inside a callback during this step.
func cappedInCallback(t *Trans, id string) bool {
	for _, cb := range t.Res.Callbacks {
		if cb.Kind == "cap1" && cb.Ctx == id {
			return true
		}
	}
	return false
}

// capChangedBeforeItsTurn: the state callback that lowered the cap of context id belongs to a context that is
// processed before it (ascending context ID).
func capChangedBeforeItsTurn(t *Trans, id string, order []string) bool {
	var trigger string
	for i, cb := range t.Res.Callbacks {
		if cb.Kind == "cap1" && cb.Ctx == id {
			for j := i - 1; j >= 0; j-- {
				if t.Res.Callbacks[j].Kind == "state" {
					trigger = t.Res.Callbacks[j].Ctx
					break
				}
			}
			break
		}
	}
	return trigger != "" && trigger < id
}
