package main

import (
	"fmt"
	"strings"
	"time"

	st "github.com/irismod/service/types"
)

// priceGrid is C07(a): the real keeper.GetPrice / GetExchangedPrice against the reference formula over the full
// cross product of base prices, time-promotion layouts x block times, volume-promotion layouts x volumes.
func priceGrid(tier string) (*PureEvidence, []Found) {
	ev := &PureEvidence{Counters: map[string]int64{}, Rule: "cross product base price x time windows x block time x volume tiers x volume; each case evaluates the module's GetPrice and GetExchangedPrice on a real binding and compares with max(1, floor(base*dT*dV)) computed in exact rationals from the pricing text; distinct = distinct (pricing text, block time, volume) triples whose reference fee differs from the undiscounted base or hits the one-unit floor"}
	found := map[string]*Found{}
	rig := NewRig(RigConfig{})
	ps := defaultParams()
	// published prices; a fractional part is below the smallest unit of `stake` and is dropped when the price terms are stored
	bases := []string{"0", "1", "2", "3", "6", "10", "999", "1000000000000000000", "0.5", "1.5", "2.75", "7.5"}
	ts := func(sec int) string { return T0.Add(timeSec(sec)).Format("2006-01-02T15:04:05Z") }
	timeLayouts := []string{
		"",
		fmt.Sprintf(`[{"start_time":"%s","end_time":"%s","discount":"0.5"}]`, ts(10), ts(20)),
		fmt.Sprintf(`[{"start_time":"%s","end_time":"%s","discount":"0.5"},{"start_time":"%s","end_time":"%s","discount":"0.8"}]`, ts(10), ts(20), ts(20), ts(30)),
		fmt.Sprintf(`[{"start_time":"%s","end_time":"%s","discount":"0.3"},{"start_time":"%s","end_time":"%s","discount":"0.9"}]`, ts(10), ts(20), ts(25), ts(35)),
		// discounts with 18 decimals whose product with an 18-decimal volume discount lies just below an integer
		fmt.Sprintf(`[{"start_time":"%s","end_time":"%s","discount":"0.333333333333333334"}]`, ts(10), ts(20)),
		// windows listed newest first: the unmodified module refuses such a pricing (counted, not priced)
		fmt.Sprintf(`[{"start_time":"%s","end_time":"%s","discount":"0.9"},{"start_time":"%s","end_time":"%s","discount":"0.3"}]`, ts(25), ts(35), ts(10), ts(20)),
	}
	blockTimes := []int{5, 10, 15, 19, 20, 22, 25, 30, 34, 35, 40}
	volLayouts := []string{
		"",
		`[{"volume":1,"discount":"0.9"}]`,
		`[{"volume":2,"discount":"0.9"},{"volume":4,"discount":"0.5"}]`,
		`[{"volume":1,"discount":"0.9"},{"volume":3,"discount":"0.5"},{"volume":4,"discount":"0.1"}]`,
		`[{"volume":1,"discount":"0.999999999999999998"},{"volume":3,"discount":"0.333333333333333333"}]`,
	}
	vols := []uint64{0, 1, 2, 3, 4, 5, 6}
	distinct := map[string]bool{}
	for _, base := range bases {
		for ti, tl := range timeLayouts {
			for vi, vl := range volLayouts {
				parts := []string{fmt.Sprintf(`"price":"%sstake"`, base)}
				if tl != "" {
					parts = append(parts, `"promotions_by_time":`+tl)
				}
				if vl != "" {
					parts = append(parts, `"promotions_by_volume":`+vl)
				}
				text := "{" + strings.Join(parts, ",") + "}"
				// a world holding exactly this binding, created by real messages
				s := rig.Genesis(ps, []Funding{{O1, -30}, {C1, 10}}, allAccounts)
				w := rig.Restore(s)
				if res := w.DeliverMsg(st.NewMsgDefineService("a", "", nil, AU, "", schemasOK), nil, 0); !res.OK() {
					panic("price grid setup: " + res.ErrString())
				}
				if res := w.DeliverMsg(st.NewMsgBindService("a", P1, bigCoins("3000000000000000000"), text, 1, "{}", O1), nil, 0); !res.OK() {
					ev.Counters["pricing-refused-by-module"]++
					continue
				}
				binding, ok := rig.sk.GetServiceBinding(w.ctx, "a", P1)
				if !ok {
					panic("binding missing")
				}
				rp := parseRefPricing(text)
				for _, bt := range blockTimes {
					t := T0.Add(time.Duration(bt) * time.Second)
					for _, vol := range vols {
						ctx := w.ctx.WithBlockTime(t)
						rig.sk.SetRequestVolume(ctx, C1, "a", P1, vol)
						want := rp.Price(t, vol)
						got := rig.sk.GetPrice(ctx, C1, binding).AmountOf(denom).BigInt()
						gotX, _, err := rig.sk.GetExchangedPrice(ctx, C1, binding)
						ev.Evaluations += 2
						ev.Counters["cases"]++
						if want.Cmp(rp.Base) != 0 {
							distinct[fmt.Sprintf("%s|%d|%d", text, bt, vol)] = true
							ev.Counters["discounted-or-clamped"]++
						}
						if want.Cmp(bi(1)) == 0 && rp.Base.Cmp(bi(1)) != 0 {
							ev.Counters["one-unit-floor"]++
						}
						rec := func(clause, which string, g string) {
							sig := fmt.Sprintf("C07|%s|pure|%s/base=%s/tl=%d/vl=%d", clause, which, base, ti, vi)
							if f, ok := found[sig]; ok {
								f.Count++
								return
							}
							found[sig] = &Found{Violation: Violation{Prop: "C07", Clause: clause, Sig: sig,
								Detail: fmt.Sprintf("%s for pricing %s at T0+%ds with volume %d is %s, reference %s", which, text, bt, vol, g, want)},
								Trace: []string{text, fmt.Sprintf("T0+%ds", bt), fmt.Sprintf("volume=%d", vol)}, Count: 1}
						}
						if got.Cmp(want) != 0 {
							rec("fee-equals-reference-price", "GetPrice", got.String())
						}
						if err != nil {
							rec("fee-equals-reference-price", "GetExchangedPrice-error", err.Error())
						} else if gotX.AmountOf(denom).BigInt().Cmp(want) != 0 {
							rec("charged-price-equals-reference-price", "GetExchangedPrice", gotX.String())
						}
						if len(ev.Samples) < 3 && want.Cmp(rp.Base) != 0 {
							ev.Samples = append(ev.Samples, map[string]interface{}{"pricing": text, "block_time": fmt.Sprintf("T0+%ds", bt), "volume": vol, "reference_fee": want.String(), "module_fee": got.String()})
						}
					}
				}
			}
		}
	}
	priceGridFX(ev, found, distinct)
	ev.Distinct = int64(len(distinct))
	var out []Found
	for _, f := range found {
		out = append(out, *f)
	}
	return ev, out
}

// priceGridFX: the exchanged price on a host chain with a token module: prices published in a main unit or a foreign
// token x discounts x exchange rates with up to 18 decimals (the rate is what the exchange-rate service answers at
// the block height). Reference = max(1, floor(amount in smallest units x dT x dV x rate)) in exact rationals.
func priceGridFX(ev *PureEvidence, found map[string]*Found, distinct map[string]bool) {
	rates := []string{"0.03", "1", "2.5", "1.333333333333333333", "0.666666666666666666", "0.000000000000000001", "1000000", "0.333333333333333334", "0.015", "0.123456789012345678"}
	rig := NewRig(RigConfig{FX: &FXSpec{Rates: map[string][]string{"cent-stake": rates}}})
	ps := defaultParams()
	ts := func(sec int) string { return T0.Add(timeSec(sec)).Format("2006-01-02T15:04:05Z") }
	prices := []string{"1usd", "1.5usd", "3usd", "300usd", "0.03usd", "150cent", "3cent", "0cent", "0.002kilo", "0.0015kilo", "2stake", "1000000000000000000cent"}
	timeLayouts := []string{"", fmt.Sprintf(`[{"start_time":"%s","end_time":"%s","discount":"0.5"}]`, ts(10), ts(20)),
		fmt.Sprintf(`[{"start_time":"%s","end_time":"%s","discount":"0.333333333333333334"}]`, ts(10), ts(20))}
	volLayouts := []string{"", `[{"volume":1,"discount":"0.9"}]`, `[{"volume":1,"discount":"0.999999999999999998"}]`}
	for _, price := range prices {
		for ti, tl := range timeLayouts {
			for vi, vl := range volLayouts {
				parts := []string{fmt.Sprintf(`"price":"%s"`, price)}
				if tl != "" {
					parts = append(parts, `"promotions_by_time":`+tl)
				}
				if vl != "" {
					parts = append(parts, `"promotions_by_volume":`+vl)
				}
				text := "{" + strings.Join(parts, ",") + "}"
				s := rig.Genesis(ps, []Funding{{O1, -30}, {C1, 10}}, allAccounts)
				w := rig.Restore(s)
				if res := w.DeliverMsg(st.NewMsgDefineService("a", "", nil, AU, "", schemasOK), nil, 0); !res.OK() {
					panic("price grid setup: " + res.ErrString())
				}
				if res := w.DeliverMsg(st.NewMsgBindService("a", P1, bigCoins("3000000000000000000"), text, 1, "{}", O1), nil, 0); !res.OK() {
					ev.Counters["fx/pricing-refused-by-module"]++
					continue
				}
				binding, _ := rig.sk.GetServiceBinding(w.ctx, "a", P1)
				rp := parseRefPricing(text)
				for h := range rates {
					for _, bt := range []int{5, 15} {
						for _, vol := range []uint64{0, 1} {
							t := T0.Add(time.Duration(bt) * time.Second)
							ctx := w.ctx.WithBlockTime(t).WithBlockHeight(int64(h))
							rig.sk.SetRequestVolume(ctx, C1, "a", P1, vol)
							sc := &Scenario{Rig: rig.cfg}
							want, ok := rp.PriceAt(t, vol, rateFn(sc, denom, int64(h)))
							gotX, _, err := rig.sk.GetExchangedPrice(ctx, C1, binding)
							ev.Evaluations++
							ev.Counters["fx/cases"]++
							if !ok {
								panic("no rate in the FX grid")
							}
							if rp.Denom != denom {
								ev.Counters["fx/exchanged"]++
								distinct[fmt.Sprintf("fx|%s|%d|%d|%d", text, bt, vol, h)] = true
							}
							g := ""
							switch {
							case err != nil:
								g = "error " + err.Error()
							case gotX.AmountOf(denom).BigInt().Cmp(want) != 0:
								g = gotX.String()
							}
							if g != "" {
								sig := fmt.Sprintf("C07|charged-price-equals-reference-price|pure|GetExchangedPrice/fx/price=%s/tl=%d/vl=%d/rate=%s", price, ti, vi, rates[h])
								if f, ok := found[sig]; ok {
									f.Count++
								} else {
									found[sig] = &Found{Violation: Violation{Prop: "C07", Clause: "charged-price-equals-reference-price", Sig: sig,
										Detail: fmt.Sprintf("GetExchangedPrice for pricing %s at T0+%ds with volume %d at rate %s is %s, reference %s", text, bt, vol, rates[h], g, want)},
										Trace: []string{text, fmt.Sprintf("T0+%ds", bt), fmt.Sprintf("volume=%d", vol), "rate=" + rates[h]}, Count: 1}
								}
							}
						}
					}
				}
			}
		}
	}
}
