package main

import (
	"bytes"
	"fmt"
	"reflect"
	"strings"

	st "github.com/irismod/service/types"
)

// ---------------------------------------------------------------------------------------------
// C09 — request contexts follow their lifecycle state machine.
type oracleC09 struct{ baseOracle }

func (oracleC09) Prop() string { return "C09" }

func stName(s st.RequestContextState) string { return s.String() }

func (oracleC09) Step(x *OCtx, t *Trans) []Violation {
	var out []Violation
	a := t.Act
	kind := a.Kind
	H := t.Pre.H
	add := func(clause, disc, detail string) { out = append(out, viol("C09", clause, kind, disc, detail)) }
	// "a consumer's inability to pay a batch moves running to paused": the inability must be real. The reference
	// decision of DESIGN 9.B (shared with C06) says whether the consumer could pay the batch that was due.
	if rg := x.Sc.Rig; kind == "E" && !rg.Reentrant && !rg.ReentrantRestart && !rg.ReentrantSelfKill && !rg.ReentrantPauseSiblings {
		for _, v := range (oracleC06{}).Step(x, t) {
			if v.Clause == "batch-decision-follows-eligibility-threshold-and-balance" && strings.HasSuffix(v.Sig, "/got=pause") {
				add("paused-only-when-the-consumer-cannot-pay", v.Sig[strings.LastIndex(v.Sig, "|")+1:], v.Detail)
			}
		}
	}

	// kills made by the owning module from inside a callback during this step (keeper API)
	cbKilled, cbSelf := map[string]bool{}, map[string]bool{}
	for _, cb := range t.Res.Callbacks {
		if cb.Kind == "kill" || cb.Kind == "selfkill" {
			cbKilled[cb.Ctx] = true
			cbSelf[cb.Ctx] = cb.Kind == "selfkill"
		}
	}
	// batches are issued only while running: a context its module paused inside a callback gets no batch after that
	cbPaused := map[string]bool{}
	for _, cb := range t.Res.Callbacks {
		if cb.Kind != "pause" {
			continue
		}
		cbPaused[cb.Ctx] = true
		x.Wit("C09:paused-by-its-module-inside-a-callback")
		if pc, qc := t.Pre.Ctxs[cb.Ctx], t.Post.Ctxs[cb.Ctx]; pc != nil && qc != nil && cb.BatchCounter == pc.BatchCounter && qc.BatchCounter > pc.BatchCounter {
			add("batches-only-while-running", "paused-in-callback", fmt.Sprintf("context %s was paused by its module during this step (at batch %d) and got batch %d afterwards",
				x.Sc.ctxName(cb.Ctx), cb.BatchCounter, qc.BatchCounter))
		}
	}
	// contexts that exist before the step
	for _, id := range t.Pre.CtxIDs {
		pc := t.Pre.Ctxs[id]
		qc, still := t.Post.Ctxs[id]
		name := x.Sc.ctxName(id)
		if !still {
			if kind != "E" {
				add("context-removed-only-at-an-expiry", "removed-by-message", fmt.Sprintf("context %s disappeared in a %s step", name, kind))
			} else if h, ok := t.Pre.ExpH[id]; !ok || h != H {
				add("context-removed-only-at-an-expiry", "no-expiry-now", fmt.Sprintf("context %s removed at height %d without a batch expiring then", name, H))
			} else {
				x.Wit("C09:removed-at-expiry/" + stName(pc.State))
				// only a finished context ends: one-shot, total reached, or killed (before or, by its module, during this block)
				finished := !pc.Repeated || stName(pc.State) == "completed" || cbKilled[id] ||
					(pc.RepeatedTotal > 0 && int64(pc.BatchCounter) >= pc.RepeatedTotal)
				if !finished {
					add("only-finished-contexts-end", stName(pc.State), fmt.Sprintf("context %s (%s, batch %d of %d) was removed although it is neither one-shot, nor at its total, nor killed",
						name, stName(pc.State), pc.BatchCounter, pc.RepeatedTotal))
				}
			}
			continue
		}
		// immutable fields
		if pc.ServiceName != qc.ServiceName || !bytes.Equal(pc.Consumer, qc.Consumer) || pc.Input != qc.Input ||
			pc.SuperMode != qc.SuperMode || pc.Repeated != qc.Repeated || pc.ModuleName != qc.ModuleName {
			add("identity-fields-never-change", name, fmt.Sprintf("context %s: service/consumer/input/super/repeated/module changed", name))
		}
		// state transitions
		ps, qs := stName(pc.State), stName(qc.State)
		if ps != qs {
			x.Wit("C09:" + ps + "->" + qs + "/" + kind)
			okTr := false
			switch {
			case ps == "running" && qs == "paused" && cbPaused[id]:
				okTr = pc.Repeated // paused by its owning module (keeper API) from inside a callback
				x.Wit("C09:paused-by-its-module-inside-a-callback/transition")
			case ps == "running" && qs == "paused":
				if (kind == "pause" || kind == "mpause") && t.Res.OK() && a.Ctx == id {
					okTr = pc.Repeated
					if !okTr {
						add("pause-only-repeated-running", "one-shot-paused", fmt.Sprintf("one-shot context %s was paused by a message", name))
						okTr = true
					}
				} else if kind == "E" {
					// allowed only as "could not pay": a batch was due now, none was issued, counter unchanged
					if qc.BatchCounter == pc.BatchCounter && !hasNewRequests(t, id) {
						okTr = true
						x.Wit("C09:paused-for-funds")
					}
				}
			case ps == "paused" && qs == "running":
				okTr = (kind == "start" || kind == "mstart") && t.Res.OK() && a.Ctx == id
			case qs == "completed" && cbKilled[id]:
				okTr = pc.Repeated
				x.Wit("C09:killed-by-its-module-inside-a-callback")
			case qs == "completed":
				okTr = (kind == "kill" || kind == "mkill") && t.Res.OK() && a.Ctx == id && pc.Repeated
				if (kind == "kill" || kind == "mkill") && t.Res.OK() && a.Ctx == id && !pc.Repeated {
					add("kill-only-repeated", "one-shot-killed", fmt.Sprintf("one-shot context %s was killed", name))
					okTr = true
				}
			}
			if !okTr {
				add("only-allowed-state-transitions", ps+"->"+qs, fmt.Sprintf("context %s moved %s -> %s in a %s step", name, ps, qs, kind))
			}
		}
		if cbKilled[id] && qs != "completed" {
			disc := "kill-undone/" + qs
			if cbSelf[id] {
				disc = "kill-from-response-callback-undone/" + qs
			}
			add("completed-is-final", disc, fmt.Sprintf("context %s was killed by its module during this step (the kill succeeded) but is %s afterwards", name, qs))
		}
		// a running context whose batch is due in this block either gets it (issued or skipped) or is paused for funds
		if kind == "E" && ps == "running" {
			if h, ok := t.Pre.NewH[id]; ok && h == H {
				x.Wit("C09:running-context-with-batch-due")
				if qc.BatchCounter == pc.BatchCounter && qs == "running" && !cbKilled[id] {
					add("due-batch-is-issued-skipped-or-context-paused", name, fmt.Sprintf("running context %s had a batch due at height %d: no batch, still running", name, H))
				}
			}
		}
		if ps == "completed" {
			// completed is final: no update of its terms, no new batch
			if !reflect.DeepEqual(pc.Providers, qc.Providers) || !pc.ServiceFeeCap.IsEqual(qc.ServiceFeeCap) || pc.Timeout != qc.Timeout ||
				pc.RepeatedFrequency != qc.RepeatedFrequency || pc.RepeatedTotal != qc.RepeatedTotal || pc.ResponseThreshold != qc.ResponseThreshold {
				add("completed-context-never-updated", name, fmt.Sprintf("terms of completed context %s changed in a %s step", name, kind))
			}
			if qc.BatchCounter != pc.BatchCounter {
				add("completed-context-gets-no-batch", name, fmt.Sprintf("completed context %s got batch %d", name, qc.BatchCounter))
			}
		}
		// batch counter
		if qc.BatchCounter != pc.BatchCounter {
			x.Wit("C09:counter-advanced")
			if qc.BatchCounter != pc.BatchCounter+1 {
				add("counter-increases-by-one", name, fmt.Sprintf("context %s counter %d -> %d", name, pc.BatchCounter, qc.BatchCounter))
			}
			if kind != "E" && !(kind == "call" && a.Ctx == id) {
				add("counter-changes-only-at-end-of-block", kind, fmt.Sprintf("context %s counter changed in a %s step", name, kind))
			}
			if ps != "running" {
				add("batches-only-while-running", ps, fmt.Sprintf("context %s in state %s got batch %d", name, ps, qc.BatchCounter))
			}
		}
		if hasNewRequests(t, id) && ps != "running" {
			add("batches-only-while-running", ps+"/requests", fmt.Sprintf("requests issued for context %s in state %s", name, ps))
		}
		// successful lifecycle messages must have met their precondition
		if t.Res.OK() && a.Ctx == id {
			switch kind {
			case "pause", "mpause":
				if ps != "running" || !pc.Repeated {
					add("pause-only-repeated-running", ps, fmt.Sprintf("pause of %s succeeded in state %s repeated=%v", name, ps, pc.Repeated))
				}
			case "start", "mstart":
				if ps != "paused" {
					add("start-only-paused", ps, fmt.Sprintf("start of %s succeeded in state %s", name, ps))
				}
			case "kill", "mkill":
				if !pc.Repeated {
					add("kill-only-repeated", "one-shot", fmt.Sprintf("kill of one-shot %s succeeded", name))
				}
			case "updctx", "mupdate":
				if ps == "completed" {
					add("completed-context-never-updated", "update-accepted", fmt.Sprintf("update of completed %s succeeded", name))
				}
			}
		}
	}
	// contexts that appear
	for _, id := range t.Post.CtxIDs {
		if _, had := t.Pre.Ctxs[id]; had {
			continue
		}
		qc := t.Post.Ctxs[id]
		if !((kind == "call" || kind == "mcreate") && t.Res.OK()) {
			add("context-created-only-by-call", kind, "context "+x.Sc.ctxName(id)+" appeared in a "+kind+" step")
		}
		if kind == "call" && a.Ctx == id && len(x.Sc.Rig.ModuleServices) > 0 {
			continue // module-service call: synchronous first batch (S-MSVC)
		}
		if stName(qc.State) != "running" || qc.BatchCounter != 0 {
			add("new-context-starts-running-with-no-batch", stName(qc.State), fmt.Sprintf("new context state %s counter %d", stName(qc.State), qc.BatchCounter))
		}
	}
	return out
}

func hasNewRequests(t *Trans, ctxID string) bool {
	for _, id := range t.Post.ReqIDs {
		if _, had := t.Pre.Reqs[id]; !had && hexs(t.Post.Reqs[id].RequestContextId) == ctxID {
			return true
		}
	}
	return false
}

// ---------------------------------------------------------------------------------------------
// C11 — a running context is never stranded (pending-event invariant, DESIGN 9.E).
type oracleC11 struct{ baseOracle }

func (oracleC11) Prop() string { return "C11" }

func (oracleC11) Invariant(x *OCtx, v *View, m *Mon) []Violation {
	var out []Violation
	H := v.H
	add := func(clause, disc, detail string) { out = append(out, viol("C11", clause, "state", disc, detail)) }

	checkQueue := func(kind string, q []QueueRec, ptr map[string]int64, build func([]byte, int64) []byte) {
		seen := map[string]int{}
		for _, e := range q {
			seen[e.Ctx]++
			h, ok := ptr[e.Ctx]
			if !ok {
				add("queue-entry-has-height-pointer", kind, fmt.Sprintf("%s queue entry for context %s without a height pointer", kind, x.Sc.ctxName(e.Ctx)))
			} else if !bytes.Equal(build(mustHex(e.Ctx), h), e.Key) {
				add("queue-entry-matches-height-pointer", kind, fmt.Sprintf("%s queue entry for context %s is not at its pointer height %d", kind, x.Sc.ctxName(e.Ctx), h))
			}
			if _, ok := v.Ctxs[e.Ctx]; !ok {
				add("scheduled-event-has-context", kind, fmt.Sprintf("%s queue entry refers to missing context %s", kind, x.Sc.ctxName(e.Ctx)))
			}
		}
		for id, n := range seen {
			if n > 1 {
				add("one-event-per-kind", kind, fmt.Sprintf("context %s has %d %s entries", x.Sc.ctxName(id), n, kind))
			}
		}
		for id, h := range ptr {
			if h < H {
				add("scheduled-events-not-in-the-past", kind, fmt.Sprintf("%s pointer of context %s is at height %d, current height %d", kind, x.Sc.ctxName(id), h, H))
			}
			found := false
			want := build(mustHex(id), h)
			for _, e := range q {
				if bytes.Equal(e.Key, want) {
					found = true
				}
			}
			if !found {
				add("height-pointer-has-queue-entry", kind, fmt.Sprintf("%s pointer of context %s at height %d has no queue entry", kind, x.Sc.ctxName(id), h))
			}
			if _, ok := v.Ctxs[id]; !ok {
				add("scheduled-event-has-context", kind+"-pointer", fmt.Sprintf("%s pointer refers to missing context %s", kind, x.Sc.ctxName(id)))
			}
		}
	}
	checkQueue("expiry", v.ExpQ, v.ExpH, func(id []byte, h int64) []byte { return st.GetExpiredRequestBatchKey(id, h) })
	checkQueue("new-batch", v.NewQ, v.NewH, func(id []byte, h int64) []byte { return st.GetNewRequestBatchKey(id, h) })

	for _, id := range v.CtxIDs {
		c := v.Ctxs[id]
		n := 0
		if _, ok := v.NewH[id]; ok {
			n++
		}
		if _, ok := v.ExpH[id]; ok {
			n++
		}
		s := stName(c.State)
		if s == "running" {
			x.Wit("C11:running-context-state")
			if n != 1 {
				disc, how := fmt.Sprintf("events=%d", n), ""
				if m != nil && m.Restarted[id] {
					disc, how = disc+"/restarted-in-state-callback", " (its owning module started it again from inside the state callback)"
				}
				add("running-context-has-exactly-one-pending-event", disc, fmt.Sprintf("running context %s has %d pending events%s", x.Sc.ctxName(id), n, how))
			}
		} else if n > 1 {
			add("at-most-one-pending-event", s, fmt.Sprintf("%s context %s has %d pending events", s, x.Sc.ctxName(id), n))
		} else if n == 0 {
			x.Wit("C11:" + s + "-context-without-event")
		}
	}
	for _, a := range v.Active { // the provider's pending list (markers by binding)
		if v.Reqs[a.Req] == nil {
			add("pending-request-has-record", "no-record/by-binding", "pending marker (by binding) without request record "+shortReq(a.Req))
		}
	}
	for _, id := range v.PendingIDs() {
		r := v.Reqs[id]
		if r == nil {
			add("pending-request-has-record", "no-record", "pending marker without request record "+shortReq(id))
			continue
		}
		cid := hexs(r.RequestContextId)
		c := v.Ctxs[cid]
		if c == nil {
			add("pending-request-has-context", "no-context", "pending request "+shortReq(id)+" of a missing context")
			continue
		}
		x.Wit("C11:pending-request-state")
		if r.RequestContextBatchCounter != c.BatchCounter {
			add("pending-request-in-current-batch", "old-batch", fmt.Sprintf("pending request %s is of batch %d, context is at %d", shortReq(id), r.RequestContextBatchCounter, c.BatchCounter))
		}
		if h, ok := v.ExpH[cid]; !ok {
			add("pending-request-has-pending-expiry", "no-expiry", "pending request "+shortReq(id)+" but its context has no expiry scheduled")
		} else if h != r.ExpirationHeight {
			add("pending-request-has-pending-expiry", "other-height", fmt.Sprintf("pending request %s expires at %d, context expiry scheduled at %d", shortReq(id), r.ExpirationHeight, h))
		}
	}
	return out
}

// ---------------------------------------------------------------------------------------------
// C16 — finished batches and contexts leave nothing behind.
type oracleC16 struct{ baseOracle }

func (oracleC16) Prop() string { return "C16" }

func (oracleC16) Invariant(x *OCtx, v *View, m *Mon) []Violation {
	var out []Violation
	add := func(clause, disc, detail string) { out = append(out, viol("C16", clause, "state", disc, detail)) }
	for _, id := range v.ReqIDs {
		r := v.Reqs[id]
		cid := hexs(r.RequestContextId)
		c := v.Ctxs[cid]
		switch {
		case c == nil:
			add("request-record-in-current-batch-of-existing-context", "no-context", "request record "+shortReq(id)+" of a missing context")
		case r.RequestContextBatchCounter != c.BatchCounter:
			add("request-record-in-current-batch-of-existing-context", "old-batch", fmt.Sprintf("request record %s of batch %d, context at %d", shortReq(id), r.RequestContextBatchCounter, c.BatchCounter))
		default:
			if h, ok := v.ExpH[cid]; !ok {
				add("request-record-in-current-batch-of-existing-context", "no-expiry-pending", "request record "+shortReq(id)+" but no expiry pending for its context")
			} else if h < v.H {
				// the block that should have removed it is over
				add("expired-batch-leaves-no-record", "expiry-in-the-past", fmt.Sprintf("request record %s is still there at height %d, its batch expired at %d", shortReq(id), v.H, h))
			}
			x.Wit("C16:request-record-ok")
		}
	}
	for _, id := range v.RespIDs {
		if v.Reqs[id] == nil {
			add("response-has-request", "orphan", "response record without request "+shortReq(id))
		} else {
			x.Wit("C16:response-record-ok")
		}
	}
	byBinding := map[string]bool{}
	for _, a := range v.Active {
		byBinding[a.Req] = true
		if v.Reqs[a.Req] == nil {
			add("marker-has-request", "by-binding", "pending marker (by binding) without request "+shortReq(a.Req))
		}
		// the by-binding marker must sit under the key the module builds for that request
		if r := v.Reqs[a.Req]; r != nil {
			if c := v.Ctxs[hexs(r.RequestContextId)]; c != nil {
				want := st.GetActiveRequestKey(c.ServiceName, r.Provider, r.ExpirationHeight, mustHex(a.Req))
				if !bytes.Equal(want, a.Key) {
					add("marker-under-its-binding", "by-binding", "pending marker for "+shortReq(a.Req)+" is not under its binding/expiration key")
				}
			}
		}
	}
	for id := range v.ActiveByID {
		if v.Reqs[id] == nil {
			add("marker-has-request", "by-id", "pending marker (by id) without request "+shortReq(id))
		}
		if !byBinding[id] {
			add("both-marker-indexes-list-the-same-requests", "only-by-id", "request "+shortReq(id)+" listed by id but not by binding")
		}
	}
	for id := range byBinding {
		if !v.ActiveByID[id] {
			add("both-marker-indexes-list-the-same-requests", "only-by-binding", "request "+shortReq(id)+" listed by binding but not by id")
		}
	}
	return out
}

func (oracleC16) Step(x *OCtx, t *Trans) []Violation {
	if t.Act.Kind != "E" {
		return nil
	}
	var out []Violation
	H := t.Pre.H
	for _, id := range t.Pre.CtxIDs {
		h, ok := t.Pre.ExpH[id]
		if !ok || h != H {
			continue
		}
		pc := t.Pre.Ctxs[id]
		name := x.Sc.ctxName(id)
		// no record of the expired batch remains
		left := 0
		for _, rid := range t.Post.ReqIDs {
			r := t.Post.Reqs[rid]
			if hexs(r.RequestContextId) == id && r.RequestContextBatchCounter == pc.BatchCounter {
				left++
			}
		}
		for _, rid := range t.Post.RespIDs {
			r := t.Post.Resps[rid]
			if hexs(r.RequestContextId) == id && r.RequestContextBatchCounter == pc.BatchCounter {
				left++
			}
		}
		for rid := range t.Post.ActiveByID {
			if r := t.Pre.Reqs[rid]; r != nil && hexs(r.RequestContextId) == id && r.RequestContextBatchCounter == pc.BatchCounter {
				left++
			}
		}
		for _, ar := range t.Post.Active {
			if r := t.Pre.Reqs[ar.Req]; r != nil && hexs(r.RequestContextId) == id && r.RequestContextBatchCounter == pc.BatchCounter {
				left++
			}
		}
		x.Wit("C16:batch-expired/" + stName(pc.State))
		if pc.BatchRequestCount == 0 {
			x.Wit("C16:skipped-batch-expired")
		}
		if stName2(pc.BatchState) == "completed" {
			x.Wit("C16:early-completed-batch-expired")
		}
		if left > 0 {
			out = append(out, viol("C16", "expired-batch-records-removed", "E", stName(pc.State), fmt.Sprintf("%d records of batch %d of context %s remain after its expiry block", left, pc.BatchCounter, name)))
		}
		// killed by its owning module from inside a callback during this very end-of-block: if its expiry was handled
		// after the kill it is gone, if before it remains - completed
		for _, cb := range t.Res.Callbacks {
			if (cb.Kind == "kill" || cb.Kind == "selfkill") && cb.Ctx == id {
				x.Wit("C16:killed-in-callback-while-its-batch-expires")
				if qc, still := t.Post.Ctxs[id]; still && stName(qc.State) != "completed" {
					out = append(out, viol("C16", "finished-context-removed", "E", "killed-in-callback/"+stName(qc.State),
						fmt.Sprintf("context %s was killed by its module during the block in which its batch %d expired and is %s afterwards", name, pc.BatchCounter, stName(qc.State))))
				}
			}
		}
		finished := ""
		switch {
		case !pc.Repeated:
			finished = "one-shot"
		case stName(pc.State) == "completed" || t.PreMon.Killed[id]:
			finished = "killed"
		case pc.RepeatedTotal > 0 && int64(pc.BatchCounter) >= pc.RepeatedTotal:
			finished = "total-reached"
		}
		if finished != "" {
			x.Wit("C16:context-finished/" + finished + "/" + stName(pc.State))
			if _, still := t.Post.Ctxs[id]; still {
				out = append(out, viol("C16", "finished-context-removed", "E", finished+"/"+stName(pc.State),
					fmt.Sprintf("context %s (%s, state %s, batch %d of %d) still exists after its last batch expired", name, finished, stName(pc.State), pc.BatchCounter, pc.RepeatedTotal)))
			}
		}
	}
	return out
}
