package main

import (
	"fmt"
	"sort"
)

// ---------------------------------------------------------------------------------------------
// C10 — repeated invocations keep their cadence and respect their total (history variables: CtxMon).
type oracleC10 struct{ baseOracle }

func (oracleC10) Prop() string { return "C10" }

func (oracleC10) Invariant(x *OCtx, v *View, m *Mon) []Violation {
	var out []Violation
	for _, id := range v.CtxIDs {
		c := v.Ctxs[id]
		name := x.Sc.ctxName(id)
		if !c.Repeated && c.BatchCounter > 1 {
			out = append(out, viol("C10", "one-shot-gets-at-most-one-batch", "state", name, fmt.Sprintf("one-shot context %s is at batch %d", name, c.BatchCounter)))
		}
		if cm, ok := m.Ctx[id]; ok && c.Repeated && cm.MaxTotal > 0 && !cm.hadInfinite() {
			if int64(c.BatchCounter) > cm.MaxTotal {
				out = append(out, viol("C10", "batches-never-exceed-largest-total", "state", fmt.Sprintf("%s/state=%s", name, stName(c.State)),
					fmt.Sprintf("context %s is at batch %d, the largest total ever in force is %d", name, c.BatchCounter, cm.MaxTotal)))
			}
			if int64(c.BatchCounter) == cm.MaxTotal {
				x.Wit("C10:total-reached")
			}
		}
	}
	return out
}

func (c CtxMon) hadInfinite() bool { return c.Inf }

func (oracleC10) Step(x *OCtx, t *Trans) []Violation {
	if t.Act.Kind != "E" {
		return nil
	}
	var out []Violation
	H := t.Pre.H
	add := func(clause, disc, detail string) { out = append(out, viol("C10", clause, "E", disc, detail)) }
	for _, id := range t.Pre.CtxIDs {
		pc := t.Pre.Ctxs[id]
		qc := t.Post.Ctxs[id]
		cm, ok := t.PreMon.Ctx[id]
		if !ok {
			continue
		}
		name := x.Sc.ctxName(id)
		advanced := qc != nil && qc.BatchCounter > pc.BatchCounter
		pausedForFunds := qc != nil && stName(pc.State) == "running" && stName(qc.State) == "paused"
		running := stName(pc.State) == "running"
		// first batch at the end of the block that contains the call
		if cm.Created == H && pc.BatchCounter == 0 {
			if running {
				x.Wit("C10:first-batch-due")
				if !advanced && !pausedForFunds {
					add("first-batch-at-end-of-calling-block", name, fmt.Sprintf("context %s created in block %d, still running at its end, got no batch", name, H))
				}
			} else {
				x.Wit("C10:not-running-at-end-of-calling-block")
			}
		}
		if advanced {
			// never two batches in flight
			if cm.LastStart != 0 && H < cm.LastExp {
				add("next-batch-not-before-previous-expired", name, fmt.Sprintf("context %s batch %d started at %d, previous batch expires at %d", name, qc.BatchCounter, H, cm.LastExp))
			}
			if cm.LastStart != 0 && cm.Steady {
				x.Wit("C10:steady-consecutive-start")
				if uint64(H-cm.LastStart) != cm.Freq {
					add("steady-context-keeps-frequency", fmt.Sprintf("%s/gap=%d/freq=%d", name, H-cm.LastStart, cm.Freq),
						fmt.Sprintf("context %s ran undisturbed (timeout %d, frequency %d) but batches started at %d and %d", name, cm.Timeout, cm.Freq, cm.LastStart, H))
				}
			}
			if cm.LastStart != 0 && !cm.Steady {
				x.Wit("C10:disturbed-consecutive-start")
			}
		} else if cm.LastStart != 0 && cm.Steady && running && pc.Repeated && !pausedForFunds &&
			(pc.RepeatedTotal < 0 || int64(pc.BatchCounter) < pc.RepeatedTotal) && uint64(H-cm.LastStart) == cm.Freq && cm.Freq > 0 {
			add("steady-context-keeps-frequency", name+"/missed", fmt.Sprintf("context %s ran undisturbed with frequency %d since %d but no batch started at %d", name, cm.Freq, cm.LastStart, H))
		}
	}
	return out
}

// ---------------------------------------------------------------------------------------------
// C12 — batch bookkeeping and module callbacks are exact.
type oracleC12 struct{ baseOracle }

func (oracleC12) Prop() string { return "C12" }

func batchRecords(v *View, ctxID string, counter uint64) (reqs []string, resps []string) {
	for _, id := range v.ReqIDs {
		r := v.Reqs[id]
		if hexs(r.RequestContextId) == ctxID && r.RequestContextBatchCounter == counter {
			reqs = append(reqs, id)
		}
	}
	for _, id := range v.RespIDs {
		r := v.Resps[id]
		if hexs(r.RequestContextId) == ctxID && r.RequestContextBatchCounter == counter {
			resps = append(resps, id)
		}
	}
	sort.Strings(reqs)
	sort.Strings(resps)
	return
}

func (oracleC12) Invariant(x *OCtx, v *View, m *Mon) []Violation {
	var out []Violation
	for _, id := range v.CtxIDs {
		if h, inFlight := v.ExpH[id]; !inFlight {
			continue
		} else if h < v.H && stName2(v.Ctxs[id].BatchState) != "completed" {
			// its expiry block lies behind us and the batch was never completed (nor reported)
			out = append(out, viol("C12", "batch-completed-when-expiry-block-ends", "state", x.Sc.ctxName(id)+"/expiry-in-the-past",
				fmt.Sprintf("batch %d of %s is still running at height %d, its expiry block was %d", v.Ctxs[id].BatchCounter, x.Sc.ctxName(id), v.H, h)))
		}
		c := v.Ctxs[id]
		name := x.Sc.ctxName(id)
		reqs, resps := batchRecords(v, id, c.BatchCounter)
		x.Wit("C12:batch-in-flight-state")
		if int(c.BatchRequestCount) != len(reqs) {
			out = append(out, viol("C12", "request-count-equals-requests-issued", "state", name, fmt.Sprintf("context %s batch %d records %d requests, %d exist", name, c.BatchCounter, c.BatchRequestCount, len(reqs))))
		}
		if int(c.BatchResponseCount) != len(resps) {
			out = append(out, viol("C12", "response-count-equals-responses-accepted", "state", name, fmt.Sprintf("context %s batch %d records %d responses, %d exist", name, c.BatchCounter, c.BatchResponseCount, len(resps))))
		}
		done := len(reqs) >= 1 && len(resps) == len(reqs)
		comp := stName2(c.BatchState) == "completed"
		if done {
			x.Wit("C12:batch-completed-early")
		}
		if len(reqs) == 0 {
			x.Wit("C12:skipped-batch-in-flight")
		}
		if done != comp {
			out = append(out, viol("C12", "batch-completed-iff-all-requests-answered", "state", fmt.Sprintf("%s/completed=%v", name, comp),
				fmt.Sprintf("context %s batch %d: %d requests, %d responses, batch state %s", name, c.BatchCounter, len(reqs), len(resps), stName2(c.BatchState))))
		}
	}
	for k, n := range m.CB {
		if n > 1 {
			out = append(out, viol("C12", "one-response-callback-per-batch", "state", "twice", fmt.Sprintf("%d response callbacks for batch %s", n, k)))
		}
	}
	return out
}

func stName2(s interface{ String() string }) string { return s.String() }

type expCB struct {
	ctx     string
	outputs []string
	wantErr bool
	counter uint64
}

func (oracleC12) Step(x *OCtx, t *Trans) []Violation {
	var out []Violation
	kind := t.Act.Kind
	H := t.Pre.H
	add := func(clause, disc, detail string) { out = append(out, viol("C12", clause, kind, disc, detail)) }

	var want []expCB
	var wantState []string
	outputsOf := func(v *View, ctxID string, counter uint64) []string {
		_, resps := batchRecords(v, ctxID, counter)
		var outs []string
		for _, id := range resps {
			if o := v.Resps[id].Output; len(o) > 0 {
				outs = append(outs, o)
			}
		}
		return outs
	}
	switch {
	case kind == "respond" && t.Res.OK():
		if r := t.Pre.Reqs[t.Act.Req]; r != nil {
			cid := hexs(r.RequestContextId)
			if pc := t.Pre.Ctxs[cid]; pc != nil && len(pc.ModuleName) > 0 {
				reqs, resps := batchRecords(t.Post, cid, pc.BatchCounter)
				if len(reqs) >= 1 && len(reqs) == len(resps) {
					outs := outputsOf(t.Post, cid, pc.BatchCounter)
					want = append(want, expCB{cid, outs, len(outs) < int(pc.BatchResponseThreshold), pc.BatchCounter})
				}
			}
		}
	case kind == "E":
		ids := append([]string{}, t.Pre.CtxIDs...)
		sort.Strings(ids)
		for _, id := range ids {
			pc := t.Pre.Ctxs[id]
			if len(pc.ModuleName) == 0 {
				continue
			}
			if h, ok := t.Pre.ExpH[id]; ok && h == H {
				reqs, resps := batchRecords(t.Pre, id, pc.BatchCounter)
				completedEarly := len(reqs) >= 1 && len(reqs) == len(resps)
				if !completedEarly {
					outs := outputsOf(t.Pre, id, pc.BatchCounter)
					want = append(want, expCB{id, outs, len(outs) < int(pc.BatchResponseThreshold), pc.BatchCounter})
					if len(reqs) == 0 {
						x.Wit("C12:callback-for-skipped-batch")
					}
					if stName(pc.State) != "running" {
						x.Wit("C12:callback-at-expiry-while-" + stName(pc.State))
					}
				}
			}
			if qc := t.Post.Ctxs[id]; qc != nil && stName(pc.State) == "running" && stName(qc.State) == "paused" {
				wantState = append(wantState, id)
			}
		}
	}
	var gotResp, gotState []CallbackRec
	for _, cb := range t.Res.Callbacks {
		switch cb.Kind {
		case "response":
			gotResp = append(gotResp, cb)
		case "state":
			gotState = append(gotState, cb)
		}
	}
	// compare as multisets keyed by context
	for _, w := range want {
		n := 0
		for _, g := range gotResp {
			if g.Ctx != w.ctx {
				continue
			}
			n++
			x.Wit("C12:response-callback")
			if sortedJoin(g.Outputs) != sortedJoin(w.outputs) {
				add("callback-carries-exactly-the-nonempty-outputs", x.Sc.ctxName(w.ctx), fmt.Sprintf("callback outputs %v, batch outputs %v", g.Outputs, w.outputs))
			}
			if g.HasErr != w.wantErr {
				add("callback-error-iff-below-threshold", fmt.Sprintf("%s/err=%v", x.Sc.ctxName(w.ctx), g.HasErr),
					fmt.Sprintf("callback error=%v with %d outputs for batch %d of %s", g.HasErr, len(w.outputs), w.counter, x.Sc.ctxName(w.ctx)))
			}
			if g.HasErr {
				x.Wit("C12:response-callback-with-error")
			} else {
				x.Wit("C12:response-callback-without-error")
			}
		}
		if n != 1 {
			add("one-response-callback-per-batch", fmt.Sprintf("%s/got=%d", x.Sc.ctxName(w.ctx), n), fmt.Sprintf("%d response callbacks for batch %d of %s in the step that finished it", n, w.counter, x.Sc.ctxName(w.ctx)))
		}
	}
	for _, g := range gotResp {
		found := false
		for _, w := range want {
			if w.ctx == g.Ctx {
				found = true
			}
		}
		if !found {
			add("one-response-callback-per-batch", x.Sc.ctxName(g.Ctx)+"/unexpected", fmt.Sprintf("response callback for %s in a step that finished none of its batches", x.Sc.ctxName(g.Ctx)))
		}
	}
	for _, id := range wantState {
		n := 0
		for _, g := range gotState {
			if g.Ctx == id {
				n++
			}
		}
		x.Wit("C12:state-callback-due")
		if n != 1 {
			add("state-callback-when-paused-for-funds", fmt.Sprintf("got=%d", n), fmt.Sprintf("%d state callbacks for %s paused for funds", n, x.Sc.ctxName(id)))
		}
	}
	for _, g := range gotState {
		found := false
		for _, id := range wantState {
			if id == g.Ctx {
				found = true
			}
		}
		if !found {
			add("state-callback-when-paused-for-funds", "unexpected", "state callback for "+x.Sc.ctxName(g.Ctx)+" that was not paused for funds in this step")
		}
	}
	// batch state after the expiry block
	if kind == "E" {
		for _, id := range t.Pre.CtxIDs {
			pc := t.Pre.Ctxs[id]
			if h, ok := t.Pre.ExpH[id]; ok && h == H {
				if qc := t.Post.Ctxs[id]; qc != nil && qc.BatchCounter == pc.BatchCounter && stName2(qc.BatchState) != "completed" {
					add("batch-completed-when-expiry-block-ends", x.Sc.ctxName(id), fmt.Sprintf("batch %d of %s still %s after its expiry block", pc.BatchCounter, x.Sc.ctxName(id), stName2(qc.BatchState)))
				}
			}
			// a batch that starts takes the context's threshold
			if qc := t.Post.Ctxs[id]; qc != nil && qc.BatchCounter > pc.BatchCounter && qc.BatchResponseThreshold != qc.ResponseThreshold {
				add("batch-threshold-is-context-threshold", x.Sc.ctxName(id), fmt.Sprintf("batch threshold %d, context threshold %d", qc.BatchResponseThreshold, qc.ResponseThreshold))
			}
		}
	}
	return out
}

// ---------------------------------------------------------------------------------------------
// C08 — a request can be answered once, by its provider, until its expiry block ends (history: ReqMon).
type oracleC08 struct{ baseOracle }

func (oracleC08) Prop() string { return "C08" }

func (oracleC08) Invariant(x *OCtx, v *View, m *Mon) []Violation {
	var out []Violation
	for id, e := range m.Req {
		if !e.Answered && v.H <= e.IssueH+e.Timeout {
			x.Wit("C08:pending-within-window")
			if !v.ActiveByID[id] {
				out = append(out, viol("C08", "pending-until-expiry-block-ends", "state", "marker-missing",
					fmt.Sprintf("request %s issued at %d with timeout %d is not pending at height %d", shortReq(id), e.IssueH, e.Timeout, v.H)))
			}
		}
		if v.H > e.IssueH+e.Timeout && v.ActiveByID[id] {
			out = append(out, viol("C08", "not-pending-after-expiry-block", "state", "marker-left",
				fmt.Sprintf("request %s issued at %d with timeout %d is still pending at height %d", shortReq(id), e.IssueH, e.Timeout, v.H)))
		}
		if e.Answered && v.ActiveByID[id] {
			out = append(out, viol("C08", "answered-request-not-pending", "state", "marker-left", "answered request "+shortReq(id)+" is still pending"))
		}
	}
	return out
}

func (oracleC08) Step(x *OCtx, t *Trans) []Violation {
	if t.Act.Kind != "respond" {
		return nil
	}
	var out []Violation
	a := t.Act
	e, known := t.PreMon.Req[a.Req]
	admit := known && hexs(a.Signer) == e.Prov && !e.Answered && t.Pre.H <= e.IssueH+e.Timeout
	why := "admissible"
	switch {
	case !known:
		why = "unknown-or-expired-request"
	case hexs(a.Signer) != e.Prov:
		why = "wrong-provider"
	case e.Answered:
		why = "second-response"
	case t.Pre.H > e.IssueH+e.Timeout:
		why = "after-expiry"
	}
	if known && admit {
		x.Wit(fmt.Sprintf("C08:response-at-offset-%d-of-%d", t.Pre.H-e.IssueH, e.Timeout))
	}
	x.Wit("C08:respond/" + why + "/" + t.Res.Outcome())
	if t.Res.Stateless != nil {
		return nil
	}
	if t.Res.Panic != "" && !admit {
		return nil // C20
	}
	if admit && !t.Res.OK() { // (a panic refuses the response as well; C20 reports the panic itself)
		out = append(out, viol("C08", "admissible-response-accepted", "respond", why, fmt.Sprintf("response by the designated provider at height %d (issued %d, timeout %d) was rejected: %s", t.Pre.H, e.IssueH, e.Timeout, t.Res.ErrString())))
	}
	if !admit && t.Res.OK() {
		out = append(out, viol("C08", "inadmissible-response-rejected", "respond", why, fmt.Sprintf("response to %s accepted although %s", shortReq(a.Req), why)))
	}
	if !t.Res.OK() && t.Pre.S.StoreHash() != (&State{Height: t.Pre.S.Height, Time: t.Pre.S.Time, Stores: t.Post.S.Stores}).StoreHash() {
		out = append(out, viol("C08", "rejected-response-changes-nothing", "respond", why, "a rejected response changed the state"))
	}
	return out
}

func sortedJoin(xs []string) string {
	c := append([]string{}, xs...)
	sort.Strings(c)
	return fmt.Sprint(len(c), c)
}
