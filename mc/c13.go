package main

import (
	"bytes"
	"fmt"
	"math/big"

	st "github.com/irismod/service/types"
)

// C13 — earnings are accounted per provider and per owner and paid out exactly.
type oracleC13 struct{ baseOracle }

func (oracleC13) Prop() string { return "C13" }

func (oracleC13) Invariant(x *OCtx, v *View, m *Mon) []Violation {
	var out []Violation
	for _, o := range universe() {
		sum := new(big.Int)
		n := 0
		for _, p := range universe() {
			if ow := v.OwnerOf(p); ow != nil && bytes.Equal(ow, o) {
				e := v.EarnedOf(p)
				sum.Add(sum, e)
				if e.Sign() > 0 {
					n++
				}
			}
		}
		got := v.OwnerEarnedOf(o)
		if n >= 2 {
			x.Wit("C13:owner-with-two-earning-providers")
		}
		if got.Cmp(sum) != 0 {
			out = append(out, viol("C13", "owner-earnings-equal-sum-of-its-providers", "state", nameOf(o)+"/"+cmpWord(got, sum),
				fmt.Sprintf("owner %s records %s, its providers record %s in total", nameOf(o), got, sum)))
		}
	}
	// "the providers it owns" is only defined if every provider has one owner: all of its bindings and the ownership
	// record name the same one
	for _, p := range universe() {
		var first []byte
		if raw, ok := rawLookup(v.Owner, st.GetOwnerKey(p)); ok {
			first = bytesVal(raw)
		}
		for _, br := range v.Bindings {
			if !bytes.Equal(br.B.Provider, p) || len(br.B.Owner) == 0 {
				continue
			}
			if first == nil {
				first = br.B.Owner
			} else if !bytes.Equal(first, br.B.Owner) {
				out = append(out, viol("C13", "every-provider-has-one-owner", "state", nameOf(p),
					fmt.Sprintf("provider %s is owned by %s and, by its binding to %s, by %s", nameOf(p), nameOf(first), br.B.ServiceName, nameOf(br.B.Owner))))
			}
		}
	}
	for _, k := range EarningsOrphans(v) {
		out = append(out, viol("C13", "no-earnings-record-without-subject", "state", "orphan", "earnings record under key "+k+" belongs to no provider/owner of the scenario"))
	}
	return out
}

func (oracleC13) Step(x *OCtx, t *Trans) []Violation {
	var out []Violation
	a := t.Act
	kind := a.Kind
	L := BuildLedger(t)
	if kind == "withdraw" && t.Res.OK() {
		if len(a.Prov) > 0 {
			x.Wit("C13:withdraw-one-provider")
			if t.Pre.EarnedOf(a.Prov).Sign() > 0 {
				x.Wit("C13:withdraw-one-provider-nonzero")
			}
		} else {
			x.Wit("C13:withdraw-whole-owner")
			if t.Pre.OwnerEarnedOf(a.Signer).Sign() > 0 {
				x.Wit("C13:withdraw-whole-owner-nonzero")
			}
		}
		if !bytes.Equal(t.Pre.WithdrawOf(a.Signer), a.Signer) {
			x.Wit("C13:withdraw-to-separate-address")
		}
		for _, p := range L.CompareBalances(t.Pre, t.Post) {
			out = append(out, viol("C13", "withdraw-pays-exactly-the-recorded-earnings", withdrawKind(a), p.Disc, p.Detail))
		}
	}
	for _, p := range L.CompareEarnings(t.Pre, t.Post) {
		k := kind
		if kind == "withdraw" {
			k = withdrawKind(a)
		}
		out = append(out, viol("C13", p.Clause, k, p.Disc, p.Detail))
	}
	// withdrawal addresses: only the owner's own successful message changes its entry
	for _, o := range universe() {
		pw, qw := t.Pre.WithdrawOf(o), t.Post.WithdrawOf(o)
		if bytes.Equal(pw, qw) {
			continue
		}
		if kind == "setw" && t.Res.OK() && bytes.Equal(a.Signer, o) && bytes.Equal(qw, a.To) {
			x.Wit("C13:withdraw-address-changed-by-owner")
			continue
		}
		out = append(out, viol("C13", "only-owner-changes-its-withdraw-address", kind, nameOf(o),
			fmt.Sprintf("withdrawal address of %s changed %s -> %s in a %s step signed by %s", nameOf(o), nameOf(pw), nameOf(qw), kind, nameOf(a.Signer))))
	}
	if kind == "setw" && t.Res.OK() && !bytes.Equal(t.Post.WithdrawOf(a.Signer), a.To) {
		out = append(out, viol("C13", "set-withdraw-address-takes-effect", kind, nameOf(a.Signer), "withdrawal address not stored"))
	}
	// raw 0x07 records must all be accounted for by constructed keys
	exp := map[string]bool{}
	for _, o := range universe() {
		exp[string(st.GetWithdrawAddrKey(o))] = true
	}
	for _, r := range t.Post.Withdraw {
		if !exp[string(r.K)] {
			out = append(out, viol("C13", "no-withdraw-address-without-owner", kind, "orphan", "withdraw-address record under unknown key "+hexs(r.K)))
		}
	}
	return out
}

func withdrawKind(a Action) string {
	if len(a.Prov) > 0 {
		return "withdraw(provider)"
	}
	return "withdraw(owner)"
}
