package main

import "fmt"

// C14 — an available binding always holds the minimum deposit for its price.
type oracleC14 struct{ baseOracle }

func (oracleC14) Prop() string { return "C14" }

func (oracleC14) Invariant(x *OCtx, v *View, m *Mon) []Violation {
	var out []Violation
	for _, br := range v.Bindings {
		b := br.B
		if x.Sc.isModuleService(b.ServiceName) {
			continue // installed by the host chain at genesis with no deposit, not created or changed by a message (messages for it are refused: C05)
		}
		min := minDepositOf(v, b.Pricing)
		dep := coinAmt(b.Deposit)
		if b.Available {
			x.Wit("C14:available-binding")
			if dep.Cmp(min) == 0 {
				x.Wit("C14:available-exactly-at-minimum")
			}
			if dep.Cmp(min) < 0 {
				disc := nameOf(b.Provider)
				if x.Sc.GovRaisesMinimum {
					// met the minimum of the parameters the run started with: put below it by the parameter change alone
					old := *v
					old.Params = x.Sc.Params.Params()
					if dep.Cmp(minDepositOf(&old, b.Pricing)) >= 0 {
						disc += "/below-a-minimum-raised-by-governance"
					}
				}
				out = append(out, viol("C14", "available-implies-minimum-deposit", "state", disc,
					fmt.Sprintf("(%s,%s) is available with deposit %s, minimum for pricing %s is %s", b.ServiceName, nameOf(b.Provider), dep, b.Pricing, min)))
			}
		} else if dep.Cmp(min) < 0 {
			x.Wit("C14:unavailable-below-minimum")
		}
	}
	return out
}

func (oracleC14) Step(x *OCtx, t *Trans) []Violation {
	a := t.Act
	if vs := c14Step(x, t); len(vs) > 0 {
		return vs
	}
	if !isBindOp(a.Kind) && a.Kind != "disable" {
		return nil
	}
	x.Wit("C14:" + a.Kind + "/" + t.Res.Outcome())
	return nil
}

// StepAll: clauses that hold under every parameter history.
//   - a successful bind / update / enable leaves its binding, if available, at or above the minimum in force;
//   - a binding whose deposit shrank in this step (a slash) and that is still available is at or above the minimum.
func c14Step(x *OCtx, t *Trans) []Violation {
	var out []Violation
	a := t.Act
	if (a.Kind == "bind" || a.Kind == "update" || a.Kind == "enable") && t.Res.OK() {
		if b := t.Post.Binding(a.Svc, a.Prov); b != nil && b.Available {
			min, dep := minDepositOf(t.Post, b.Pricing), coinAmt(b.Deposit)
			if dep.Cmp(min) < 0 {
				out = append(out, viol("C14", "operation-leaves-available-binding-at-minimum", a.Kind, nameOf(b.Provider),
					fmt.Sprintf("%s succeeded and leaves (%s,%s) available with deposit %s, minimum in force for pricing %s is %s", a.Name, b.ServiceName, nameOf(b.Provider), dep, b.Pricing, min)))
			}
		}
	}
	for _, br := range t.Post.Bindings {
		b := br.B
		pb := t.Pre.Binding(b.ServiceName, b.Provider)
		if pb == nil || coinAmt(b.Deposit).Cmp(coinAmt(pb.Deposit)) >= 0 {
			continue
		}
		x.Wit("C14:deposit-shrank")
		min, dep := minDepositOf(t.Post, b.Pricing), coinAmt(b.Deposit)
		if b.Available && dep.Cmp(min) < 0 {
			out = append(out, viol("C14", "slash-below-minimum-disables", a.Kind, nameOf(b.Provider),
				fmt.Sprintf("deposit of (%s,%s) shrank to %s, below the minimum %s in force, and the binding is still available", b.ServiceName, nameOf(b.Provider), dep, min)))
		}
	}
	return out
}
