package main

import "fmt"

// C14 — an available binding always holds the minimum deposit for its price.
type oracleC14 struct{ baseOracle }

func (oracleC14) Prop() string { return "C14" }

func (oracleC14) Invariant(x *OCtx, v *View, m *Mon) []Violation {
	var out []Violation
	for _, br := range v.Bindings {
		b := br.B
		min := minDepositOf(v, b.Pricing)
		dep := coinAmt(b.Deposit)
		if b.Available {
			x.Wit("C14:available-binding")
			if dep.Cmp(min) == 0 {
				x.Wit("C14:available-exactly-at-minimum")
			}
			if dep.Cmp(min) < 0 {
				out = append(out, viol("C14", "available-implies-minimum-deposit", "state", nameOf(b.Provider),
					fmt.Sprintf("(%s,%s) is available with deposit %s, minimum for pricing %s is %s", b.ServiceName, nameOf(b.Provider), dep, b.Pricing, min)))
			}
		} else if dep.Cmp(min) < 0 {
			x.Wit("C14:unavailable-below-minimum")
		}
	}
	return out
}

func (oracleC14) Step(x *OCtx, t *Trans) []Violation {
	a := t.Act
	if !isBindOp(a.Kind) && a.Kind != "disable" {
		return nil
	}
	x.Wit("C14:" + a.Kind + "/" + t.Res.Outcome())
	return nil
}
