package main

import (
	"bytes"
	"encoding/json"
	"fmt"
	"reflect"
	"runtime"
	"sort"
	"sync"

	abci "github.com/tendermint/tendermint/abci/types"

	"github.com/cosmos/cosmos-sdk/codec"
	sdk "github.com/cosmos/cosmos-sdk/types"

	st "github.com/irismod/service/types"
)

// C17 — queries return exactly the stored state. Every state of a bounded exploration x all 13 query kinds x
// arguments drawn from the state and from a fixed set of absent ones. Ground truth is decoded from the raw
// store scan (View); the gRPC server methods and the legacy querier must both return exactly it.

type qcase struct {
	kind  string
	arg   string
	truth interface{} // value the legacy querier would marshal; nil = an error is expected
	grpc  func(ctx sdk.Context) (string, error)
	path  string
	data  interface{}
	tstr  string // canonical string of the truth for the gRPC comparison
	errOK bool   // a malformed argument (identifier of the wrong length): an error is as good as the empty answer
}

func reconstruct(v *View, id string) st.Request {
	r := v.Reqs[id]
	if r == nil {
		return st.Request{}
	}
	c := v.Ctxs[hexs(r.RequestContextId)]
	if c == nil {
		return st.Request{}
	}
	return st.NewRequest(mustHex(id), c.ServiceName, r.Provider, c.Consumer, c.Input, r.ServiceFee, c.SuperMode, r.RequestHeight, r.ExpirationHeight, r.RequestContextId, r.RequestContextBatchCounter)
}

// list answers are compared as multisets: the property fixes the elements, not their order
func strList(items []string) string {
	c := append([]string{}, items...)
	sort.Strings(c)
	return fmt.Sprint(len(c), c)
}

// jsonMultiset renders a JSON array as the sorted list of its elements (anything else is returned unchanged).
func jsonMultiset(bz []byte) string {
	var arr []json.RawMessage
	if err := json.Unmarshal(bz, &arr); err != nil {
		return string(bz)
	}
	var els []string
	for _, e := range arr {
		var buf bytes.Buffer
		if json.Compact(&buf, e) == nil {
			els = append(els, buf.String())
		} else {
			els = append(els, string(e))
		}
	}
	sort.Strings(els)
	return fmt.Sprint(len(els), els)
}

func queryCases(rig *Rig, sc *Scenario, v *View) []qcase {
	var out []qcase
	k := rig.sk
	w := func(ctx sdk.Context) interface {
		Value(key interface{}) interface{}
	} {
		return nil
	}
	_ = w
	// 1 definition
	for _, n := range []string{"a", "ab", "zz"} {
		name := n
		c := qcase{kind: "definition", arg: name, path: st.QueryDefinition, data: st.QueryDefinitionParams{ServiceName: name}}
		if d, ok := v.Defs[name]; ok {
			c.truth, c.tstr = d, d.String()
		}
		c.grpc = func(ctx sdk.Context) (string, error) {
			r, err := k.Definition(sdk.WrapSDKContext(ctx), &st.QueryDefinitionRequest{ServiceName: name})
			if err != nil {
				return "", err
			}
			return r.ServiceDefinition.String(), nil
		}
		out = append(out, c)
	}
	provs := []sdk.AccAddress{P1, P2, P3, Pp, XX, nil} // nil: the empty provider argument
	// 2 binding, 8 pending requests of a binding
	for _, n := range []string{"a", "ab"} {
		for _, p := range provs {
			name, prov := n, p
			c := qcase{kind: "binding", arg: name + "/" + nameOf(prov), path: st.QueryBinding, data: st.QueryBindingParams{ServiceName: name, Provider: prov}}
			if b := v.Binding(name, prov); b != nil {
				c.truth, c.tstr = *b, b.String()
			}
			c.grpc = func(ctx sdk.Context) (string, error) {
				r, err := k.Binding(sdk.WrapSDKContext(ctx), &st.QueryBindingRequest{ServiceName: name, Provider: prov})
				if err != nil {
					return "", err
				}
				return r.ServiceBinding.String(), nil
			}
			out = append(out, c)

			// pending requests of (service, provider): markers under the key the module builds, in key order
			type kr struct {
				key []byte
				req string
			}
			var ms []kr
			for _, a := range v.Active {
				r := v.Reqs[a.Req]
				if r == nil {
					continue
				}
				cx := v.Ctxs[hexs(r.RequestContextId)]
				if cx != nil && cx.ServiceName == name && bytes.Equal(r.Provider, prov) {
					ms = append(ms, kr{a.Key, a.Req})
				}
			}
			sort.Slice(ms, func(i, j int) bool { return bytes.Compare(ms[i].key, ms[j].key) < 0 })
			reqs := make([]st.Request, 0)
			var strs []string
			for _, m := range ms {
				rq := reconstruct(v, m.req)
				reqs = append(reqs, rq)
				strs = append(strs, rq.String())
			}
			c2 := qcase{kind: "requests", arg: name + "/" + nameOf(prov), path: st.QueryRequests, data: st.QueryRequestsParams{ServiceName: name, Provider: prov}, truth: reqs, tstr: strList(strs)}
			c2.grpc = func(ctx sdk.Context) (string, error) {
				r, err := k.Requests(sdk.WrapSDKContext(ctx), &st.QueryRequestsRequest{ServiceName: name, Provider: prov})
				if err != nil {
					return "", err
				}
				var s []string
				for _, x := range r.Requests {
					s = append(s, x.String())
				}
				return strList(s), nil
			}
			out = append(out, c2)
		}
	}
	// 3 bindings of a service (optionally of one owner)
	for _, n := range []string{"a", "ab", "b"} {
		// (also owner arguments of the wrong length whose bytes, joined with the service name, spell another owner's key)
		for _, o := range []sdk.AccAddress{nil, O1, O2, XX, append(append(sdk.AccAddress{}, O1...), 'a'), O1[:19]} {
			name, owner := n, o
			bs := make([]*st.ServiceBinding, 0)
			var recs []BindingRec
			for _, br := range v.Bindings {
				if br.B.ServiceName == name && (owner == nil || bytes.Equal(br.B.Owner, owner)) {
					recs = append(recs, br)
				}
			}
			if owner != nil {
				// the owner index is ordered by provider bytes
				sort.Slice(recs, func(i, j int) bool { return bytes.Compare(recs[i].B.Provider, recs[j].B.Provider) < 0 })
			}
			var strs []string
			for i := range recs {
				b := recs[i].B
				bs = append(bs, &b)
				strs = append(strs, b.String())
			}
			c := qcase{kind: "bindings", arg: name + "/" + nameOf(owner), path: st.QueryBindings, data: st.QueryBindingsParams{ServiceName: name, Owner: owner}, truth: bs, tstr: strList(strs), errOK: owner != nil && len(owner) != 20}
			c.grpc = func(ctx sdk.Context) (string, error) {
				r, err := k.Bindings(sdk.WrapSDKContext(ctx), &st.QueryBindingsRequest{ServiceName: name, Owner: owner})
				if err != nil {
					return "", err
				}
				var s []string
				for _, x := range r.ServiceBindings {
					s = append(s, x.String())
				}
				return strList(s), nil
			}
			out = append(out, c)
		}
	}
	// 4 withdrawal address, 11 earned fees
	for _, o := range []sdk.AccAddress{O1, O2, XX} {
		owner := o
		wa := sdk.AccAddress(v.WithdrawOf(owner))
		c := qcase{kind: "withdraw-address", arg: nameOf(owner), path: st.QueryWithdrawAddress, data: st.QueryWithdrawAddressParams{Owner: owner}, truth: wa, tstr: wa.String()}
		c.grpc = func(ctx sdk.Context) (string, error) {
			r, err := k.WithdrawAddress(sdk.WrapSDKContext(ctx), &st.QueryWithdrawAddressRequest{Owner: owner})
			if err != nil {
				return "", err
			}
			return r.WithdrawAddress.String(), nil
		}
		out = append(out, c)
	}
	for _, p := range provs {
		prov := p
		fees := sdk.NewCoins()
		if e := v.EarnedOf(prov); e.Sign() > 0 {
			fees = sdk.NewCoins(sdk.NewCoin(denom, sdk.NewIntFromBigInt(e)))
		}
		c := qcase{kind: "fees", arg: nameOf(prov), path: st.QueryEarnedFees, data: st.QueryEarnedFeesParams{Provider: prov}, truth: fees, tstr: fees.String()}
		c.grpc = func(ctx sdk.Context) (string, error) {
			r, err := k.EarnedFees(sdk.WrapSDKContext(ctx), &st.QueryEarnedFeesRequest{Provider: prov})
			if err != nil {
				return "", err
			}
			return r.Fees.String(), nil
		}
		out = append(out, c)
	}
	// 5 contexts, 9 requests of a batch, 10 responses of a batch
	ctxIDs := append([]string{}, v.CtxIDs...)
	for ti := range sc.Templates {
		id := hexs(sc.CtxID(ti))
		if _, ok := v.Ctxs[id]; !ok {
			ctxIDs = append(ctxIDs, id) // a context that does not exist (yet / any more)
		}
	}
	// identifiers of the wrong length that are byte-prefixes / extensions of existing ones: no context, no records
	for _, id := range v.CtxIDs {
		ctxIDs = append(ctxIDs, id[:len(id)-2], id+"00")
	}
	for _, cid := range ctxIDs {
		id := cid
		var rc st.RequestContext
		if c := v.Ctxs[id]; c != nil {
			rc = *c
		}
		c := qcase{kind: "context", arg: sc.ctxName(id), path: st.QueryRequestContext, data: st.QueryRequestContextParams{RequestContextID: mustHex(id)}, truth: rc, tstr: rc.String()}
		c.grpc = func(ctx sdk.Context) (string, error) {
			r, err := k.RequestContext(sdk.WrapSDKContext(ctx), &st.QueryRequestContextRequest{RequestContextId: mustHex(id)})
			if err != nil {
				return "", err
			}
			return r.RequestContext.String(), nil
		}
		out = append(out, c)
		counters := []uint64{0, rc.BatchCounter, rc.BatchCounter + 1, 256, 512} // 256 x b: what an identifier extended by a zero byte would turn batch b into
		if rc.BatchCounter > 1 {
			counters = append(counters, rc.BatchCounter-1)
		}
		seen := map[uint64]bool{}
		for _, bc0 := range counters {
			bc := bc0
			if seen[bc] {
				continue
			}
			seen[bc] = true
			rids, pids := batchRecords(v, id, bc)
			reqs := make([]st.Request, 0)
			var rs []string
			for _, rid := range rids {
				rq := reconstruct(v, rid)
				reqs = append(reqs, rq)
				rs = append(rs, rq.String())
			}
			c1 := qcase{kind: "requests-of-batch", arg: fmt.Sprintf("%s/%d", sc.ctxName(id), bc), path: st.QueryRequestsByReqCtx,
				data: st.QueryRequestsByReqCtxParams{RequestContextID: mustHex(id), BatchCounter: bc}, truth: reqs, tstr: strList(rs), errOK: len(id) != 2*st.ContextIDLen}
			c1.grpc = func(ctx sdk.Context) (string, error) {
				r, err := k.RequestsByReqCtx(sdk.WrapSDKContext(ctx), &st.QueryRequestsByReqCtxRequest{RequestContextId: mustHex(id), BatchCounter: bc})
				if err != nil {
					return "", err
				}
				var s []string
				for _, x := range r.Requests {
					s = append(s, x.String())
				}
				return strList(s), nil
			}
			out = append(out, c1)
			resps := make([]st.Response, 0)
			var ps []string
			for _, pid := range pids {
				resps = append(resps, *v.Resps[pid])
				ps = append(ps, v.Resps[pid].String())
			}
			c2 := qcase{kind: "responses-of-batch", arg: fmt.Sprintf("%s/%d", sc.ctxName(id), bc), path: st.QueryResponses,
				data: st.QueryResponsesParams{RequestContextID: mustHex(id), BatchCounter: bc}, truth: resps, tstr: strList(ps), errOK: len(id) != 2*st.ContextIDLen}
			c2.grpc = func(ctx sdk.Context) (string, error) {
				r, err := k.Responses(sdk.WrapSDKContext(ctx), &st.QueryResponsesRequest{RequestContextId: mustHex(id), BatchCounter: bc})
				if err != nil {
					return "", err
				}
				var s []string
				for _, x := range r.Responses {
					s = append(s, x.String())
				}
				return strList(s), nil
			}
			out = append(out, c2)
		}
	}
	// 6 request, 7 response: every stored request, one unknown ID, one ID of the wrong length
	rids := append([]string{}, v.ReqIDs...)
	unk := make([]byte, st.RequestIDLen)
	for i := range unk {
		unk[i] = 0xEE
	}
	rids = append(rids, hexs(unk), hexs(unk[:57]))
	for _, rid0 := range rids {
		rid := rid0
		bad := len(mustHex(rid)) != st.RequestIDLen
		rq := reconstruct(v, rid)
		c := qcase{kind: "request", arg: shortReq(rid), path: st.QueryRequest, data: st.QueryRequestParams{RequestID: mustHex(rid)}, truth: rq, tstr: rq.String()}
		if bad {
			c.truth = nil
		}
		c.grpc = func(ctx sdk.Context) (string, error) {
			r, err := k.Request(sdk.WrapSDKContext(ctx), &st.QueryRequestRequest{RequestId: mustHex(rid)})
			if err != nil {
				return "", err
			}
			return r.Request.String(), nil
		}
		out = append(out, c)
		var rp st.Response
		if p := v.Resps[rid]; p != nil {
			rp = *p
		}
		c2 := qcase{kind: "response", arg: shortReq(rid), path: st.QueryResponse, data: st.QueryResponseParams{RequestID: mustHex(rid)}, truth: rp, tstr: rp.String()}
		if bad {
			c2.truth = nil
		}
		c2.grpc = func(ctx sdk.Context) (string, error) {
			r, err := k.Response(sdk.WrapSDKContext(ctx), &st.QueryResponseRequest{RequestId: mustHex(rid)})
			if err != nil {
				return "", err
			}
			return r.Response.String(), nil
		}
		out = append(out, c2)
	}
	// 12 params
	cp := qcase{kind: "params", path: st.QueryParameters, truth: v.Params, tstr: v.Params.String()}
	cp.grpc = func(ctx sdk.Context) (string, error) {
		r, err := k.Params(sdk.WrapSDKContext(ctx), &st.QueryParamsRequest{})
		if err != nil {
			return "", err
		}
		return r.Params.String(), nil
	}
	out = append(out, cp)
	// 13 schema
	for _, n := range []string{"pricing", "result", "PRICING", "nosuch"} {
		name := n
		c := qcase{kind: "schema", arg: name, path: st.QuerySchema, data: st.QuerySchemaParams{SchemaName: name}}
		switch name {
		case "pricing", "PRICING":
			c.truth, c.tstr = st.PricingSchema, st.PricingSchema
		case "result":
			c.truth, c.tstr = st.ResultSchema, st.ResultSchema
		}
		c.grpc = func(ctx sdk.Context) (string, error) {
			r, err := k.Schema(sdk.WrapSDKContext(ctx), &st.QuerySchemaRequest{SchemaName: name})
			if err != nil {
				return "", err
			}
			return r.Schema, nil
		}
		out = append(out, c)
	}
	return out
}

func queryState(rig *Rig, sc *Scenario, s *State) ([]Violation, map[string]int64) {
	v := rig.Decode(s)
	wit := map[string]int64{}
	var out []Violation
	add := func(clause, kind, disc, detail string) { out = append(out, viol("C17", clause, kind, disc, detail)) }
	amino := encCfg.Amino
	for _, c := range queryCases(rig, sc, v) {
		ctx := rig.ReadCtx(s)
		wit["C17:queries"]++
		// gRPC
		var g string
		var gerr error
		if p, trc := tryPanic(func() { g, gerr = c.grpc(ctx) }); p != "" {
			add("query-does-not-panic", c.kind, "grpc/"+panicClass(p, trc), fmt.Sprintf("gRPC %s(%s) panics: %s", c.kind, c.arg, p))
			continue
		}
		if c.truth == nil {
			wit["C17:absent/"+c.kind]++
			if gerr == nil {
				add("absent-record-is-reported-absent", c.kind, "grpc", fmt.Sprintf("gRPC %s(%s) succeeded for an absent record: %s", c.kind, c.arg, g))
			}
		} else {
			wit["C17:present/"+c.kind]++
			if gerr != nil && c.errOK {
				wit["C17:malformed-argument-refused/"+c.kind]++
			} else if gerr != nil {
				add("query-returns-the-stored-record", c.kind, "grpc-error:"+errClass(gerr), fmt.Sprintf("gRPC %s(%s) failed: %v", c.kind, c.arg, gerr))
			} else if g != c.tstr {
				add("query-returns-the-stored-record", c.kind, "grpc-differs", fmt.Sprintf("gRPC %s(%s) returned %s, stored %s", c.kind, c.arg, clip(g), clip(c.tstr)))
			}
		}
		// legacy
		var data []byte
		if c.data != nil {
			data = amino.MustMarshalJSON(c.data)
		}
		var lbz []byte
		var lerr error
		ctx2 := rig.ReadCtx(s)
		if p, trc := tryPanic(func() { lbz, lerr = rig.querier(ctx2, []string{c.path}, abci.RequestQuery{Data: data}) }); p != "" {
			add("query-does-not-panic", c.kind, "legacy/"+panicClass(p, trc), fmt.Sprintf("legacy %s(%s) panics: %s", c.kind, c.arg, p))
			continue
		}
		if c.truth == nil {
			if lerr == nil {
				add("absent-record-is-reported-absent", c.kind, "legacy", fmt.Sprintf("legacy %s(%s) succeeded for an absent record", c.kind, c.arg))
			}
		} else {
			want, err := codec.MarshalJSONIndent(amino, c.truth)
			if err != nil {
				continue
			}
			if lerr != nil && c.errOK {
				wit["C17:malformed-argument-refused/"+c.kind]++
			} else if lerr != nil {
				add("query-returns-the-stored-record", c.kind, "legacy-error:"+errClass(lerr), fmt.Sprintf("legacy %s(%s) failed: %v", c.kind, c.arg, lerr))
			} else if !bytes.Equal(want, lbz) && jsonMultiset(want) != jsonMultiset(lbz) {
				add("query-returns-the-stored-record", c.kind, "legacy-differs", fmt.Sprintf("legacy %s(%s) returned %s, stored %s", c.kind, c.arg, clip(string(lbz)), clip(string(want))))
			} else if c.kind == "response" || c.kind == "responses-of-batch" || c.kind == "request" || c.kind == "context" {
				// the JSON answer, read back, must be the stored record itself (text that JSON cannot carry comes back altered)
				if back := reflect.New(reflect.TypeOf(c.truth)); amino.UnmarshalJSON(lbz, back.Interface()) == nil {
					if fmt.Sprintf("%q", fmt.Sprint(back.Elem().Interface())) != fmt.Sprintf("%q", fmt.Sprint(c.truth)) {
						add("query-returns-the-stored-record", c.kind, "legacy-answer-reads-back-differently", fmt.Sprintf("legacy %s(%s): the answer read back is %s, stored %s", c.kind, c.arg,
							clip(fmt.Sprintf("%q", fmt.Sprint(back.Elem().Interface()))), clip(fmt.Sprintf("%q", fmt.Sprint(c.truth)))))
					}
				}
			}
		}
		if (gerr == nil) != (lerr == nil) {
			add("grpc-and-legacy-agree", c.kind, fmt.Sprintf("grpc:%s/legacy:%s", errClass(gerr), errClass(lerr)), fmt.Sprintf("%s(%s): gRPC error %v, legacy error %v", c.kind, c.arg, gerr, lerr))
		}
	}
	return out, wit
}

func errClass(err error) string {
	if err == nil {
		return "ok"
	}
	return firstWords(reNums.ReplaceAllString(err.Error(), "N"), 4)
}

func clip(s string) string {
	if len(s) > 300 {
		return s[:300] + "..."
	}
	return s
}

// queryPost is the post-pass of a C17 run: every explored state is queried.
func queryPost(e *Engine, ev *RunEvidence) []Found {
	found := map[string]*Found{}
	wit := map[string]int64{}
	var mu sync.Mutex
	var wg sync.WaitGroup
	ch := make(chan int32, 1024)
	for w := 0; w < runtime.NumCPU(); w++ {
		wg.Add(1)
		go func() {
			defer wg.Done()
			rig := NewRig(e.Sc.Rig) // a keeper of its own per worker
			for id := range ch {
				n := e.nodes[id]
				if n.st == nil {
					continue
				}
				if rig.Dirty() {
					rig = NewRig(e.Sc.Rig)
				}
				vs, wt := queryState(rig, e.Sc, n.st)
				mu.Lock()
				wit["C17:states-queried"]++
				for k, v := range wt {
					wit[k] += v
				}
				for _, v := range vs {
					if f, ok := found[v.Sig]; ok {
						f.Count++
					} else {
						found[v.Sig] = &Found{Violation: v, Trace: append(e.trace(id), "<query>"), Count: 1}
					}
				}
				mu.Unlock()
			}
		}()
	}
	for i := range e.nodes {
		ch <- int32(i)
	}
	close(ch)
	wg.Wait()
	for k, v := range wit {
		ev.Witnesses[k] += v
	}
	if ev.Extra == nil {
		ev.Extra = map[string]int64{}
	}
	ev.Extra["states_queried"] = wit["C17:states-queried"]
	ev.Extra["queries"] = wit["C17:queries"]
	var out []Found
	for _, f := range found {
		out = append(out, *f)
	}
	return out
}

type oracleC17 struct{ baseOracle }

func (oracleC17) Prop() string { return "C17" }

// Invariant: in the ordinary exploration every state is queried by the post pass (queryPost). Inside the continuation of
// a process that carries keeper memory (keepermem.go) there is no post pass, so the state is queried here, on the
// keeper of that very process.
func (oracleC17) Invariant(x *OCtx, v *View, m *Mon) []Violation {
	if !x.InCont {
		return nil
	}
	vs, _ := queryState(x.Rig, x.Sc, v.S)
	x.Wit("C17:states-queried-in-a-memory-carrying-process")
	return vs
}
