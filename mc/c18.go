package main

import (
	"bytes"
	"crypto/sha256"
	"encoding/json"
	"fmt"
	"sort"
	"strings"

	gogotypes "github.com/gogo/protobuf/types"
	tmbytes "github.com/tendermint/tendermint/libs/bytes"

	sdk "github.com/cosmos/cosmos-sdk/types"

	st "github.com/irismod/service/types"
)

// C18 — identifiers and store keys are unambiguous.
// (a) ID construction / splitting over boundary values; (b) key builders: distinct records => distinct keys,
//     and every scan the module performs returns exactly the records of its subject (run on the real keeper
//     over a store populated with the whole universe); (c) step oracle: a request's ID records its context,
//     batch, issue height and its position in that batch's issue event.

type pureAcc struct {
	ev    *PureEvidence
	found map[string]*Found
}

func (p *pureAcc) fail(clause, disc, detail string, trace ...string) {
	sig := "C18|" + clause + "|pure|" + disc
	if f, ok := p.found[sig]; ok {
		f.Count++
		return
	}
	p.found[sig] = &Found{Violation: Violation{Prop: "C18", Clause: clause, Sig: sig, Detail: detail}, Trace: trace, Count: 1}
}

func idGrid(p *pureAcc) {
	h := func(s string) []byte { x := sha256.Sum256([]byte(s)); return x[:] }
	ff := bytes.Repeat([]byte{0xff}, 32)
	one := append(make([]byte, 31), 1)
	txs := [][]byte{make([]byte, 32), one, ff, h("tx-a"), h("tx-b")}
	msgIdx := []int64{0, 1, 255, 256, 1<<63 - 1}
	batches := []uint64{0, 1, 255, 256, 1 << 32, 1<<64 - 1}
	heights := []int64{0, 1, 255, 256, 1 << 31, 1<<63 - 1}
	idxs := []int16{0, 1, 9, 255, 256, 32767}

	ctxSeen := map[string]string{}
	var ctxIDs [][]byte
	for _, tx := range txs {
		for _, mi := range msgIdx {
			id := st.GenerateRequestContextID(append([]byte{}, tx...), mi)
			p.ev.Evaluations++
			in := fmt.Sprintf("tx=%X idx=%d", tx, mi)
			if len(id) != st.ContextIDLen {
				p.fail("context-id-has-fixed-length", fmt.Sprint(len(id)), "context ID of "+in+" has length "+fmt.Sprint(len(id)), in)
			}
			gtx, gmi, err := st.SplitRequestContextID(id)
			if err != nil || !bytes.Equal(gtx, tx) || gmi != mi {
				p.fail("context-id-round-trips", "split", fmt.Sprintf("context ID of %s splits to tx=%X idx=%d err=%v", in, gtx, gmi, err), in)
			}
			if prev, dup := ctxSeen[string(id)]; dup && prev != in {
				p.fail("distinct-inputs-give-distinct-context-ids", "collision", in+" and "+prev+" give the same context ID", in, prev)
			}
			ctxSeen[string(id)] = in
			ctxIDs = append(ctxIDs, id)
		}
	}
	// the same transaction hash used for several messages, held in a buffer with spare capacity (as a host chain that
	// slices the hash out of a larger buffer, or out of an earlier ID, would pass it): an ID already handed out must
	// keep decoding to what it was built from
	for _, tx := range txs {
		buf := make([]byte, 32, 64)
		copy(buf, tx)
		first := st.GenerateRequestContextID(buf, 0)
		snap := append([]byte{}, first...)
		second := st.GenerateRequestContextID(buf, 1)
		p.ev.Evaluations++
		in := fmt.Sprintf("tx=%X idx=0 then idx=1 from one buffer", tx)
		if !bytes.Equal(first, snap) {
			p.fail("context-id-round-trips", "overwritten-by-a-later-id", "the context ID of message 0 changed when the ID of message 1 was generated from the same hash buffer: "+in, in)
		} else if gtx, gmi, err := st.SplitRequestContextID(first); err != nil || !bytes.Equal(gtx, tx) || gmi != 0 {
			p.fail("context-id-round-trips", "overwritten-by-a-later-id", in, in)
		}
		if bytes.Equal(first, second) {
			p.fail("distinct-inputs-give-distinct-context-ids", "same-buffer", in+": both IDs are equal", in)
		}
		// a hash taken from an existing ID by the module's own splitter
		htx, _, _ := st.SplitRequestContextID(append([]byte{}, snap...))
		idA := append([]byte{}, snap...)
		h2, _, _ := st.SplitRequestContextID(idA)
		_ = htx
		_ = st.GenerateRequestContextID(h2, 5)
		if !bytes.Equal(idA, snap) {
			p.fail("context-id-round-trips", "overwritten-through-its-split-hash", "generating an ID from the hash returned by SplitRequestContextID rewrote the ID that was split: "+in, in)
		}
	}
	p.ev.Counters["context-ids"] = int64(len(ctxSeen))
	reqSeen := map[string]string{}
	for _, cid := range ctxIDs[:8] {
		for _, b := range batches {
			for _, ht := range heights {
				for _, ix := range idxs {
					id := st.GenerateRequestID(cid, b, ht, ix)
					p.ev.Evaluations++
					in := fmt.Sprintf("ctx=%X batch=%d height=%d index=%d", cid[:4], b, ht, ix)
					if len(id) != st.RequestIDLen {
						p.fail("request-id-has-fixed-length", fmt.Sprint(len(id)), "request ID of "+in+" has length "+fmt.Sprint(len(id)), in)
					}
					gc, gb, gh, gi, err := st.SplitRequestID(id)
					if err != nil || !bytes.Equal(gc, cid) || gb != b || gh != ht || gi != ix {
						p.fail("request-id-round-trips", "split", fmt.Sprintf("request ID of %s splits to batch=%d height=%d index=%d err=%v", in, gb, gh, gi, err), in)
					}
					full := fmt.Sprintf("ctx=%X batch=%d height=%d index=%d", cid, b, ht, ix)
					if prev, dup := reqSeen[string(id)]; dup && prev != full {
						p.fail("distinct-inputs-give-distinct-request-ids", "collision", full+" and "+prev+" give the same request ID", full, prev)
					}
					reqSeen[string(id)] = full
					if st.ValidateRequestID(id) != nil {
						p.fail("generated-request-id-is-valid", "validate", "generated request ID fails ValidateRequestID", in)
					}
				}
			}
		}
	}
	p.ev.Counters["request-ids"] = int64(len(reqSeen))
	if len(p.ev.Samples) < 2 {
		p.ev.Samples = append(p.ev.Samples, map[string]interface{}{"request_id_of": "ctx=ff..ff/2^63-1, batch=2^64-1, height=2^63-1, index=32767",
			"id": hexs(st.GenerateRequestID(st.GenerateRequestContextID(ff, 1<<63-1), 1<<64-1, 1<<63-1, 32767))})
	}
}

// address universe closed under prefix: lengths 1, 2, 20, 21
func keyAddrs() [][]byte {
	base := []byte("provider1___________")
	other := []byte("prowider2___________")
	out := [][]byte{base[:1], base[:2], base, append(append([]byte{}, base...), 'x'), other[:3], other, append(append([]byte{}, other...), 0x00),
		[]byte("prov-stake-holder-01"), []byte("stake")} // addresses that contain / are the text of the fee denomination
	return out
}

type keyRec struct {
	fam  string
	desc string
	key  []byte
}

func keyGrid(p *pureAcc) {
	names := []string{"a", "ab", "a-b", "b", "a_"}
	addrs := keyAddrs()
	heights := []int64{0, 1, 255, 256, 1<<63 - 1}
	h := func(s string) []byte { x := sha256.Sum256([]byte(s)); return x[:] }
	ctxs := [][]byte{st.GenerateRequestContextID(h("c1"), 0), st.GenerateRequestContextID(h("c1"), 1), st.GenerateRequestContextID(h("c2"), 0)}
	var rids [][]byte
	for _, c := range ctxs {
		for _, b := range []uint64{1, 2, 256} {
			for _, ix := range []int16{0, 1} {
				rids = append(rids, st.GenerateRequestID(c, b, 5, ix))
			}
		}
	}
	denoms := []string{"stake", "sta", "stakex"}
	var recs []keyRec
	add := func(fam, desc string, k []byte) { recs = append(recs, keyRec{fam, desc, k}) }
	for _, n := range names {
		add("definition", n, st.GetServiceDefinitionKey(n))
		for _, a := range addrs {
			add("binding", n+"/"+hexs(a), st.GetServiceBindingKey(n, a))
			add("pricing", n+"/"+hexs(a), st.GetPricingKey(n, a))
			for _, o := range addrs {
				add("owner-binding", hexs(o)+"/"+n+"/"+hexs(a), st.GetOwnerServiceBindingKey(o, n, a))
				add("volume", hexs(o)+"/"+n+"/"+hexs(a), st.GetRequestVolumeKey(o, n, a))
			}
			for _, ht := range heights[:3] {
				for _, r := range rids[:4] {
					add("active", fmt.Sprintf("%s/%s/%d/%X", n, hexs(a), ht, r[40:]), st.GetActiveRequestKey(n, a, ht, r))
				}
			}
		}
	}
	for _, a := range addrs {
		add("owner-of-provider", hexs(a), st.GetOwnerKey(a))
		add("withdraw", hexs(a), st.GetWithdrawAddrKey(a))
		for _, o := range addrs {
			add("owner-provider", hexs(o)+"/"+hexs(a), st.GetOwnerProviderKey(o, a))
		}
		for _, d := range denoms {
			add("earned", hexs(a)+"/"+d, st.GetEarnedFeesKey(a, d))
		}
		add("owner-earned", hexs(a), st.GetOwnerEarnedFeesKey(a, "stake"))
	}
	for _, c := range ctxs {
		add("context", hexs(c), st.GetRequestContextKey(c))
		add("expiry-pointer", hexs(c), st.GetExpiredRequestBatchHeightKey(c))
		add("new-batch-pointer", hexs(c), st.GetNewRequestBatchHeightKey(c))
		for _, ht := range heights {
			add("expiry-queue", fmt.Sprintf("%d/%X", ht, c[:4]), st.GetExpiredRequestBatchKey(c, ht))
			add("new-batch-queue", fmt.Sprintf("%d/%X", ht, c[:4]), st.GetNewRequestBatchKey(c, ht))
		}
	}
	for _, r := range rids {
		add("request", hexs(r), st.GetRequestKey(r))
		add("active-by-id", hexs(r), st.GetActiveRequestKeyByID(r))
		add("response", hexs(r), st.GetResponseKey(r))
	}
	// distinct records => distinct keys (all pairs, via a map)
	seen := map[string]keyRec{}
	for _, r := range recs {
		p.ev.Evaluations++
		if prev, dup := seen[string(r.key)]; dup && (prev.fam != r.fam || prev.desc != r.desc) {
			signerOnly := ""
			p.fail("distinct-records-have-distinct-keys", r.fam+"~"+prev.fam+signerOnly, fmt.Sprintf("%s(%s) and %s(%s) share the key %X", r.fam, r.desc, prev.fam, prev.desc, r.key), r.fam+"("+r.desc+")", prev.fam+"("+prev.desc+")")
		}
		seen[string(r.key)] = r
	}
	p.ev.Counters["keys-built"] = int64(len(recs))
	p.ev.Counters["distinct-keys"] = int64(len(seen))
}

// scanGrid populates a real store with records for the whole universe through the keeper's own setters and
// checks that every scan the module performs returns exactly the records of its subject.
func scanGrid(p *pureAcc) {
	rig := NewRig(RigConfig{})
	s := rig.Genesis(defaultParams(), []Funding{{C1, 100000}}, nil)
	w := rig.Restore(s)
	ctx := w.ctx
	k := rig.sk
	names := []string{"a", "ab", "a-b", "b"}
	provs := keyAddrs()
	owners := [][]byte{[]byte("owner1______________"), []byte("owner1_____________x"), []byte("owner2______________")} // owners sign messages: 20 bytes
	h := func(s string) []byte { x := sha256.Sum256([]byte(s)); return x[:] }
	ctxs := [][]byte{st.GenerateRequestContextID(h("c1"), 0), st.GenerateRequestContextID(h("c1"), 1), st.GenerateRequestContextID(h("c2"), 0)}

	// bindings: every (name, provider); owner chosen by provider index
	ownerOf := func(i int) []byte { return owners[i%len(owners)] }
	for _, n := range names {
		for i, pr := range provs {
			b := st.NewServiceBinding(n, pr, coins(10), `{"price":"1stake"}`, 1, "{}", true, T0, ownerOf(i))
			k.SetServiceBinding(ctx, b)
			k.SetOwnerServiceBinding(ctx, b)
			k.SetOwner(ctx, pr, ownerOf(i))
			k.SetOwnerProvider(ctx, ownerOf(i), pr)
		}
	}
	for i, pr := range provs {
		k.SetEarnedFees(ctx, pr, coins(int64(100+i)))
	}
	for i, o := range owners {
		k.SetOwnerEarnedFees(ctx, o, coins(int64(1000+i)))
	}
	heights := []int64{1, 256, 257, 1 << 40}
	for i, c := range ctxs {
		k.AddRequestBatchExpiration(ctx, c, heights[i%len(heights)])
	}
	k.AddNewRequestBatch(ctx, ctxs[0], 256)
	k.AddNewRequestBatch(ctx, ctxs[1], 257)
	type rq struct {
		id   []byte
		ctx  []byte
		bc   uint64
		n    string
		prov []byte
		exp  int64
	}
	batchCounters := []uint64{1, 2, 255, 256, 257, 511, 65535, 65536, 1<<32 - 1, 1<<64 - 1}
	var reqs []rq
	for ci, c := range ctxs {
		for _, bc := range batchCounters {
			for ix := int16(0); ix < 2; ix++ {
				n := names[(ci+int(ix))%len(names)]
				pr := provs[(ci+int(bc%1000)+int(ix))%len(provs)]
				id := st.GenerateRequestID(c, bc, 5, ix)
				k.SetCompactRequest(ctx, id, st.NewCompactRequest(c, bc, pr, coins(1), 5, 9))
				k.AddActiveRequest(ctx, n, pr, 9+int64(ix), id)
				k.SetResponse(ctx, id, st.NewResponse(pr, owners[0], resultOK, outputOK, c, bc))
				reqs = append(reqs, rq{id, c, bc, n, pr, 9 + int64(ix)})
			}
		}
	}
	chk := func(scan, subject string, want, got []string) {
		p.ev.Evaluations++
		sort.Strings(want)
		sort.Strings(got)
		if len(want) > 0 {
			p.ev.Counters["scans-with-results"]++
		}
		if strings.Join(want, ",") != strings.Join(got, ",") {
			p.fail("scan-returns-exactly-its-subject", scan, fmt.Sprintf("scan %s of %s returned %v, records of that subject are %v", scan, subject, got, want), scan, subject)
		}
	}
	// earned fees
	for i, pr := range provs {
		fees, _ := k.GetEarnedFees(ctx, pr)
		chk("earned-fees-of-provider", hexs(pr), []string{coins(int64(100 + i)).String()}, []string{fees.String()})
	}
	for i, o := range owners {
		fees, _ := k.GetOwnerEarnedFees(ctx, o)
		chk("earned-fees-of-owner", hexs(o), []string{coins(int64(1000 + i)).String()}, []string{fees.String()})
	}
	// deleting one provider's earnings removes exactly its record
	for _, pr := range provs {
		cctx, _ := ctx.CacheContext()
		k.DeleteEarnedFees(cctx, pr)
		var want, got []string
		for _, q := range provs {
			if !bytes.Equal(q, pr) {
				want = append(want, hexs(q))
			}
			if f, _ := k.GetEarnedFees(cctx, q); !f.IsZero() {
				got = append(got, hexs(q))
			}
		}
		chk("delete-earned-fees-of-provider", hexs(pr), want, got)
	}
	// bindings of a service / of a service and owner / providers of an owner
	for _, n := range append(names, "a-", "zz") {
		var want, got []string
		for _, m := range names {
			if m == n {
				for _, pr := range provs {
					want = append(want, m+"/"+hexs(pr))
				}
			}
		}
		it := k.ServiceBindingsIterator(ctx, n)
		for ; it.Valid(); it.Next() {
			var b st.ServiceBinding
			mustUnmarshal(it.Value(), &b)
			got = append(got, b.ServiceName+"/"+hexs(b.Provider))
		}
		it.Close()
		chk("bindings-of-service", n, want, got)
		for _, o := range owners {
			var wo, gotO []string
			for _, m := range names {
				if m == n {
					for i, pr := range provs {
						if bytes.Equal(ownerOf(i), o) {
							wo = append(wo, m+"/"+hexs(pr))
						}
					}
				}
			}
			safely(p, "bindings-of-service-and-owner", func() {
				for _, b := range k.GetOwnerServiceBindings(ctx, o, n) {
					gotO = append(gotO, b.ServiceName+"/"+hexs(b.Provider))
				}
			})
			chk("bindings-of-service-and-owner", n+"/"+hexs(o), wo, gotO)
		}
	}
	for _, o := range owners {
		var want, got []string
		for i, pr := range provs {
			if bytes.Equal(ownerOf(i), o) {
				want = append(want, hexs(pr))
			}
		}
		it := k.OwnerProvidersIterator(ctx, o)
		for ; it.Valid(); it.Next() {
			got = append(got, hexs(it.Key()[sdk.AddrLen+1:]))
		}
		it.Close()
		chk("providers-of-owner", hexs(o), want, got)
	}
	// queues by height
	for _, ht := range []int64{1, 255, 256, 257, 1 << 40} {
		var want, got []string
		for i, c := range ctxs {
			if heights[i%len(heights)] == ht {
				want = append(want, hexs(c))
			}
		}
		k.IterateExpiredRequestBatch(ctx, ht, func(id tmbytes.HexBytes, _ st.RequestContext) { got = append(got, hexs(id)) })
		chk("expiry-queue-at-height", fmt.Sprint(ht), want, got)
		want, got = nil, nil
		if ht == 256 {
			want = []string{hexs(ctxs[0])}
		}
		if ht == 257 {
			want = []string{hexs(ctxs[1])}
		}
		k.IterateNewRequestBatch(ctx, ht, func(id tmbytes.HexBytes, _ st.RequestContext) { got = append(got, hexs(id)) })
		chk("new-batch-queue-at-height", fmt.Sprint(ht), want, got)
	}
	// records of (context, batch)
	for _, c := range ctxs {
		for _, bc := range append([]uint64{0, 258, 510, 512, 1 << 32}, batchCounters...) {
			var want []string
			for _, r := range reqs {
				if bytes.Equal(r.ctx, c) && r.bc == bc {
					want = append(want, hexs(r.id))
				}
			}
			var g1, g2, g3 []string
			it := k.RequestsIteratorByReqCtx(ctx, c, bc)
			for ; it.Valid(); it.Next() {
				g1 = append(g1, hexs(it.Key()[1:]))
			}
			it.Close()
			it = k.ActiveRequestsIteratorByReqCtx(ctx, c, bc)
			for ; it.Valid(); it.Next() {
				var b gogotypes.BytesValue
				mustUnmarshal(it.Value(), &b)
				g2 = append(g2, hexs(b.Value))
			}
			it.Close()
			it = k.ResponsesIteratorByReqCtx(ctx, c, bc)
			for ; it.Valid(); it.Next() {
				g3 = append(g3, hexs(it.Key()[1:]))
			}
			it.Close()
			sub := fmt.Sprintf("%X/%d", c[:4], bc)
			chk("requests-of-batch", sub, want, g1)
			chk("pending-requests-of-batch", sub, append([]string{}, want...), g2)
			chk("responses-of-batch", sub, append([]string{}, want...), g3)
		}
	}
	// cleaning one batch removes exactly its request and response records (batch counters around every byte boundary)
	for _, c := range ctxs {
		for _, bc := range batchCounters {
			cctx, _ := ctx.CacheContext()
			safely(p, "clean-batch", func() { k.CleanBatch(cctx, st.RequestContext{BatchCounter: bc}, c) })
			var want, got []string
			for _, r := range reqs {
				if bytes.Equal(r.ctx, c) && r.bc == bc {
					want = append(want, hexs(r.id))
				}
				_, hasReq := k.GetCompactRequest(cctx, r.id)
				_, hasResp := k.GetResponse(cctx, r.id)
				if !hasReq || !hasResp {
					got = append(got, hexs(r.id))
				}
			}
			chk("clean-batch-removes", fmt.Sprintf("%X/%d", c[:4], bc), want, got)
		}
	}
	// returning all earnings (zero-height export) pays every provider exactly its own record
	{
		cctx, _ := ctx.CacheContext()
		total := int64(0)
		for i := range provs {
			total += int64(100 + i)
		}
		if err := rig.bk.SendCoinsFromAccountToModule(cctx, C1, st.RequestAccName, coins(total)); err != nil {
			panic(err)
		}
		safely(p, "refund-earned-fees", func() { _ = k.RefundEarnedFees(cctx) })
		for i, pr := range provs {
			got := rig.bk.GetBalance(cctx, pr, denom).Amount.String()
			chk("refund-earned-fees-pays-the-provider", hexs(pr), []string{fmt.Sprint(100 + i)}, []string{got})
		}
	}
	// withdrawal addresses: the scan used by the genesis export returns every owner exactly (owners of every length)
	{
		cctx, _ := ctx.CacheContext()
		var want, got []string
		for i, o := range provs {
			k.SetWithdrawAddress(cctx, o, owners[i%len(owners)])
			want = append(want, hexs(o)+">"+hexs(owners[i%len(owners)]))
		}
		safely(p, "withdraw-addresses", func() {
			k.IterateWithdrawAddresses(cctx, func(o, w sdk.AccAddress) bool { got = append(got, hexs(o)+">"+hexs(w)); return false })
		})
		chk("withdraw-addresses", "all owners", want, got)
	}
	// pending requests of a binding
	for _, n := range names {
		for _, pr := range provs {
			var want, got []string
			for _, r := range reqs {
				if r.n == n && bytes.Equal(r.prov, pr) {
					want = append(want, hexs(r.id))
				}
			}
			it := k.ActiveRequestsIterator(ctx, n, pr)
			for ; it.Valid(); it.Next() {
				var b gogotypes.BytesValue
				mustUnmarshal(it.Value(), &b)
				got = append(got, hexs(b.Value))
			}
			it.Close()
			chk("pending-requests-of-binding", n+"/"+hexs(pr), want, got)
		}
	}
	if len(p.ev.Samples) < 4 {
		p.ev.Samples = append(p.ev.Samples, map[string]interface{}{"scan": "earned-fees-of-provider", "subject": hexs(provs[0]), "other_subjects_sharing_its_prefix": []string{hexs(provs[1]), hexs(provs[2]), hexs(provs[3])}})
	}
}

func safely(p *pureAcc, what string, f func()) {
	defer func() {
		if r := recover(); r != nil {
			p.fail("scan-does-not-panic", what, fmt.Sprintf("%s panics on the universe of prefix-related names and addresses of every length: %v", what, r), what)
		}
	}()
	f()
}

func keysAndIDs(tier string) (*PureEvidence, []Found) {
	p := &pureAcc{ev: &PureEvidence{Counters: map[string]int64{}, Rule: "F-PURE: (a) request-context and request ID construction/splitting over the cross product of boundary transaction hashes, message indexes, batch counters, heights and indexes; (b) every key builder over names {a,ab,a-b,b,a_} x addresses of length 1,2,20,21 closed under prefix x boundary heights/IDs, all pairs compared; (c) every scan function of the keeper on a real store populated with that universe; distinct = distinct IDs + distinct keys built"},
		found: map[string]*Found{}}
	safely(p, "id-grid", func() { idGrid(p) })
	safely(p, "key-grid", func() { keyGrid(p) })
	safely(p, "scan-grid", func() { scanGrid(p) })
	p.ev.Distinct = p.ev.Counters["context-ids"] + p.ev.Counters["request-ids"] + p.ev.Counters["distinct-keys"]
	var out []Found
	for _, f := range p.found {
		out = append(out, *f)
	}
	return p.ev, out
}

// ---------------------------------------------------------------------------------------------
type oracleC18 struct{ baseOracle }

func (oracleC18) Prop() string { return "C18" }

// Invariant: in every reachable state the scan "pending requests of a binding" returns exactly the requests that are
// pending (by the by-ID marker) for that service and provider.
func (oracleC18) Invariant(x *OCtx, v *View, m *Mon) []Violation {
	var out []Violation
	ctx := x.Rig.ReadCtx(v.S)
	// the scan "providers of an owner" (what a whole-owner withdrawal walks) returns exactly the providers whose bindings name that owner
	if len(v.Bindings) > 0 {
		owners := map[string]map[string]bool{}
		for _, br := range v.Bindings {
			if len(br.B.Owner) != 20 {
				continue
			}
			o := hexs(br.B.Owner)
			if owners[o] == nil {
				owners[o] = map[string]bool{}
			}
			owners[o][hexs(br.B.Provider)] = true
		}
		for _, o := range []sdk.AccAddress{O1, O2, P2, XX} {
			var got, want []string
			for p := range owners[hexs(o)] {
				want = append(want, p)
			}
			it := x.Rig.sk.OwnerProvidersIterator(ctx, o)
			for ; it.Valid(); it.Next() {
				if k := it.Key(); len(k) > 1+len(o) {
					got = append(got, hexs(k[1+len(o):]))
				}
			}
			it.Close()
			sort.Strings(want)
			sort.Strings(got)
			x.Wit("C18:providers-of-owner-scanned")
			if strings.Join(want, ",") != strings.Join(got, ",") {
				out = append(out, viol("C18", "scan-returns-exactly-its-subject", "state", "providers-of-owner/"+nameOf(o),
					fmt.Sprintf("providers of owner %s: scan returns %d, bindings name %d", nameOf(o), len(got), len(want))))
			}
		}
	}
	if len(v.ActiveByID) == 0 && len(v.Active) == 0 {
		return out
	}
	for _, br := range v.Bindings {
		b := br.B
		var want, got []string
		for id := range v.ActiveByID {
			r := v.Reqs[id]
			if r == nil || !bytes.Equal(r.Provider, b.Provider) {
				continue
			}
			if c := v.Ctxs[hexs(r.RequestContextId)]; c != nil && c.ServiceName == b.ServiceName {
				want = append(want, id)
			}
		}
		it := x.Rig.sk.ActiveRequestsIterator(ctx, b.ServiceName, b.Provider)
		for ; it.Valid(); it.Next() {
			var bv gogotypes.BytesValue
			mustUnmarshal(it.Value(), &bv)
			got = append(got, hexs(bv.Value))
		}
		it.Close()
		sort.Strings(want)
		sort.Strings(got)
		x.Wit("C18:pending-requests-of-binding-scanned")
		if strings.Join(want, ",") != strings.Join(got, ",") {
			out = append(out, viol("C18", "scan-returns-exactly-its-subject", "state", "pending-requests-of-binding",
				fmt.Sprintf("pending requests of (%s,%s): scan returns %d, pending by ID %d", b.ServiceName, nameOf(b.Provider), len(got), len(want))))
		}
		// the same scan as providers see it (the pending-requests query): each request comes back under its own ID, and
		// that ID says which context, batch and issue height the record belongs to
		if len(want) > 0 {
			if p, _ := tryPanic(func() {
				r, err := x.Rig.sk.Requests(sdk.WrapSDKContext(ctx), &st.QueryRequestsRequest{ServiceName: b.ServiceName, Provider: b.Provider})
				if err != nil {
					return
				}
				var ids []string
				for _, rq := range r.Requests {
					ids = append(ids, hexs(rq.Id))
					if cid, bc, h, _, err := st.SplitRequestID(rq.Id); err != nil || !bytes.Equal(cid, rq.RequestContextId) || bc != rq.RequestContextBatchCounter || h != rq.RequestHeight {
						out = append(out, viol("C18", "request-id-records-context-batch-height", "state", "pending-requests-query",
							fmt.Sprintf("pending-requests query of (%s,%s) returns a request of context %X batch %d height %d under the ID %X", b.ServiceName, nameOf(b.Provider), []byte(rq.RequestContextId), rq.RequestContextBatchCounter, rq.RequestHeight, []byte(rq.Id))))
					}
				}
				sort.Strings(ids)
				x.Wit("C18:pending-requests-query-compared")
				if strings.Join(want, ",") != strings.Join(ids, ",") {
					out = append(out, viol("C18", "distinct-requests-have-distinct-ids", "state", "pending-requests-query",
						fmt.Sprintf("pending-requests query of (%s,%s) returns the IDs %v, pending are %v", b.ServiceName, nameOf(b.Provider), shortAll(ids), shortAll(want))))
				}
			}); p != "" {
				out = append(out, viol("C18", "scan-does-not-panic", "state", "pending-requests-query", "pending-requests query panics: "+p))
			}
		}
	}
	return out
}

func (oracleC18) Step(x *OCtx, t *Trans) []Violation {
	var out []Violation
	kind := t.Act.Kind
	add := func(clause, disc, detail string) { out = append(out, viol("C18", clause, kind, disc, detail)) }
	// issue events of this step by context
	evByCtx := map[string][]map[string]interface{}{}
	provListed := map[string]bool{}
	for _, e := range t.Res.Events {
		switch e.Type {
		case st.EventTypeNewBatchRequest:
			var arr []map[string]interface{}
			if err := json.Unmarshal([]byte(e.Attrs[st.AttributeKeyRequests]), &arr); err == nil {
				evByCtx[strings.ToUpper(e.Attrs[st.AttributeKeyRequestContextID])] = arr
			}
		case st.EventTypeNewBatchRequestProvider:
			var ids []string
			if err := json.Unmarshal([]byte(e.Attrs[st.AttributeKeyRequests]), &ids); err == nil {
				for _, id := range ids {
					provListed[strings.ToUpper(id)+"|"+e.Attrs[st.AttributeKeyServiceName]+"|"+e.Attrs[st.AttributeKeyProvider]] = true
				}
			}
		}
	}
	if (kind == "call" || kind == "mcreate") && t.Res.OK() {
		// two contexts are two records: a creation that succeeds must not land on the key of a context that exists
		cid := hexs(x.Sc.CtxID(t.Act.Tmpl))
		if _, had := t.Pre.Ctxs[cid]; had {
			add("distinct-contexts-have-distinct-keys", x.Sc.Templates[t.Act.Tmpl].Name+"/replaces-"+x.Sc.ctxName(cid),
				fmt.Sprintf("%s succeeded although context %s already exists: the new record was written to the same key", t.Act.Name, x.Sc.ctxName(cid)))
		} else {
			x.Wit("C18:context-created-under-a-fresh-key")
		}
	}
	if kind == "E" {
		var newIDs []string
		for _, id := range t.Post.ReqIDs {
			if _, had := t.Pre.Reqs[id]; !had && len(id) == 2*st.RequestIDLen {
				newIDs = append(newIDs, id)
			}
		}
		if len(newIDs) > 0 && t.Res.Panic == "" {
			out = append(out, clientRecovery(x, t, newIDs)...)
		}
	}
	for _, id := range t.Post.ReqIDs {
		if _, had := t.Pre.Reqs[id]; had {
			continue
		}
		r := t.Post.Reqs[id]
		raw := mustHex(id)
		x.Wit("C18:request-id-checked")
		if len(raw) != st.RequestIDLen {
			add("request-id-has-fixed-length", fmt.Sprint(len(raw)), "request stored under an ID of length "+fmt.Sprint(len(raw)))
			continue
		}
		cid, bc, h, ix, err := st.SplitRequestID(raw)
		if err != nil {
			add("request-id-round-trips", "split", err.Error())
			continue
		}
		if !bytes.Equal(cid, r.RequestContextId) || bc != r.RequestContextBatchCounter || h != r.RequestHeight {
			add("request-id-records-context-batch-height", shortReq(id), fmt.Sprintf("ID says ctx %X batch %d height %d; record says ctx %X batch %d height %d", cid[:4], bc, h, r.RequestContextId[:4], r.RequestContextBatchCounter, r.RequestHeight))
		}
		if kind == "E" && h != t.Pre.H {
			add("request-id-records-context-batch-height", "height", fmt.Sprintf("request issued at height %d carries height %d in its ID", t.Pre.H, h))
		}
		if kind != "E" && kind != "call" {
			continue
		}
		// (a call of a module service issues its request inside the message: the issue event is part of the message's events)
		arr, ok := evByCtx[hexs(cid)]
		if !ok {
			add("request-found-at-its-position-in-the-issue-event", "no-event", "no issue event for context "+x.Sc.ctxName(hexs(cid))+" in the block that issued "+shortReq(id))
			continue
		}
		if int(ix) >= len(arr) || ix < 0 {
			add("request-found-at-its-position-in-the-issue-event", "index-out-of-range", fmt.Sprintf("request %s has index %d, the issue event lists %d requests", shortReq(id), ix, len(arr)))
			continue
		}
		el := arr[ix]
		prov, _ := el["provider"].(string)
		if prov != sdk.AccAddress(r.Provider).String() {
			add("request-found-at-its-position-in-the-issue-event", "other-provider", fmt.Sprintf("request %s is for %s, element %d of the issue event is for %s", shortReq(id), sdk.AccAddress(r.Provider).String(), ix, prov))
		}
		fee := "0"
		if fs, ok := el["service_fee"].([]interface{}); ok && len(fs) > 0 {
			if m, ok := fs[0].(map[string]interface{}); ok {
				fee, _ = m["amount"].(string)
			}
		}
		if fee != coinAmt(r.ServiceFee).String() {
			add("request-found-at-its-position-in-the-issue-event", "other-fee", fmt.Sprintf("request %s has fee %s, element %d of the issue event says %s", shortReq(id), coinAmt(r.ServiceFee), ix, fee))
		}
		if c := t.Post.Ctxs[hexs(cid)]; c != nil && kind == "E" {
			if !provListed[id+"|"+c.ServiceName+"|"+sdk.AccAddress(r.Provider).String()] {
				add("request-listed-in-its-provider-event", nameOf(r.Provider), "request "+shortReq(id)+" is not listed in the per-provider issue event of its provider")
			}
		}
	}
	return out
}

func shortAll(ids []string) []string {
	var out []string
	for _, id := range ids {
		out = append(out, shortReq(id))
	}
	return out
}
