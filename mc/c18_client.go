package main

import (
	"bytes"
	"fmt"
	"time"

	"github.com/gogo/protobuf/proto"
	abci "github.com/tendermint/tendermint/abci/types"
	tmbytes "github.com/tendermint/tendermint/libs/bytes"
	rpcclient "github.com/tendermint/tendermint/rpc/client"
	ctypes "github.com/tendermint/tendermint/rpc/core/types"
	tmtypes "github.com/tendermint/tendermint/types"

	"github.com/cosmos/cosmos-sdk/client"
	sdk "github.com/cosmos/cosmos-sdk/types"

	"github.com/irismod/service/client/utils"
	servicekeeper "github.com/irismod/service/keeper"
	st "github.com/irismod/service/types"
)

// "… its position in that batch's issue event, which off-chain clients rely on to find it again" (C18): the module's
// own client helper that recovers a request from nothing but its ID (client/utils.QueryRequestByTxQuery) is run against
// a node stub that answers with exactly what a node would have: the request-context query of the real keeper on the
// state after the block, and the end-of-block events the real EndBlocker emitted in the block the ID names.
type stubNode struct {
	rpcclient.Client
	ctx    sdk.Context
	k      servicekeeper.Keeper
	blocks map[int64][]abci.Event
	txs    map[string]*ctypes.ResultTx // transactions the node has indexed, by hash
}

func (n stubNode) Tx(hash []byte, _ bool) (*ctypes.ResultTx, error) {
	if tx, ok := n.txs[string(hash)]; ok {
		return tx, nil
	}
	return nil, fmt.Errorf("tx %X not found", hash)
}

func (n stubNode) Block(height *int64) (*ctypes.ResultBlock, error) {
	return &ctypes.ResultBlock{Block: &tmtypes.Block{Header: tmtypes.Header{Height: *height, Time: time.Unix(1600000000, 0)}}}, nil
}

func (n stubNode) ABCIQueryWithOptions(path string, data tmbytes.HexBytes, _ rpcclient.ABCIQueryOptions) (*ctypes.ResultABCIQuery, error) {
	if path != "/irismod.service.Query/RequestContext" {
		return nil, fmt.Errorf("unexpected query %s", path)
	}
	var req st.QueryRequestContextRequest
	if err := proto.Unmarshal(data, &req); err != nil {
		return nil, err
	}
	res, err := n.k.RequestContext(sdk.WrapSDKContext(n.ctx), &req)
	if err != nil {
		return nil, err
	}
	bz, err := proto.Marshal(res)
	if err != nil {
		return nil, err
	}
	return &ctypes.ResultABCIQuery{Response: abci.ResponseQuery{Value: bz, Height: n.ctx.BlockHeight()}}, nil
}

func (n stubNode) BlockResults(height *int64) (*ctypes.ResultBlockResults, error) {
	return &ctypes.ResultBlockResults{Height: *height, EndBlockEvents: n.blocks[*height]}, nil
}

func toABCI(evs []EventRec) []abci.Event {
	out := make([]abci.Event, 0, len(evs))
	for _, e := range evs {
		ae := abci.Event{Type: e.Type}
		for _, k := range e.Order {
			ae.Attributes = append(ae.Attributes, abci.EventAttribute{Key: []byte(k), Value: []byte(e.Attrs[k])})
		}
		out = append(out, ae)
	}
	return out
}

// clientRecovery: every request issued by this end of block must come back from the client helper exactly as the store
// has it.
func clientRecovery(x *OCtx, t *Trans, newIDs []string) []Violation {
	var out []Violation
	node := stubNode{ctx: x.Rig.ReadCtx(t.Post.S), k: x.Rig.sk, blocks: map[int64][]abci.Event{t.Pre.H: toABCI(t.Res.Events)}}
	cliCtx := client.Context{}.WithClient(node).WithInterfaceRegistry(encCfg.InterfaceRegistry).WithJSONMarshaler(encCfg.Marshaler)
	for _, id := range newIDs {
		want := reconstruct(t.Post, id)
		var got st.Request
		var err error
		if p, _ := tryPanic(func() { got, err = utils.QueryRequestByTxQuery(cliCtx, st.QuerierRoute, mustHex(id)) }); p != "" {
			out = append(out, viol("C18", "client-finds-the-request-again-from-its-id", "E", "panic", "client recovery of "+shortReq(id)+" panics: "+p))
			continue
		}
		x.Wit("C18:client-recovery-from-id-compared")
		switch {
		case err != nil:
			out = append(out, viol("C18", "client-finds-the-request-again-from-its-id", "E", "error", "client recovery of "+shortReq(id)+" fails: "+err.Error()))
		case got.String() != want.String():
			out = append(out, viol("C18", "client-finds-the-request-again-from-its-id", "E", "differs",
				fmt.Sprintf("client recovery of %s returns %s, the store has %s", shortReq(id), clip(got.String()), clip(want.String()))))
		}
	}
	out = append(out, clientRecoveryAfterCleaning(x, t, newIDs)...)
	return out
}

// clientRecoveryAfterCleaning: the same recovery as a client would run it later, when the batch has been cleaned and
// the (one-shot, user-created) context has left the state: the node's state no longer has the context record, the
// helper falls back to the transaction that created it (the ID's first 32 bytes are its hash), which the node stub
// serves as an indexed transaction holding the very message the scenario delivered.
func clientRecoveryAfterCleaning(x *OCtx, t *Trans, newIDs []string) []Violation {
	var out []Violation
	for _, id := range newIDs {
		r := t.Post.Reqs[id]
		cid := hexs(r.RequestContextId)
		c := t.Post.Ctxs[cid]
		ti := -1
		for i := range x.Sc.Templates {
			if bytes.Equal(x.Sc.CtxID(i), r.RequestContextId) && x.Sc.Templates[i].Module == "" && x.Sc.Templates[i].SameTxAs == "" {
				ti = i
			}
		}
		if c == nil || ti < 0 || c.ModuleName != "" {
			continue
		}
		msg := x.Sc.actCall(ti).Msg
		txb := encCfg.TxConfig.NewTxBuilder()
		if err := txb.SetMsgs(msg); err != nil {
			panic(err)
		}
		txBytes, err := encCfg.TxConfig.TxEncoder()(txb.GetTx())
		if err != nil {
			panic(err)
		}
		hash := x.Sc.TxHash(ti)
		// the state of the node later on: everything as after this block, minus the context record
		ctx, _ := x.Rig.ReadCtx(t.Post.S).CacheContext()
		ctx.KVStore(x.Rig.keyMap[st.StoreKey]).Delete(st.GetRequestContextKey(r.RequestContextId))
		node := stubNode{ctx: ctx, k: x.Rig.sk, blocks: map[int64][]abci.Event{t.Pre.H: toABCI(t.Res.Events)},
			txs: map[string]*ctypes.ResultTx{string(hash): {Hash: hash, Height: t.Pre.H, Tx: txBytes}}}
		cliCtx := client.Context{}.WithClient(node).WithTxConfig(encCfg.TxConfig).WithInterfaceRegistry(encCfg.InterfaceRegistry).
			WithJSONMarshaler(encCfg.Marshaler).WithLegacyAmino(encCfg.Amino)
		want := reconstruct(t.Post, id)
		var got st.Request
		if p, _ := tryPanic(func() { got, err = utils.QueryRequestByTxQuery(cliCtx, st.QuerierRoute, mustHex(id)) }); p != "" {
			out = append(out, viol("C18", "client-finds-the-request-again-from-its-id", "E", "after-cleaning/panic", "client recovery of "+shortReq(id)+" after its context left the state panics: "+p))
			continue
		}
		x.Wit("C18:client-recovery-after-cleaning-compared")
		switch {
		case err != nil:
			out = append(out, viol("C18", "client-finds-the-request-again-from-its-id", "E", "after-cleaning/error", "client recovery of "+shortReq(id)+" after its context left the state fails: "+err.Error()))
		case got.String() != want.String():
			out = append(out, viol("C18", "client-finds-the-request-again-from-its-id", "E", "after-cleaning/differs",
				fmt.Sprintf("client recovery of %s after its context left the state returns %s, the store had %s", shortReq(id), clip(got.String()), clip(want.String()))))
		}
	}
	return out
}
