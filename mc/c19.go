package main

import (
	"bytes"
	"fmt"
	"math/big"
	"runtime"
	"runtime/debug"
	"sort"
	"strings"
	"sync"
	"time"

	sdk "github.com/cosmos/cosmos-sdk/types"

	service "github.com/irismod/service"
	st "github.com/irismod/service/types"
)

// C19 — state survives export and re-import; zero-height export returns all escrow.
// Every state of a bounded exploration is taken as the export point (DESIGN 4/C19).

type c19Result struct {
	viols []Violation
	wit   map[string]int64
}

func tryPanic(f func()) (p string, trc string) {
	defer func() {
		if r := recover(); r != nil {
			p = fmt.Sprint(r)
			trc = trimTrace(string(debug.Stack()))
		}
	}()
	f()
	return
}

func exportPoint(rig *Rig, sc *Scenario, s *State, fresh *State) c19Result {
	res := c19Result{wit: map[string]int64{}}
	add := func(clause, disc, detail string) {
		res.viols = append(res.viols, viol("C19", clause, "export", disc, detail))
	}
	pre := rig.Decode(s)
	w := rig.Restore(s)
	if p, trc := tryPanic(func() { service.PrepForZeroHeightGenesis(w.ctx, rig.sk) }); p != "" {
		add("zero-height-preparation-does-not-panic", panicClass(p, trc), "PrepForZeroHeightGenesis panics: "+p+" at "+trc)
		return res
	}
	post := &State{Height: s.Height, Time: s.Time, Stores: w.Flush()}
	pv := rig.Decode(post)

	// expected refunds
	exp := map[string]*big.Int{}
	npend, nearn := 0, 0
	for _, id := range pre.PendingIDs() {
		fee, consumer, _, _, _, ok := reqInfo(pre, id)
		if !ok {
			continue
		}
		if fee.Sign() > 0 {
			npend++
		}
		addTo(exp, hexs(consumer), fee)
		addTo(exp, hexs(reqAcc), neg(fee))
	}
	for _, p := range universe() {
		e := pre.EarnedOf(p)
		if e.Sign() > 0 {
			nearn++
			addTo(exp, hexs(p), e)
			addTo(exp, hexs(reqAcc), neg(e))
		}
	}
	if npend > 0 {
		res.wit["C19:export-point-with-pending-fees"]++
	}
	if nearn > 0 {
		res.wit["C19:export-point-with-earnings"]++
	}
	if len(pre.Withdraw) > 0 {
		res.wit["C19:export-point-with-withdraw-address"]++
	}
	if len(pre.CtxIDs) > 0 {
		res.wit["C19:export-point-with-contexts"]++
	}
	for _, k := range allBalKeys(pre, pv) {
		got := balDelta(pre, pv, k)
		want := exp[k]
		if want == nil {
			want = new(big.Int)
		}
		if got.Cmp(want) != 0 {
			who := nameOf(mustHex(k))
			if k == hexs(reqAcc) {
				who = "escrow"
			}
			if len(mustHex(k)) != 20 && len(mustHex(k)) != 1 {
				who = "non-address"
			}
			add("zero-height-preparation-returns-fees-and-earnings-exactly", who, fmt.Sprintf("%s moved by %s, expected %s", who, got, want))
		}
	}
	if pv.BalOf(reqAcc).Sign() != 0 {
		add("escrow-empty-after-zero-height-preparation", "escrow", fmt.Sprintf("escrow still holds %s", pv.BalOf(reqAcc)))
	}
	for _, id := range pv.CtxIDs {
		c := pv.Ctxs[id]
		if stName(c.State) != "paused" || stName2(c.BatchState) != "completed" {
			add("contexts-paused-with-no-batch-in-flight", stName(c.State)+"/"+stName2(c.BatchState), fmt.Sprintf("context %s is %s / batch %s after preparation", sc.ctxName(id), stName(c.State), stName2(c.BatchState)))
		}
	}

	// export -> validate -> JSON round trip -> import into a fresh chain -> export again
	rctx := rig.ReadCtx(post)
	var gs *st.GenesisState
	if p, trc := tryPanic(func() { gs = service.ExportGenesis(rctx, rig.sk) }); p != "" {
		add("export-does-not-panic", panicClass(p, trc), "ExportGenesis panics: "+p)
		return res
	}
	// the exported genesis must be the stored state: definitions, bindings, withdrawal addresses, contexts
	if len(gs.Definitions) != len(pv.Defs) {
		add("exported-genesis-equals-stored-state", "definitions", fmt.Sprintf("%d definitions exported, %d stored", len(gs.Definitions), len(pv.Defs)))
	}
	for _, d := range gs.Definitions {
		if sd, ok := pv.Defs[d.Name]; !ok || sd.String() != d.String() {
			add("exported-genesis-equals-stored-state", "definitions", fmt.Sprintf("exported definition %s differs from the stored one: %s vs %s", d.Name, clip(d.String()), clip(sd.String())))
		}
	}
	if len(gs.Bindings) != len(pv.Bindings) {
		add("exported-genesis-equals-stored-state", "bindings", fmt.Sprintf("%d bindings exported, %d stored", len(gs.Bindings), len(pv.Bindings)))
	}
	for _, b := range gs.Bindings {
		if sb := pv.Binding(b.ServiceName, b.Provider); sb == nil || sb.String() != b.String() {
			add("exported-genesis-equals-stored-state", "bindings", fmt.Sprintf("exported binding (%s,%s) differs from the stored one", b.ServiceName, nameOf(b.Provider)))
		}
	}
	if len(gs.WithdrawAddresses) != len(pv.Withdraw) {
		add("exported-genesis-equals-stored-state", "withdraw-addresses", fmt.Sprintf("%d withdrawal addresses exported, %d stored", len(gs.WithdrawAddresses), len(pv.Withdraw)))
	}
	for _, o := range universe() {
		if raw, ok := rawLookup(pv.Withdraw, st.GetWithdrawAddrKey(o)); ok {
			if w, ok2 := gs.WithdrawAddresses[addrBech(o)]; !ok2 || !bytes.Equal(w, raw) {
				add("exported-genesis-equals-stored-state", "withdraw-addresses", "withdrawal address of "+nameOf(o)+" not exported as stored")
			}
		}
	}
	if len(gs.RequestContexts) != len(pv.Ctxs) {
		add("exported-genesis-equals-stored-state", "contexts", fmt.Sprintf("%d contexts exported, %d stored", len(gs.RequestContexts), len(pv.Ctxs)))
	}
	for id, c := range gs.RequestContexts {
		if sc2 := pv.Ctxs[id]; sc2 == nil || sc2.String() != c.String() {
			add("exported-genesis-equals-stored-state", "contexts", "exported context "+sc.ctxName(id)+" differs from the stored one")
		}
	}
	if err := st.ValidateGenesis(*gs); err != nil {
		add("exported-genesis-passes-validation", firstWords(reNums.ReplaceAllString(err.Error(), "N"), 4), "ValidateGenesis rejects the exported genesis: "+err.Error())
		return res
	}
	bz, err := encCfg.Marshaler.MarshalJSON(gs)
	if err != nil {
		add("exported-genesis-writes-as-json", "marshal", err.Error())
		return res
	}
	var gs2 st.GenesisState
	if err := encCfg.Marshaler.UnmarshalJSON(bz, &gs2); err != nil {
		add("exported-genesis-reads-back-from-json", firstWords(reNums.ReplaceAllString(err.Error(), "N"), 5), "reading the exported JSON back fails: "+err.Error())
		return res
	}
	bz2, _ := encCfg.Marshaler.MarshalJSON(&gs2)
	if !bytes.Equal(bz, bz2) {
		add("exported-genesis-reads-back-from-json", "differs", "JSON round trip changes the genesis")
	}
	// the new chain starts where the old one stopped: same height and block time (a genesis time before the export would
	// re-open windows and periods that had already ended)
	freshNow := *fresh
	freshNow.Height, freshNow.Time = s.Height, s.Time
	fresh = &freshNow
	fw := rig.Restore(fresh)
	if p, trc := tryPanic(func() { service.InitGenesis(fw.ctx, rig.sk, gs2) }); p != "" {
		add("exported-genesis-imports-into-a-fresh-chain", panicClass(p, trc), "InitGenesis panics: "+p)
		return res
	}
	imported := &State{Height: fresh.Height, Time: fresh.Time, Stores: fw.Flush()}
	gs3 := service.ExportGenesis(rig.ReadCtx(imported), rig.sk)
	bz3, _ := encCfg.Marshaler.MarshalJSON(gs3)
	if !bytes.Equal(bz, bz3) {
		add("import-then-export-yields-the-identical-genesis", genesisDiff(gs, gs3), "genesis exported after import differs from the imported one")
	}
	// price terms and ownership indexes rebuilt
	iv := rig.Decode(imported)
	// ... to the terms in force on the exporting chain
	if d := rawSetDiff(pv.Pricing, iv.Pricing); d != "" {
		add("imported-price-terms-equal-the-exported-chain's", "pricing", "price-term records after import differ from those in force at export: "+d)
	}
	if d := rawSetDiff(pv.Owner, iv.Owner); d != "" {
		add("imported-ownership-equals-the-exported-chain's", "owner", "provider->owner records after import differ: "+d)
	}
	if d := rawSetDiff(pv.OwnerProv, iv.OwnerProv); d != "" {
		add("imported-ownership-equals-the-exported-chain's", "owner-provider", "owner->provider records after import differ: "+d)
	}
	if d := rawSetDiff(pv.OwnerBind, iv.OwnerBind); d != "" {
		add("imported-ownership-equals-the-exported-chain's", "owner-binding", "owner->binding records after import differ: "+d)
	}
	x := &OCtx{Sc: sc, Rig: rig, wit: map[string]int64{}, outc: map[string]int64{}}
	for _, v := range (oracleC15{}).Invariant(x, iv, NewMon()) {
		add("imported-bindings-have-price-terms-and-indexes", v.Clause, v.Detail)
	}
	if len(gs.Bindings) > 0 {
		res.wit["C19:round-trip-with-bindings"]++
	}
	if len(gs.RequestContexts) > 0 {
		res.wit["C19:round-trip-with-contexts"]++
	}
	if len(gs.WithdrawAddresses) > 0 {
		res.wit["C19:round-trip-with-withdraw-addresses"]++
	}
	res.wit["C19:export-points"]++
	return res
}

func rawSetDiff(a, b []RawRec) string {
	am := map[string][]byte{}
	for _, r := range a {
		am[string(r.K)] = r.V
	}
	for _, r := range b {
		v, ok := am[string(r.K)]
		if !ok {
			return fmt.Sprintf("key %X only after import", r.K)
		}
		if !bytes.Equal(v, r.V) {
			return fmt.Sprintf("key %X differs", r.K)
		}
		delete(am, string(r.K))
	}
	for k := range am {
		return fmt.Sprintf("key %X only before export", []byte(k))
	}
	return ""
}

func genesisDiff(a, b *st.GenesisState) string {
	var d []string
	if !a.Params.Equal(b.Params) {
		d = append(d, "params")
	}
	if len(a.Definitions) != len(b.Definitions) {
		d = append(d, "definitions")
	}
	if len(a.Bindings) != len(b.Bindings) {
		d = append(d, "bindings")
	} else {
		for i := range a.Bindings {
			if a.Bindings[i].String() != b.Bindings[i].String() {
				d = append(d, "bindings")
				break
			}
		}
	}
	if len(a.WithdrawAddresses) != len(b.WithdrawAddresses) {
		d = append(d, "withdraw-addresses")
	}
	if len(a.RequestContexts) != len(b.RequestContexts) {
		d = append(d, "contexts")
	}
	if len(d) == 0 {
		d = append(d, "content")
	}
	sort.Strings(d)
	return fmt.Sprint(d)
}

// genesisPost is the post-pass of a C19 run: every explored state is an export point.
func genesisPost(e *Engine, ev *RunEvidence) []Found {
	rig := e.rig
	fresh := rig.Genesis(e.Sc.Params, e.Sc.Funds, e.Sc.Extra)
	found := map[string]*Found{}
	wit := map[string]int64{}
	var mu sync.Mutex
	var wg sync.WaitGroup
	ch := make(chan int32, 1024)
	for w := 0; w < runtime.NumCPU(); w++ {
		wg.Add(1)
		go func() {
			defer wg.Done()
			rig := NewRig(e.Sc.Rig) // a keeper of its own per worker
			for id := range ch {
				n := e.nodes[id]
				if n.st == nil {
					continue
				}
				if rig.Dirty() {
					rig = NewRig(e.Sc.Rig)
				}
				r := exportPoint(rig, e.Sc, n.st, fresh)
				mu.Lock()
				for k, v := range r.wit {
					wit[k] += v
				}
				for _, v := range r.viols {
					if f, ok := found[v.Sig]; ok {
						f.Count++
					} else {
						found[v.Sig] = &Found{Violation: v, Trace: append(e.trace(id), "<export>"), Count: 1}
					}
				}
				mu.Unlock()
			}
		}()
	}
	for i := range e.nodes {
		ch <- int32(i)
	}
	close(ch)
	wg.Wait()
	if ev.Extra == nil {
		ev.Extra = map[string]int64{}
	}
	for k, v := range wit {
		ev.Witnesses[k] += v
	}
	ev.Extra["export_points"] = wit["C19:export-points"]
	var out []Found
	for _, f := range found {
		out = append(out, *f)
	}
	return out
}

// oracleC19 lets a recorded export-point violation be reproduced by `svcmc replay`: the trace ends with the
// pseudo-action "<export>", which replay handles by running exportPoint on the state reached.
type oracleC19 struct{ baseOracle }

func (oracleC19) Prop() string { return "C19" }

// paramGrid: every parameter value the parameter store accepts (what a parameter-change proposal can set) must
// survive the export: the exported genesis validates, is written and read back as JSON, and re-imports identically.
func paramGrid(tier string) (*PureEvidence, []Found) {
	ev := &PureEvidence{Counters: map[string]int64{}, Rule: "per module parameter the boundary values of its type; each value the parameter store accepts (per-field validators, as for a parameter-change proposal) is put in force on a chain with definitions, bindings and a running context, which is then taken as an export point; distinct = accepted (parameter, value) pairs"}
	found := map[string]*Found{}
	rig := NewRig(RigConfig{})
	sc := scLife(defaultParams(), []Template{tRep2}, AlphaOpts{}, 1, 1, 1)
	base := rig.Genesis(sc.Params, sc.Funds, sc.Extra)
	s := base
	for _, a := range append(append([]Action{}, sc.Setup...), sc.actCall(0), actE()) {
		post, res := Exec(rig, sc, s, a)
		if !res.OK() {
			panic("paramGrid setup failed: " + a.Name)
		}
		s = post
	}
	type pcase struct {
		name string
		set  func(p *st.Params)
	}
	var cases []pcase
	dec := func(x string) sdk.Dec { return sdk.MustNewDecFromStr(x) }
	for _, v := range []int64{-1, 0, 1, 2, 1<<63 - 1} {
		v := v
		cases = append(cases, pcase{fmt.Sprintf("MaxRequestTimeout=%d", v), func(p *st.Params) { p.MaxRequestTimeout = v }})
		cases = append(cases, pcase{fmt.Sprintf("MinDepositMultiple=%d", v), func(p *st.Params) { p.MinDepositMultiple = v }})
	}
	for _, v := range []string{"-0.1", "0", "0.000000000000000001", "0.5", "0.999999999999999999", "1", "1.000000000000000001", "2"} {
		v := v
		cases = append(cases, pcase{"ServiceFeeTax=" + v, func(p *st.Params) { p.ServiceFeeTax = dec(v) }})
		cases = append(cases, pcase{"SlashFraction=" + v, func(p *st.Params) { p.SlashFraction = dec(v) }})
	}
	for _, v := range []time.Duration{-1, 0, 1, time.Second, 1<<63 - 1} {
		v := v
		cases = append(cases, pcase{fmt.Sprintf("ComplaintRetrospect=%d", v), func(p *st.Params) { p.ComplaintRetrospect = v }})
		cases = append(cases, pcase{fmt.Sprintf("ArbitrationTimeLimit=%d", v), func(p *st.Params) { p.ArbitrationTimeLimit = v }})
	}
	for _, v := range []uint64{0, 1, 4000, 1<<64 - 1} {
		v := v
		cases = append(cases, pcase{fmt.Sprintf("TxSizeLimit=%d", v), func(p *st.Params) { p.TxSizeLimit = v }})
	}
	for _, v := range []string{"", "s", "ab", "abc", "stake", "Stake", "1ab", "a234567890123456", "a2345678901234567", "sta ke"} {
		v := v
		cases = append(cases, pcase{"BaseDenom=" + v, func(p *st.Params) { p.BaseDenom = v }})
	}
	for i, v := range []sdk.Coins{nil, {}, coins(1), hugeCoins(), {sdk.Coin{Denom: denom, Amount: sdk.ZeroInt()}}, sdk.NewCoins(sdk.NewInt64Coin("foo", 10), sdk.NewInt64Coin(denom, 10))} {
		v := v
		cases = append(cases, pcase{fmt.Sprintf("MinDeposit=#%d(%s)", i, v.String()), func(p *st.Params) { p.MinDeposit = v }})
	}
	for _, c := range cases {
		ev.Evaluations++
		p := sc.Params.Params()
		c.set(&p)
		w := rig.Restore(s)
		if pn, _ := tryPanic(func() { rig.sk.SetParams(w.ctx, p) }); pn != "" {
			ev.Counters["refused-by-the-parameter-store"]++
			continue
		}
		ev.Distinct++
		ev.Counters["accepted-and-exported"]++
		s2 := &State{Height: s.Height, Time: s.Time, Stores: w.Flush()}
		var r c19Result
		if pn, trc := tryPanic(func() { r = exportPoint(rig, sc, s2, base) }); pn != "" {
			r.viols = append(r.viols, viol("C19", "export-with-accepted-parameters-does-not-panic", "export", panicClass(pn, trc), "export panics: "+pn+" at "+trc))
		}
		for _, v := range r.viols {
			sig := "C19|" + v.Clause + "|pure|" + c.name + "/" + v.Sig[strings.LastIndex(v.Sig, "|")+1:]
			if f, ok := found[sig]; ok {
				f.Count++
				continue
			}
			vv := v
			vv.Sig = sig
			vv.Detail = "with parameter " + c.name + " in force: " + v.Detail
			found[sig] = &Found{Violation: vv, Trace: []string{"param-grid", c.name}, Count: 1}
		}
	}
	if len(ev.Samples) < 2 {
		ev.Samples = append(ev.Samples, map[string]interface{}{"parameter": "SlashFraction=1", "export": "validated, JSON round trip, re-import compared"})
	}
	var out []Found
	for _, f := range found {
		out = append(out, *f)
	}
	return ev, out
}
