package main

import (
	"fmt"
	"os"
	"path/filepath"
	"regexp"
	"runtime"
	"strings"
	"sync"

	sdk "github.com/cosmos/cosmos-sdk/types"

	st "github.com/irismod/service/types"
)

// C20 — block processing is deterministic and cannot crash the chain.
// (a) determinism: Engine.DetCheck executes every transition on two independent keeper instances.
// (b) panics: every transition runs under recover; any panic is a violation.
type oracleC20 struct{ baseOracle }

func (oracleC20) Prop() string { return "C20" }

var reNums = regexp.MustCompile(`[0-9]+`)

func panicClass(p, trace string) string {
	site := ""
	for _, part := range strings.Split(trace, " | ") {
		if strings.Contains(part, ".go:") && !strings.Contains(part, "svcmc") && !strings.Contains(part, "/verif/") {
			f := part
			if i := strings.LastIndex(f, "/"); i >= 0 {
				f = f[i+1:]
			}
			if j := strings.Index(f, " "); j >= 0 {
				f = f[:j]
			}
			site = f
			break
		}
	}
	msg := reNums.ReplaceAllString(p, "N")
	if len(msg) > 60 {
		msg = msg[:60]
	}
	return msg + "@" + reNums.ReplaceAllString(site, "")
}

func (oracleC20) Step(x *OCtx, t *Trans) []Violation {
	if t.Res.Panic == "" {
		x.Wit("C20:no-panic/" + t.Act.Kind)
		return nil
	}
	clause := "handler-never-panics"
	if t.Act.Kind == "E" {
		clause = "end-of-block-never-panics"
	}
	return []Violation{viol("C20", clause, t.Act.Kind, panicClass(t.Res.Panic, t.Res.PanicTrc), "panic: "+t.Res.Panic+" at "+t.Res.PanicTrc)}
}

// ---------------------------------------------------------------------------------------------
// S-INPUT: for each message type, the cross product of boundary field values that pass stateless
// validation, delivered in three representative states, followed by an end of block.

func manyProviders(n int) []sdk.AccAddress {
	out := make([]sdk.AccAddress, n)
	for i := range out {
		out[i] = addr20(fmt.Sprintf("bulkprov%02d", i))
	}
	return out
}

// maxCoins is the largest amount an sdk.Int can hold (2^255-1).
func maxCoins() sdk.Coins {
	one := sdk.NewInt(1)
	m := one
	for i := 0; i < 255; i++ {
		m = m.Add(m)
		if i == 253 {
			break
		}
	}
	// m = 2^254; 2^255-1 = m + (m - 1)
	return sdk.NewCoins(sdk.NewCoin(denom, m.Add(m.Sub(one))))
}

func hugeCoins() sdk.Coins {
	h, _ := sdk.NewIntFromString("4" + strings.Repeat("0", 76))
	return sdk.NewCoins(sdk.NewCoin(denom, h))
}

type inputCase struct {
	Name string
	Msg  sdk.Msg
}

func inputMessages(ctxID, reqID []byte) []inputCase {
	var out []inputCase
	add := func(n string, m sdk.Msg) { out = append(out, inputCase{n, m}) }
	long70 := "a" + strings.Repeat("b", 69)
	addrDom := func(own sdk.AccAddress) []sdk.AccAddress {
		return []sdk.AccAddress{own, sdk.AccAddress([]byte{0x70}), append(append(sdk.AccAddress{}, own...), 0x01)}
	}
	coinDom := []sdk.Coins{nil, {}, coins(1), coins(10), hugeCoins(), maxCoins(), sdk.NewCoins(sdk.NewInt64Coin("foo", 10)),
		sdk.NewCoins(sdk.NewInt64Coin("foo", 10), sdk.NewInt64Coin(denom, 10))}
	hugePrice := `{"price":"4` + strings.Repeat("0", 76) + `stake"}`
	pricingDom := []string{`{"price":"1` + strings.Repeat("0", 77) + `.0stake"}`, `{"price":"0stake"}`, `{"price":"1stake"}`, `{"price":"1.5stake"}`, `{"price":"7foo"}`, hugePrice, pricingText("p2v"), pricingText("p1t"),
		`{"price":"1stake","promotions_by_time":[{"start_time":"0000-01-01T00:00:00Z","end_time":"0000-06-01T00:00:00Z","discount":"0.5"}]}`,
		`{"price":"1stake","promotions_by_time":[{"start_time":"9999-01-01T00:00:00Z","end_time":"9999-12-31T23:59:59Z","discount":"0.5"}]}`,
		// year 1 / year 9999 in the timestamp's own zone, outside in UTC
		`{"price":"1stake","promotions_by_time":[{"start_time":"0001-01-01T00:00:00+14:00","end_time":"0001-06-01T00:00:00Z","discount":"0.5"}]}`,
		`{"price":"1stake","promotions_by_time":[{"start_time":"9999-01-01T00:00:00Z","end_time":"9999-12-31T23:59:59-14:00","discount":"0.5"}]}`,
		`{"price":"1stake","promotions_by_volume":[{"volume":18446744073709551615,"discount":"0.5"}]}`,
		`{"price":"1stake","promotions_by_volume":[{"volume":1,"discount":"0.5"},{"volume":1,"discount":"0.4"}]}`,
		// a "discount" with digits in front of the 0.x the schema asks for (refused by the unmodified schema), in force from year 1 to 9999
		`{"price":"1stake","promotions_by_time":[{"start_time":"0001-01-01T00:00:00Z","end_time":"9999-12-31T23:59:59Z","discount":"` + strings.Repeat("9", 58) + `0.5"}]}`,
		`{"price":"5stake","promotions_by_volume":[{"volume":1,"discount":"` + strings.Repeat("9", 75) + `0.5"}]}`}
	svcDom := []string{"a", "zz", long70}
	qosDom := []uint64{1, 3, 4, 1<<64 - 1}

	for _, n := range []string{"a", "n", long70} {
		for _, au := range addrDom(AU) {
			for _, tags := range [][]string{nil, {"t"}, {"1", "2", "3", "4", "5", "6", "7", "8", "9", "10"}} {
				for _, sch := range []string{schemasOK, `{"input":{},"output":{}}`, `{"input":{"type":"nosuchtype"},"output":{}}`} {
					add("define", st.NewMsgDefineService(n, strings.Repeat("d", 280), tags, au, "", sch))
				}
			}
		}
	}
	for _, svc := range svcDom {
		for _, pr := range addrDom(P3) {
			for _, ow := range []sdk.AccAddress{O1, sdk.AccAddress([]byte{0x6f})} {
				for _, dep := range coinDom {
					for _, pt := range pricingDom {
						for _, q := range qosDom {
							add("bind", st.NewMsgBindService(svc, pr, dep, pt, q, "{}", ow))
						}
					}
				}
			}
		}
	}
	for _, svc := range svcDom {
		for _, pr := range addrDom(P1) {
			for _, ow := range []sdk.AccAddress{O1, O2} {
				for _, dep := range coinDom {
					for _, pt := range append([]string{""}, pricingDom...) {
						for _, q := range append([]uint64{0}, qosDom...) {
							add("update", st.NewMsgUpdateServiceBinding(svc, pr, dep, pt, q, "{}", ow))
						}
					}
				}
			}
		}
	}
	for _, ow := range addrDom(O1) {
		for _, to := range addrDom(W1) {
			add("setw", st.NewMsgSetWithdrawAddress(ow, to))
		}
	}
	for _, svc := range svcDom {
		for _, pr := range addrDom(P1) {
			for _, ow := range []sdk.AccAddress{O1, O2} {
				add("disable", st.NewMsgDisableServiceBinding(svc, pr, ow))
				add("refund", st.NewMsgRefundServiceDeposit(svc, pr, ow))
				for _, dep := range coinDom {
					add("enable", st.NewMsgEnableServiceBinding(svc, pr, dep, ow))
				}
			}
		}
	}
	provDom := [][]sdk.AccAddress{{P1}, {P1, P2}, {Pp}, manyProviders(10), append([]sdk.AccAddress{P1, P2}, manyProviders(8)...)}
	for _, c := range []sdk.AccAddress{C1, sdk.AccAddress([]byte{0x63})} {
		for _, svc := range []string{"a", "zz"} {
			for _, pv := range provDom {
				for _, in := range []string{inputOK, `{"header":{}}`} {
					for _, cap := range []sdk.Coins{{}, coins(1), coins(5), hugeCoins(), maxCoins(), sdk.NewCoins(sdk.NewInt64Coin("foo", 10)), sdk.NewCoins(sdk.NewInt64Coin("foo", 10), sdk.NewInt64Coin(denom, 10))} {
						for _, to := range []int64{1, 3, 4, 1<<63 - 1} {
							for _, sup := range []bool{false, true} {
								add("call", st.NewMsgCallService(svc, pv, c, in, cap, to, sup, false, 0, 0))
								for _, fr := range []uint64{0, 1, 3, 1 << 62} {
									for _, tot := range []int64{-1, 1, 1<<63 - 1} {
										add("call", st.NewMsgCallService(svc, pv, c, in, cap, to, sup, true, fr, tot))
									}
								}
							}
						}
					}
				}
			}
		}
	}
	unkReq := make([]byte, 58)
	for _, rid := range [][]byte{reqID, unkReq} {
		for _, pr := range addrDom(P1) {
			for _, res := range []string{resultOK, result400, `{"code":500,"message":"x"}`} {
				for _, o := range []string{"", outputOK, outputBad, `[]`, `{"header":1}`, `{"header":{},"body":[]}`} {
					add("respond", st.NewMsgRespondService(rid, pr, res, o))
				}
			}
		}
	}
	unkCtx := make([]byte, 40)
	for _, cid := range [][]byte{ctxID, unkCtx} {
		for _, c := range addrDom(C1) {
			add("pause", st.NewMsgPauseRequestContext(cid, c))
			add("start", st.NewMsgStartRequestContext(cid, c))
			add("kill", st.NewMsgKillRequestContext(cid, c))
			for _, pv := range append([][]sdk.AccAddress{nil}, provDom...) {
				for _, cap := range []sdk.Coins{nil, {}, coins(1), hugeCoins(), sdk.NewCoins(sdk.NewInt64Coin("foo", 10)), sdk.NewCoins(sdk.NewInt64Coin("foo", 10), sdk.NewInt64Coin(denom, 10))} {
					for _, to := range []int64{0, 1, 3, 4, 1<<63 - 1} {
						for _, fr := range []uint64{0, 1, 3, 1 << 62} {
							for _, tot := range []int64{-1, 0, 1, 2, 1<<63 - 1} {
								add("updctx", st.NewMsgUpdateRequestContext(cid, pv, cap, to, fr, tot, c))
							}
						}
					}
				}
			}
		}
	}
	for _, ow := range addrDom(O1) {
		for _, pr := range []sdk.AccAddress{nil, P1, P2, Pp, append(append(sdk.AccAddress{}, P1...), 0x01)} {
			add("withdraw", st.NewMsgWithdrawEarnedFees(ow, pr))
		}
	}
	return out
}

var inputTxHash = append([]byte{0x77}, make([]byte, 31)...)

func inputGrid(tier string) (*PureEvidence, []Found) {
	ev, found := inputGridWith(nil)
	found = append(found, inputGridFX(ev)...)
	return ev, found
}

// inputGridFX: boundary-shaped binding and call messages on a host chain with a token module (prices and deposits in
// main units, foreign and unknown tokens, amounts around the limits after scaling), delivered in two states (bound;
// batch in flight) and at a height at which the exchange-rate service has no answer, each followed by an end of block.
func inputGridFX(ev *PureEvidence) []Found {
	sc := scFX(defaultParams(), "fusd1v", []Template{tFxOne, tFxRep}, AlphaOpts{}, fxSpec(H0+1), 1, 1, 1)
	rig := NewRig(sc.Rig)
	bound := rig.Genesis(sc.Params, sc.Funds, sc.Extra)
	for _, a := range sc.Setup {
		p, res := Exec(rig, sc, bound, a)
		if !res.OK() {
			panic("S-INPUT(fx) setup: " + res.ErrString())
		}
		bound = p
	}
	running := bound
	for _, a := range []Action{sc.actCall(0), sc.actCall(1), actE()} { // the next end of block is the one without a rate
		p, res := Exec(rig, sc, running, a)
		if !res.OK() {
			panic("S-INPUT(fx) setup: " + res.ErrString())
		}
		running = p
	}
	two128 := "340282366920938463463374607431768211455" // 2^128-1
	prices := []string{"1usd", "0.000001usd", "0usd", "1yen", "1.5kilo", "0kilo", "0.0005kilo", "4" + strings.Repeat("0", 76) + "kilo", two128 + "kilo", two128 + "cent", two128 + ".999usd",
		"1" + strings.Repeat("0", 77) + ".0kilo", "0." + strings.Repeat("0", 17) + "1kilo", "1stake"}
	deps := []sdk.Coins{coins(10), coins(40), sdk.NewCoins(sdk.NewInt64Coin("kilo", 10)), sdk.NewCoins(sdk.NewInt64Coin("cent", 10)), sdk.NewCoins(sdk.NewInt64Coin("yen", 10))}
	caps := []sdk.Coins{coins(5), sdk.NewCoins(sdk.NewInt64Coin("cent", 500)), sdk.NewCoins(sdk.NewInt64Coin("kilo", 1)), hugeCoins()}
	var msgs []inputCase
	for _, pr := range prices {
		for _, d := range deps {
			text := `{"price":"` + pr + `"}`
			msgs = append(msgs, inputCase{"fx-bind", st.NewMsgBindService("a", P4, d, text, 1, "{}", O1)})
			msgs = append(msgs, inputCase{"fx-update", st.NewMsgUpdateServiceBinding("a", P1, d, text, 0, "{}", O1)})
			msgs = append(msgs, inputCase{"fx-update-promo", st.NewMsgUpdateServiceBinding("a", P1, d, `{"price":"`+pr+`","promotions_by_volume":[{"volume":1,"discount":"0.000000000000000001"}]}`, 0, "{}", O1)})
		}
		msgs = append(msgs, inputCase{"fx-enable", st.NewMsgEnableServiceBinding("a", P1, deps[2], O1)})
	}
	for _, c := range caps {
		msgs = append(msgs, inputCase{"fx-call", st.NewMsgCallService("a", []sdk.AccAddress{P1, P2, P3}, C1, inputOK, c, 1, false, true, 1, 2)})
		msgs = append(msgs, inputCase{"fx-call-oracle-price", st.NewMsgCallService(st.OraclePriceServiceName, []sdk.AccAddress{st.OraclePriceServiceProvider}, C1, `{"header":{},"body":{"pair":"cent-stake"}}`, c, 1, false, false, 0, 0)})
	}
	var out []Found
	for _, stt := range []struct {
		n string
		s *State
	}{{"fx-bound", bound}, {"fx-running", running}} {
		for _, ic := range msgs {
			ev.Counters["generated/"+ic.Name]++
			if err := ic.Msg.ValidateBasic(); err != nil {
				ev.Counters["stateless-reject/"+ic.Name]++
				continue
			}
			if rig.Dirty() {
				rig = NewRig(sc.Rig)
			}
			w := rig.Restore(stt.s)
			res := w.DeliverMsg(ic.Msg, inputTxHash, 0)
			ev.Evaluations++
			ev.Counters["delivered/"+ic.Name]++
			ev.Counters["outcome/"+ic.Name+"/"+res.Outcome()]++
			if res.Panic != "" {
				out = append(out, Found{Violation: viol("C20", "handler-never-panics", ic.Name, panicClass(res.Panic, res.PanicTrc),
					fmt.Sprintf("state %s, message %s: panic %s at %s", stt.n, msgJSON(ic.Msg), res.Panic, res.PanicTrc)), Trace: []string{stt.n, msgJSON(ic.Msg)}, Count: 1})
				continue
			}
			for i := 0; i < 2; i++ { // the block with the rate missing, then one with a rate
				eb := w.EndBlock()
				ev.Counters["end-of-block-after/"+ic.Name]++
				if eb.Panic != "" {
					out = append(out, Found{Violation: viol("C20", "end-of-block-never-panics", "E-after-"+ic.Name, panicClass(eb.Panic, eb.PanicTrc),
						fmt.Sprintf("state %s, after message %s: end of block panics: %s at %s", stt.n, msgJSON(ic.Msg), eb.Panic, eb.PanicTrc)), Trace: []string{stt.n, msgJSON(ic.Msg), "E"}, Count: 1})
					break
				}
				st2 := &State{Height: stt.s.Height + int64(i) + 1, Time: stt.s.Time + int64(i) + 1, Stores: w.Flush()}
				w = rig.Restore(st2)
			}
		}
	}
	return out
}

// inputGridInv evaluates the state invariants of one property on every state reached by a boundary-shaped message
// (and on the state after the following end of block).
func inputGridInv(o Oracle) func(tier string) (*PureEvidence, []Found) {
	return func(tier string) (*PureEvidence, []Found) { return inputGridWith(o) }
}

func inputGridWith(inv Oracle) (*PureEvidence, []Found) {
	rig := NewRig(RigConfig{})
	sc := withFunds(scLife(defaultParams(), []Template{tRep2}, AlphaOpts{}, 1, 1, 1), 40, 5)
	// three representative states: nothing defined; bound; running context with pending requests and earnings
	empty := rig.Genesis(sc.Params, sc.Funds, sc.Extra)
	bound := empty
	for _, a := range sc.Setup {
		p, res := Exec(rig, sc, bound, a)
		if !res.OK() {
			panic("S-INPUT setup: " + res.ErrString())
		}
		bound = p
	}
	running := bound
	for _, a := range []Action{sc.actCall(0), actE()} {
		p, res := Exec(rig, sc, running, a)
		if !res.OK() {
			panic("S-INPUT setup: " + res.ErrString())
		}
		running = p
	}
	rv := rig.Decode(running)
	pend := rv.PendingIDs()
	if len(pend) == 0 {
		panic("S-INPUT: no pending request in the running state")
	}
	// one response so that earnings exist
	{
		p, res := Exec(rig, sc, running, actRespond(pend[0], rv.Reqs[pend[0]].Provider, "ok"))
		if !res.OK() {
			panic("S-INPUT setup: " + res.ErrString())
		}
		running = p
	}
	msgs := inputMessages(sc.CtxID(0), mustHex(pend[len(pend)-1]))
	states := []struct {
		n string
		s *State
	}{{"empty", empty}, {"bound", bound}, {"running", running}}

	ev := &PureEvidence{Counters: map[string]int64{}, Rule: "S-INPUT: per message type the cross product of boundary field values; cases passing ValidateBasic are delivered in three representative states (empty / bound / running context with pending request and earnings) and followed by an end of block; distinct = distinct (message type, outcome, error text class, state) combinations"}
	var mu sync.Mutex
	found := map[string]*Found{}
	distinct := map[string]bool{}
	var wg sync.WaitGroup
	nw := runtime.NumCPU()
	ch := make(chan int, 1024)
	for w := 0; w < nw; w++ {
		wg.Add(1)
		go func() {
			defer wg.Done()
			rig := NewRig(sc.Rig) // a keeper of its own: nothing a keeper might hold in memory is shared between workers
			lc := map[string]int64{}
			ld := map[string]bool{}
			var lf []Found
			for i := range ch {
				ic := msgs[i]
				if rig.Dirty() {
					lc["keeper-memory-changed"]++
					rig = NewRig(sc.Rig)
				}
				lc["generated/"+ic.Name]++
				if err := ic.Msg.ValidateBasic(); err != nil {
					lc["stateless-reject/"+ic.Name]++
					continue
				}
				for _, stt := range states {
					w := rig.Restore(stt.s)
					res := w.DeliverMsg(ic.Msg, inputTxHash, 0)
					lc["delivered/"+ic.Name]++
					lc["outcome/"+ic.Name+"/"+res.Outcome()]++
					ld[ic.Name+"/"+stt.n+"/"+res.Outcome()+"/"+reNums.ReplaceAllString(firstWords(res.ErrString(), 6), "N")] = true
					if res.Panic != "" {
						lf = append(lf, Found{Violation: viol("C20", "handler-never-panics", ic.Name, panicClass(res.Panic, res.PanicTrc),
							fmt.Sprintf("state %s, message %s: panic %s at %s", stt.n, msgJSON(ic.Msg), res.Panic, res.PanicTrc)), Trace: []string{stt.n, msgJSON(ic.Msg)}, Count: 1})
						continue
					}
					checkInv := func(where string) {
						if inv == nil || !res.OK() {
							return
						}
						ps := &State{Height: stt.s.Height, Time: stt.s.Time, Stores: w.Flush()}
						x := &OCtx{Sc: sc, Rig: rig, wit: map[string]int64{}, outc: map[string]int64{}}
						lc["invariant-evaluations/"+ic.Name]++
						for _, v := range inv.Invariant(x, rig.Decode(ps), NewMon()) {
							v.Sig = invSig(v.Sig, where+ic.Name)
							lf = append(lf, Found{Violation: v, Trace: []string{stt.n, msgJSON(ic.Msg), where}, Count: 1})
						}
					}
					checkInv("after-")
					eb := w.EndBlock()
					lc["end-of-block-after/"+ic.Name]++
					if eb.Panic != "" {
						lf = append(lf, Found{Violation: viol("C20", "end-of-block-never-panics", "E-after-"+ic.Name, panicClass(eb.Panic, eb.PanicTrc),
							fmt.Sprintf("state %s, after message %s: end of block panics: %s at %s", stt.n, msgJSON(ic.Msg), eb.Panic, eb.PanicTrc)), Trace: []string{stt.n, msgJSON(ic.Msg), "E"}, Count: 1})
					} else {
						checkInv("E-after-")
					}
				}
			}
			mu.Lock()
			for k, v := range lc {
				ev.Counters[k] += v
			}
			for k := range ld {
				distinct[k] = true
			}
			for _, f := range lf {
				if g, ok := found[f.Sig]; ok {
					g.Count++
				} else {
					ff := f
					found[f.Sig] = &ff
				}
			}
			mu.Unlock()
		}()
	}
	for i := range msgs {
		ch <- i
	}
	close(ch)
	wg.Wait()
	for k, v := range ev.Counters {
		if strings.HasPrefix(k, "delivered/") || strings.HasPrefix(k, "end-of-block-after/") {
			ev.Evaluations += v
		}
	}
	// stateless validation (and every later use of a stored schema) must not read the host: a schema that refers to a
	// document outside the message is judged once with that document present and once with it absent
	if inv == nil {
		for _, where := range []string{"input", "output"} {
			dir, err := os.MkdirTemp("", "svcmc-ref")
			if err != nil {
				continue
			}
			f := filepath.Join(dir, "s.json")
			_ = os.WriteFile(f, []byte(`{"type":"object"}`), 0o644)
			other := "output"
			if where == "output" {
				other = "input"
			}
			sch := fmt.Sprintf(`{"%s":{"$ref":"file://%s"},"%s":{"type":"object"}}`, where, f, other)
			msg := st.NewMsgDefineService("ext", "", nil, AU, "", sch)
			e1 := msg.ValidateBasic()
			_ = os.RemoveAll(dir)
			e2 := msg.ValidateBasic()
			ev.Evaluations += 2
			ev.Counters["external-reference-cases"]++
			if (e1 == nil) != (e2 == nil) {
				v := viol("C20", "validation-independent-of-the-host", "define", "external-$ref/"+where,
					fmt.Sprintf("define with %s schema {\"$ref\":\"file://...\"}: accepted=%v while the file exists, accepted=%v after it was removed (%v)", where, e1 == nil, e2 == nil, e2))
				found[v.Sig] = &Found{Violation: v, Trace: []string{"define", "external $ref in the " + where + " schema"}, Count: 1}
			}
		}
	}
	ev.Distinct = int64(len(distinct))
	for i := 0; i < len(msgs) && len(ev.Samples) < 4; i += len(msgs)/4 + 1 {
		ev.Samples = append(ev.Samples, map[string]interface{}{"message_type": msgs[i].Name, "message": msgJSON(msgs[i].Msg)})
	}
	var out []Found
	for _, f := range found {
		out = append(out, *f)
	}
	return ev, out
}

func firstWords(s string, n int) string {
	f := strings.Fields(s)
	if len(f) > n {
		f = f[:n]
	}
	return strings.Join(f, " ")
}

func msgJSON(m sdk.Msg) string {
	type pm interface {
		String() string
	}
	if p, ok := m.(pm); ok {
		s := p.String()
		if len(s) > 400 {
			s = s[:400] + "..."
		}
		return s
	}
	return fmt.Sprintf("%T", m)
}

// mapGenesisPost: in the overlay build, import the genesis exported at every explored state under every iteration
// order of its withdraw-address and request-context maps (types/genesis.go and genesis.go range over them).
func mapGenesisPost(e *Engine, ev *RunEvidence) []Found {
	if !mapOrderEnabled {
		return nil
	}
	fresh := e.rig.Genesis(e.Sc.Params, e.Sc.Funds, e.Sc.Extra)
	stt := &mapOrderStats{Sites: map[string]int64{}}
	found := map[string]*Found{}
	n := int64(0)
	for i, nd := range e.nodes {
		if nd.st == nil {
			continue
		}
		n++
		for _, v := range mapOrderGenesis(e.rig, e.Sc, nd.st, fresh, stt) {
			if f, ok := found[v.Sig]; ok {
				f.Count++
			} else {
				found[v.Sig] = &Found{Violation: v, Trace: append(e.trace(int32(i)), "<import-orders>"), Count: 1}
			}
		}
	}
	ev.Witnesses["C20:map-order/genesis-imports"] += n
	ev.Witnesses["C20:map-order/genesis-imports-ranging-over-2+-keys"] += stt.Transitions
	ev.Witnesses["C20:map-order/genesis-alternative-orders-executed"] += stt.Orders
	for s, c := range stt.Sites {
		ev.Witnesses["C20:map-order/site/"+s] += c
	}
	var out []Found
	for _, f := range found {
		out = append(out, *f)
	}
	return out
}
