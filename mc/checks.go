package main

func init() {
	register(&CheckSpec{Prop: "C01", Runs: func(tier string) []RunSpec {
		o := AlphaOpts{RespKinds: []string{"ok", "bad", "noout"}, CtxOps: []string{"pause", "start", "kill"},
			Updates: []CtxUpdate{updTotalUp}, Withdraw: []string{"O1:", "O2:P2"}}
		if tier == "quick" {
			return []RunSpec{
				{Name: "life-one+rep2+poor", Sc: scLife(defaultParams(), []Template{tOne, tRep2, tPoor}, o, 8, 5, 2), Oracles: []Oracle{oracleC01{}}},
				{Name: "price-subunit+zero", Sc: scPrice(defaultParams(), "p1v", "p0", []Template{tOne, tRep2}, o, 8, 5, 2), Oracles: []Oracle{oracleC01{}}},
			}
		}
		return []RunSpec{
			{Name: "life-one+rep2+poor", Sc: scLife(defaultParams(), []Template{tOne, tRep2, tPoor}, o, 10, 6, 3), Oracles: []Oracle{oracleC01{}}},
		}
	}})
}
