package main

func init() {
	register(&CheckSpec{Prop: "C01", Runs: func(tier string) []RunSpec {
		o := AlphaOpts{RespKinds: []string{"ok", "bad", "noout"}, CtxOps: []string{"pause", "start", "kill"},
			Updates: []CtxUpdate{updTotalUp}, Withdraw: []string{"O1:", "O2:P2"}}
		if tier == "quick" {
			return []RunSpec{
				{Name: "life-one+rep2+poor", Sc: scLife(defaultParams(), []Template{tOne, tRep2, tPoor}, o, 8, 5, 2), Oracles: []Oracle{oracleC01{}}},
				{Name: "price-subunit+zero", Sc: scPrice(defaultParams(), "p1v", "p0", []Template{tOne, tRep2}, o, 8, 5, 2), Oracles: []Oracle{oracleC01{}}},
			}
		}
		return []RunSpec{
			{Name: "life-one+rep2+poor", Sc: scLife(defaultParams(), []Template{tOne, tRep2, tPoor}, o, 10, 6, 3), Oracles: []Oracle{oracleC01{}}},
		}
	}})
}

func init() {
	lifeO := AlphaOpts{RespKinds: []string{"ok", "bad", "noout"}, CtxOps: []string{"pause", "start", "kill"},
		Updates: []CtxUpdate{updTotalUp}, Withdraw: []string{"O1:", "O2:P2"}}
	register(&CheckSpec{Prop: "C02", Runs: func(tier string) []RunSpec {
		d, b, m := 8, 5, 2
		if tier == "thorough" {
			d, b, m = 10, 6, 3
		}
		return []RunSpec{
			{Name: "life-one+rep2+poor", Sc: scLife(defaultParams(), []Template{tOne, tRep2, tPoor}, lifeO, d, b, m), Oracles: []Oracle{oracleC02{}}},
			{Name: "price-subunit+zero", Sc: scPrice(paramSet("0.1", "0.001"), "p1v", "p0", []Template{tOne, tRep2}, lifeO, d, b, m), Oracles: []Oracle{oracleC02{}}},
		}
	}})
	register(&CheckSpec{Prop: "C03", Runs: func(tier string) []RunSpec {
		d, b, m := 7, 4, 3
		if tier == "thorough" {
			d, b, m = 9, 5, 4
		}
		return []RunSpec{
			{Name: "bind-ops+slash", Sc: scBind(defaultParams(), bindOpsFull(), []Template{tSlash}, []string{"bad"}, d, b, m), Oracles: []Oracle{oracleC03{}}},
		}
	}})
	register(&CheckSpec{Prop: "C04", Runs: func(tier string) []RunSpec {
		d, b, m := 7, 4, 3
		if tier == "thorough" {
			d, b, m = 9, 5, 4
		}
		return []RunSpec{
			{Name: "bind-ops+slash", Sc: scBind(defaultParams(), bindOpsFull(), []Template{tSlash}, []string{"bad", "ok"}, d, b, m), Oracles: []Oracle{oracleC04{}}},
			{Name: "life-slash-paths", Sc: scLife(defaultParams(), []Template{tOne, tRep2, tSuper}, lifeO, d+1, b+1, 2), Oracles: []Oracle{oracleC04{}}},
		}
	}})
	register(&CheckSpec{Prop: "C13", Runs: func(tier string) []RunSpec {
		d, b, m := 7, 3, 4
		if tier == "thorough" {
			d, b, m = 9, 4, 5
		}
		return []RunSpec{
			{Name: "fees", Sc: scFees(paramSet("0.1", "0.001"), true, d, b, m), Oracles: []Oracle{oracleC13{}}},
		}
	}})
	register(&CheckSpec{Prop: "C14", Runs: func(tier string) []RunSpec {
		d, b, m := 7, 4, 3
		if tier == "thorough" {
			d, b, m = 9, 5, 4
		}
		return []RunSpec{
			{Name: "bind-ops+slash", Sc: scBind(defaultParams(), bindOpsFull(), []Template{tSlash}, []string{"bad"}, d, b, m), Oracles: []Oracle{oracleC14{}}},
		}
	}})
}

func init() {
	lifeO := AlphaOpts{RespKinds: []string{"ok", "bad", "noout"}, CtxOps: []string{"pause", "start", "kill"},
		Updates: []CtxUpdate{updTotalUp}, Withdraw: []string{"O1:"}}
	ctlO := AlphaOpts{RespKinds: []string{"ok"}, CtxOps: []string{"pause", "start", "kill"},
		Updates: []CtxUpdate{updTotalUp, updTotalInf, updTimeout2, updFreq2}}
	modO := AlphaOpts{RespKinds: []string{"ok", "bad", "noout"}, ModOps: []string{"mpause", "mstart", "mkill"},
		ModUpdates: []CtxUpdate{{Name: "total3", Total: 3}}}
	dbm := func(tier string, d, b, m int) (int, int, int) {
		if tier == "thorough" {
			return d + 2, b + 1, m + 1
		}
		return d, b, m
	}
	register(&CheckSpec{Prop: "C06", Runs: func(tier string) []RunSpec {
		d, b, m := dbm(tier, 8, 5, 2)
		o := AlphaOpts{RespKinds: []string{"ok", "bad"}, CtxOps: []string{"pause", "start"}, Updates: []CtxUpdate{updCap1, updProvP2},
			BindOps: []Action{actDisable("a", "P1", "O1"), actEnable("a", "P1", "O1", 0), actUpdate("a", "P2", "O2", 0, "", 2), actUpdate("a", "P1", "O1", 30, "p20", 0)}}
		return []RunSpec{
			{Name: "life-eligibility", Sc: scLife(defaultParams(), []Template{tOne, tRep2, tPoor}, o, d, b, m), Oracles: []Oracle{oracleC06{}}},
			{Name: "life-eligibility-flipped-ids", Sc: flip(scLife(defaultParams(), []Template{tRep2, tLong}, o, d, b, m)), Oracles: []Oracle{oracleC06{}}},
			{Name: "mod-thresholds", Sc: scMod(defaultParams(), []Template{tMod2, tModCap, tModPoor}, modO, d-1, b, m), Oracles: []Oracle{oracleC06{}}},
		}
	}})
	register(&CheckSpec{Prop: "C07", Runs: func(tier string) []RunSpec {
		d, b, m := dbm(tier, 8, 5, 2)
		o := AlphaOpts{RespKinds: []string{"ok", "bad"}, BindOps: []Action{actUpdate("a", "P1", "O1", 0, "p1t", 0), actUpdate("a", "P2", "O2", 0, "p3vv", 0)}}
		return []RunSpec{
			{Name: "price-volume", Sc: withFunds(scPrice(paramSet("0.1", "0.001"), "p2v", "p3vv", []Template{tRep2, tLong, tSuper}, o, d, b, m), 30, 5), Oracles: []Oracle{oracleC07{}}, Mon: MonFlags{Vol: true}},
			{Name: "price-time+subunit", Sc: withFunds(scPrice(paramSet("0.1", "0.001"), "p4t", "p1v", []Template{tRep2, tInf}, o, d, b, m), 30, 5), Oracles: []Oracle{oracleC07{}}, Mon: MonFlags{Vol: true}},
		}
	}})
	register(&CheckSpec{Prop: "C08", Runs: func(tier string) []RunSpec {
		d, b, m := dbm(tier, 8, 5, 2)
		o := AlphaOpts{RespKinds: []string{"ok", "bad", "noout"}, RespWrong: true, CtxOps: []string{"pause", "kill"}, Updates: []CtxUpdate{updTimeout2}}
		return []RunSpec{
			{Name: "life-timeouts-1-2", Sc: withFunds(scLife(paramSet("0.1", "0.001"), []Template{tOne, tLong}, o, d, b, m), 30, 5), Oracles: []Oracle{oracleC08{}}, Mon: MonFlags{Req: true}},
			{Name: "life-timeout-3", Sc: withFunds(scLife(paramSet("0.1", "0.001"), []Template{{Name: "t3", Consumer: "C1", Service: "a", Providers: []string{"P1", "P2"}, Cap: 5, Timeout: 3}}, o, d, b, m+1), 30, 5), Oracles: []Oracle{oracleC08{}}, Mon: MonFlags{Req: true}},
		}
	}})
	register(&CheckSpec{Prop: "C09", Runs: func(tier string) []RunSpec {
		d, b, m := dbm(tier, 8, 5, 2)
		return []RunSpec{
			{Name: "life-lifecycle", Sc: scLife(defaultParams(), []Template{tOne, tRep2, tPoor}, ctlO, d, b, m), Oracles: []Oracle{oracleC09{}}},
			{Name: "mod-lifecycle", Sc: scMod(defaultParams(), []Template{tMod1, tModPoor}, modO, d, b, m), Oracles: []Oracle{oracleC09{}}},
		}
	}})
	register(&CheckSpec{Prop: "C10", Runs: func(tier string) []RunSpec {
		d, b, m := dbm(tier, 9, 7, 2)
		return []RunSpec{
			{Name: "cadence-rep2+inf", Sc: withFunds(scLife(paramSet("0.1", "0.001"), []Template{tRep2, tInf}, ctlO, d, b, m), 40, 5), Oracles: []Oracle{oracleC10{}}, Mon: MonFlags{Ctx: true}},
			{Name: "cadence-rep1+long+f3", Sc: withFunds(scLife(paramSet("0.1", "0.001"), []Template{tRep1, tLong, tF3}, AlphaOpts{CtxOps: []string{"pause", "start"}, Updates: []CtxUpdate{updTotalUp}}, d, b, m), 40, 5), Oracles: []Oracle{oracleC10{}}, Mon: MonFlags{Ctx: true}},
			{Name: "frequency-boundaries", Sc: withFunds(scLife(paramSet("0.1", "0.001"), []Template{tHuge, tMax, tBig}, AlphaOpts{CtxOps: []string{"pause", "start"}}, 5, 4, 2), 40, 5), Oracles: []Oracle{oracleC10{}}, Mon: MonFlags{Ctx: true}},
		}
	}})
	register(&CheckSpec{Prop: "C11", Runs: func(tier string) []RunSpec {
		d, b, m := dbm(tier, 9, 6, 2)
		return []RunSpec{
			{Name: "life-events", Sc: withFunds(scLife(paramSet("0.1", "0.001"), []Template{tRep2, tInf, tPoor}, ctlO, d, b, m), 40, 1), Oracles: []Oracle{oracleC11{}}},
			{Name: "frequency-boundaries", Sc: withFunds(scLife(paramSet("0.1", "0.001"), []Template{tHuge, tMax, tBig}, AlphaOpts{CtxOps: []string{"pause", "start"}}, 5, 4, 2), 40, 5), Oracles: []Oracle{oracleC11{}}},
		}
	}})
	register(&CheckSpec{Prop: "C12", Runs: func(tier string) []RunSpec {
		d, b, m := dbm(tier, 8, 5, 2)
		return []RunSpec{
			{Name: "mod-callbacks", Sc: scMod(defaultParams(), []Template{tMod1, tMod2, tModPoor}, modO, d, b, m), Oracles: []Oracle{oracleC12{}}, Mon: MonFlags{CB: true}},
			{Name: "mod-callbacks-oneshot+cap", Sc: scMod(defaultParams(), []Template{tModOne, tModCap}, modO, d, b, m+1), Oracles: []Oracle{oracleC12{}}, Mon: MonFlags{CB: true}},
			{Name: "life-bookkeeping", Sc: scLife(defaultParams(), []Template{tOne, tRep2}, lifeO, d, b, m), Oracles: []Oracle{oracleC12{}}},
		}
	}})
	register(&CheckSpec{Prop: "C16", Runs: func(tier string) []RunSpec {
		d, b, m := dbm(tier, 8, 6, 2)
		return []RunSpec{
			{Name: "life-cleanup", Sc: scLife(defaultParams(), []Template{tOne, tRep2, tPoor}, ctlO, d, b, m), Oracles: []Oracle{oracleC16{}}},
			{Name: "mod-cleanup", Sc: scMod(defaultParams(), []Template{tMod1, tModCap}, modO, d, b, m), Oracles: []Oracle{oracleC16{}}},
		}
	}})
}

func flip(sc *Scenario) *Scenario { sc.FlipIDs = true; return sc }

func init() {
	register(&CheckSpec{Prop: "C05", Runs: func(tier string) []RunSpec {
		d := 0
		if tier == "thorough" {
			d = 2
		}
		lifeW := AlphaOpts{RespKinds: []string{"ok"}, RespWrong: true, CtxOps: []string{"pause", "start", "kill"}, CtxWrong: true, Updates: []CtxUpdate{updTotalUp}}
		modW := AlphaOpts{RespKinds: []string{"ok"}, CtxOps: []string{"pause", "start", "kill"}, Updates: []CtxUpdate{updTotalUp}, ConsumerOnMod: true,
			ModOps: []string{"mpause", "mstart", "mkill"}}
		o := []Oracle{oracleC05{}}
		return []RunSpec{
			{Name: "bind-auth", Sc: scBindAuth(defaultParams(), 6+d, 3, 4), Oracles: o},
			{Name: "life-auth", Sc: scLife(defaultParams(), []Template{tOne, tRep2, tPoor}, lifeW, 7+d, 4, 2), Oracles: o},
			{Name: "mod-auth", Sc: scMod(defaultParams(), []Template{tMod1, tModPoor}, modW, 7+d, 4, 2), Oracles: o},
			{Name: "fees-auth", Sc: scFees(paramSet("0.1", "0.001"), true, 6+d, 3, 3), Oracles: o},
			{Name: "msvc-reserved", Sc: scMsvc(defaultParams(), 5+d, 3, 3), Oracles: o},
		}
	}})
	register(&CheckSpec{Prop: "C15", Runs: func(tier string) []RunSpec {
		d := 0
		if tier == "thorough" {
			d = 2
		}
		return []RunSpec{
			{Name: "names", Sc: scNames(defaultParams(), 6+d, 3, 4+d), Oracles: []Oracle{oracleC15{}}},
			{Name: "later-operations", Sc: scLife(defaultParams(), []Template{tOne, tRep2}, AlphaOpts{RespKinds: []string{"ok", "bad"}, CtxOps: []string{"pause", "start", "kill"}, Withdraw: []string{"O1:"},
				BindOps: []Action{actDisable("a", "P1", "O1"), actEnable("a", "P1", "O1", 0), actUpdate("a", "P2", "O2", 0, "p3vv", 0)}}, 7+d, 4, 2), Oracles: []Oracle{oracleC15{}}},
		}
	}})
}

func init() {
	register(&CheckSpec{Prop: "C20", Runs: func(tier string) []RunSpec {
		d := 0
		if tier == "thorough" {
			d = 2
		}
		lifeO := AlphaOpts{RespKinds: []string{"ok", "bad", "noout"}, CtxOps: []string{"pause", "start", "kill"},
			Updates: []CtxUpdate{updTotalUp, updTimeout2}, Withdraw: []string{"O1:", "O2:P2"}}
		modO := AlphaOpts{RespKinds: []string{"ok", "bad"}, ModOps: []string{"mpause", "mstart", "mkill"}}
		o := []Oracle{oracleC20{}}
		return []RunSpec{
			{Name: "life-determinism+panics", Sc: scLife(defaultParams(), []Template{tOne, tRep2, tPoor}, lifeO, 7+d, 5, 2), Oracles: o, DetCheck: true},
			{Name: "mod-determinism+panics", Sc: scMod(defaultParams(), []Template{tMod1, tModPoor}, modO, 7+d, 5, 2), Oracles: o, DetCheck: true},
			{Name: "fees-panics", Sc: scFees(paramSet("0.1", "0.001"), true, 6+d, 3, 3), Oracles: o, DetCheck: true},
			{Name: "bind-panics", Sc: scBind(defaultParams(), bindOpsFull(), []Template{tSlash2}, []string{"bad"}, 6+d, 4, 3), Oracles: o, DetCheck: true},
		}
	}, Pure: inputGrid})
}
