package main

// Registration of the per-property checks: which scenarios (runs) each property's oracle is evaluated on.
// The lifecycle properties share a library of runs (lifeRuns) so that a behaviour one run reaches is seen
// by every oracle that could object to it; each property adds runs aimed at its own clauses.

import (
	sdk "github.com/cosmos/cosmos-sdk/types"
	"fmt"
	"time"
)

type base struct {
	Name string
	Sc   func() *Scenario
}

var (
	updFreq3Tot2 = CtxUpdate{Name: "freq3total2", Freq: 3, Total: 2}
	updFreq1Tot2 = CtxUpdate{Name: "freq1total2", Freq: 1, Total: 2}
	updTimeout3  = CtxUpdate{Name: "timeout3", Timeout: 3}
	tGap         = Template{Name: "gap", Consumer: "C1", Service: "a", Providers: []string{"P2"}, Cap: 5, Timeout: 2, Repeated: true, Freq: 3, Total: -1}
	tOne2        = Template{Name: "one2", Consumer: "C1", Service: "a", Providers: []string{"P1", "P2"}, Cap: 5, Timeout: 2}
	tCapLow      = Template{Name: "caplow", Consumer: "C1", Service: "a", Providers: []string{"P1", "P2"}, Cap: 1, Timeout: 1, Repeated: true, Freq: 1, Total: 2}
)

func bump(tier string, d, b, m int) (int, int, int) {
	if tier == "thorough" {
		return d + 2, b + 1, m + 1
	}
	return d, b, m
}

// lifeRuns is the shared library of lifecycle scenarios.
func lifeRuns(tier string) []base {
	mainO := AlphaOpts{RespKinds: []string{"ok", "bad", "noout"}, CtxOps: []string{"pause", "start", "kill"},
		Updates: []CtxUpdate{updTotalUp, updCap1}, Withdraw: []string{"O1:", "O1:P1", "O2:", "O2:P2"}}
	gapO := AlphaOpts{RespKinds: []string{"ok"}, CtxOps: []string{"pause", "start", "kill"},
		Updates: []CtxUpdate{updFreq3Tot2, updTotalInf, updTimeout2, updTimeout3, {Name: "total1", Total: 1}}, // total1: down to the number of batches already run
		BindOps: []Action{actDisable("a", "P2", "O2"), actEnable("a", "P2", "O2", 0)}}
	ctlO := AlphaOpts{RespKinds: []string{"ok"}, CtxOps: []string{"pause", "start", "kill"},
		Updates: []CtxUpdate{updTotalUp, updTotalInf, updTimeout2, updTimeout3, updFreq2, updFreq1Tot2}}
	modO := AlphaOpts{RespKinds: []string{"ok", "bad", "noout"}, ModOps: []string{"mpause", "mstart", "mkill"},
		ModUpdates: []CtxUpdate{{Name: "total3", Total: 3}, {Name: "thr1", Threshold: 1}, {Name: "thr2", Threshold: 2}}}
	d, b, m := bump(tier, 8, 5, 2)
	return append([]base{
		{"life-main", func() *Scenario { return scLife(defaultParams(), []Template{tOne, tRep2, tPoor}, mainO, d, b, m) }},
		{"life-gap", func() *Scenario {
			return withFunds(scLife(paramSet("0.1", "0.001"), []Template{tGap, tOne2}, gapO, d+1, b+1, m), 40, 5)
		}},
		{"life-control", func() *Scenario {
			return withFunds(scLife(paramSet("0.1", "0.001"), []Template{tOne, tRep2, tInf}, ctlO, d, b, m), 40, 5)
		}},
		{"life-caplow-flipped", func() *Scenario {
			return flip(scLife(defaultParams(), []Template{tCapLow, tLong, tPoorOne}, AlphaOpts{RespKinds: []string{"ok", "bad"}, CtxOps: []string{"pause", "start", "kill"},
				Updates: []CtxUpdate{updProvP2}, Withdraw: []string{"O2:"}}, d, b, m))
		}},
		{"price-subunit+zero", func() *Scenario {
			return scPrice(paramSet("0.1", "0.001"), "p1v", "p0", []Template{tOne, tRep2, tSuper}, mainO, d, b, m)
		}},
		{"mod-main", func() *Scenario {
			return scMod(defaultParams(), []Template{tMod1, tModPoor, tModCap, tModHalf}, modO, d, b, m)
		}},
		{"msvc", func() *Scenario { return scMsvc(defaultParams(), d-1, b-1, m) }},
		{"life-gov", func() *Scenario {
			// governance changes the parameters in mid-flight: tax 0.1 -> 0.5, slash 0.001 -> 0.5, max timeout 3 -> 1
			g := paramSet("0.5", "0.5")
			g.MaxTimeout, g.Name = 1, "gov-tax0.5-slash0.5-maxtimeout1"
			return withFunds(scLife(paramSet("0.1", "0.001"), []Template{tLong, tOne2}, AlphaOpts{RespKinds: []string{"ok", "bad"}, CtxOps: []string{"pause", "start"},
				Withdraw: []string{"O2:"}, ParamChanges: []ParamSet{g}}, d, b, m), 30, 5)
		}},
	}, append(fxBases(tier), base{"life-restart", func() *Scenario {
		// the chain is restarted once from a zero-height export somewhere along the way; everything continues on the imported state
		sc := withFunds(scLife(paramSet("0.1", "0.001"), []Template{tRep2, tLong, tOne2}, AlphaOpts{RespKinds: []string{"ok"}, CtxOps: []string{"pause", "start", "kill"},
			Withdraw: []string{"O1:"}, BindOps: []Action{actDisable("a", "P2", "O2"), actEnable("a", "P2", "O2", 0)}}, d+1, b+1, m), 40, 5)
		sc.Name, sc.Restart = "S-LIFE(restart)", true
		return sc
	}})...)
}

func runsOf(bs []base, oracles []Oracle, mon MonFlags, names ...string) []RunSpec {
	var out []RunSpec
	for _, b := range bs {
		if len(names) > 0 {
			keep := false
			for _, n := range names {
				if n == b.Name {
					keep = true
				}
			}
			if !keep {
				continue
			}
		}
		out = append(out, RunSpec{Name: b.Name, Sc: b.Sc(), Oracles: oracles, Mon: mon})
	}
	return out
}

func init() {
	register(&CheckSpec{Prop: "C01", Runs: func(tier string) []RunSpec {
		o := []Oracle{oracleC01{}}
		runs := runsOf(lifeRuns(tier), o, MonFlags{})
		d, b, m := bump(tier, 7, 4, 3)
		runs = append(runs, RunSpec{Name: "fees", Sc: scFees(paramSet("0.1", "0.001"), false, d, b, m), Oracles: o})
		runs = append(runs, RunSpec{Name: "fees-restart", Sc: restartable(scFees(paramSet("0.1", "0.001"), false, d, b, m-1)), Oracles: o})
		runs = append(runs, RunSpec{Name: "huge-values", Sc: scHuge(paramSet("0.1", "0.001"), d-1, b, 2), Oracles: o})
		runs = append(runs, slashAfterRefundRun(o, MonFlags{}), priceFractionsRun(o, MonFlags{}, d, b, 2))
		runs = append(runs, RunSpec{Name: "module-accounts-created-on-first-use", Sc: scLazyAccounts(paramSet("0.1", "0.001"), 7, 3, 4), Oracles: o, Conform: -1})
		// failure paths: a consumer without coins calls a module service (the fee cannot be taken inside the message);
		// a consumer who can pay the first provider of a batch but not the whole batch
		runs = append(runs, msvcPoorRun(o, d-1, b-1, m))
		runs = append(runs, twoContextsOneUnaffordableRuns(o, d-1, b, 2)...)
		// the owning module starts a context again from inside the "paused: insufficient balances" state callback (the
		// invariant makes no assumption about who changed what, so it can run under any rig)
		runs = append(runs, RunSpec{Name: "mod-restart-in-callback", Sc: scModRestart(defaultParams(), []Template{tMod1, tModPoor},
			AlphaOpts{RespKinds: []string{"ok"}, ModOps: []string{"mpause", "mstart"}}, d, b, 2), Oracles: o})
		return runs
	}})
	register(&CheckSpec{Prop: "C02", Runs: func(tier string) []RunSpec {
		o := []Oracle{oracleC02{}}
		runs := runsOf(lifeRuns(tier), o, MonFlags{})
		d, b, m := bump(tier, 7, 4, 3)
		runs = append(runs, RunSpec{Name: "fees", Sc: scFees(paramSet("0.5", "0.001"), false, d, b, m), Oracles: o})
		runs = append(runs, RunSpec{Name: "fees-restart", Sc: restartable(scFees(paramSet("0.5", "0.001"), false, d, b, m-1)), Oracles: o})
		runs = append(runs, govMaxTimeoutExtremesRun(o, MonFlags{}))
		runs = append(runs, RunSpec{Name: "huge-values", Sc: scHuge(paramSet("0.1", "0.001"), d-1, b, 2), Oracles: o})
		runs = append(runs, slashAfterRefundRun(o, MonFlags{}), priceFractionsRun(o, MonFlags{}, d, b, 2))
		if tier == "thorough" {
			for _, tax := range []string{"0", "0.34", "0.99"} {
				ps := paramSet(tax, "0.5")
				runs = append(runs, RunSpec{Name: "life-main-tax" + tax, Sc: scLife(ps, []Template{tOne, tRep2, tPoor}, AlphaOpts{RespKinds: []string{"ok", "bad", "noout"}, CtxOps: []string{"pause", "kill"}, Withdraw: []string{"O1:", "O2:P2"}}, 9, 5, 2), Oracles: o})
			}
		}
		return runs
	}})
	register(&CheckSpec{Prop: "C03", Runs: func(tier string) []RunSpec {
		d, b, m := bump(tier, 7, 4, 3)
		o := []Oracle{oracleC03{}}
		runs := []RunSpec{
			{Name: "bind-ops+slash", Sc: scBind(defaultParams(), bindOpsFull(), []Template{tSlash}, []string{"bad"}, d, b, m), Oracles: o, Mon: MonFlags{Dis: true}},
			{Name: "bind-ops+two-failures", Sc: scBind(paramSet("0.1", "0.001"), bindOpsSmall(), []Template{tSlash2}, []string{"bad", "ok"}, d+1, b+1, 2), Oracles: o, Mon: MonFlags{Dis: true}},
		}
		runs = append(runs, runsOf(lifeRuns(tier), o, MonFlags{Dis: true}, "life-main", "life-caplow-flipped", "life-restart", "fx-main")...)
		runs = append(runs, RunSpec{Name: "bind-ops+slash-restart", Sc: restartable(scBind(defaultParams(), bindOpsFull(), []Template{tSlash}, []string{"bad"}, d, b, m-1)), Oracles: o, Mon: MonFlags{Dis: true}})
		runs = append(runs, RunSpec{Name: "bind-ops-main-unit+foreign-token", Sc: scBindFX(defaultParams(), d, b, m), Oracles: o, Mon: MonFlags{Dis: true}})
		{
			// governance stretches the two periods to 2^62 ns each (their sum does not fit a duration): no refund in our lifetime
			g := defaultParams()
			g.Arbitration, g.Complaint, g.Name = 1<<62, 1<<62, "gov-periods-2^62ns"
			sc := scBind(defaultParams(), nil, []Template{tSlash}, []string{"bad"}, d, b, m)
			sc.Alpha = lifeAlpha(AlphaOpts{RespKinds: []string{"bad"}, ParamChanges: []ParamSet{g}, BindOps: []Action{actBind("a", "P1", "O1", 10, "p1", 1),
				actDisable("a", "P1", "O1"), actRefund("a", "P1", "O1")}})
			sc.Name = "S-BIND(gov-periods-2^62ns)"
			runs = append(runs, RunSpec{Name: "gov-periods-beyond-a-duration", Sc: timeJumps(sc), Oracles: o, Mon: MonFlags{Dis: true}})
		}
		// block times that advance by three seconds at once: the refundable instant (disabling time + 2 s) can be jumped over
		runs = append(runs, RunSpec{Name: "bind-ops-time-jumps", Sc: timeJumps(scBind(defaultParams(), bindOpsSmall(), []Template{tSlash}, []string{"bad"}, d, b, m-1)), Oracles: o, Mon: MonFlags{Dis: true}})
		// arbitration 1.5 s + complaint 0.5 s: the refundable instant is exactly two blocks after the disabling time
		frac := defaultParams()
		frac.Arbitration, frac.Complaint, frac.Name = 1500*time.Millisecond, 500*time.Millisecond, "arbitration1.5s-complaint0.5s"
		runs = append(runs, RunSpec{Name: "bind-ops-fractional-periods", Sc: scBind(frac, bindOpsSmall(), []Template{tSlash}, []string{"bad"}, d, b, m), Oracles: o, Mon: MonFlags{Dis: true}})
		// governance raises the minimum deposit above existing deposits: a refund still needs an unavailable binding
		{
			g := defaultParams()
			g.MinDeposit, g.Name = 50, "gov-min-deposit-50"
			sc := scBind(defaultParams(), nil, []Template{tSlash}, []string{"bad"}, d, b, m)
			sc.Alpha = lifeAlpha(AlphaOpts{RespKinds: []string{"bad"}, ParamChanges: []ParamSet{g}, BindOps: []Action{actBind("a", "P1", "O1", 10, "p1", 1),
				actDisable("a", "P1", "O1"), actEnable("a", "P1", "O1", 0), actEnable("a", "P1", "O1", 40), actRefund("a", "P1", "O1"), actUpdate("a", "P1", "O1", 10, "", 0)}})
			sc.Name = "S-BIND(gov-min-deposit-50)"
			runs = append(runs, RunSpec{Name: "gov-min-deposit-raised", Sc: sc, Oracles: o, Mon: MonFlags{Dis: true}})
		}
		if tier == "thorough" {
			for _, sl := range []string{"0", "1"} {
				runs = append(runs, RunSpec{Name: "bind-ops+slash" + sl, Sc: scBind(paramSet("0.5", sl), bindOpsFull(), []Template{tSlash}, []string{"bad"}, d, b, m), Oracles: o, Mon: MonFlags{Dis: true}})
			}
		}
		return runs
	}})
	register(&CheckSpec{Prop: "C04", Runs: func(tier string) []RunSpec {
		d, b, m := bump(tier, 7, 4, 3)
		o := []Oracle{oracleC04{}}
		runs := []RunSpec{
			{Name: "bind-ops+slash", Sc: scBind(defaultParams(), bindOpsFull(), []Template{tSlash}, []string{"bad", "ok"}, d, b, m), Oracles: o},
			{Name: "bind-ops+two-failures", Sc: scBind(paramSet("0.1", "0.001"), bindOpsSmall(), []Template{tSlash2}, []string{"bad", "ok"}, d+1, b+1, 2), Oracles: o},
			slashAfterRefundRun(o, MonFlags{}),
			// products with a fraction of one half and above: 15 x 0.1 = 1.5, 19 x 0.1 = 1.9, then 14 x 0.1, 18 x 0.1
			{Name: "slash-fraction-rounding", Sc: scBind(paramSet("0.1", "0.1"), []Action{actBind("a", "P1", "O1", 15, "p1", 1), actBind("a", "P1", "O1", 19, "p1", 1), actBind("a", "P2", "O2", 25, "p1", 1)},
				[]Template{tSlash2}, []string{"bad"}, d+1, b+1, 2), Oracles: o},
			{Name: "slash-zero+min-deposit-raised", Sc: func() *Scenario {
				g := paramSet("0.1", "0.001")
				g.MinDeposit, g.Name = 50, "gov-min-deposit-50"
				sc := scBind(paramSet("0.1", "0.001"), bindOpsSmall(), []Template{tSlash2}, []string{"bad"}, d+1, b+1, 3)
				sc.Alpha = lifeAlpha(AlphaOpts{RespKinds: []string{"bad"}, BindOps: bindOpsSmall(), ParamChanges: []ParamSet{g}})
				return sc
			}(), Oracles: o},
			{Name: "price-zero-slash-half", Sc: scPrice(defaultParams(), "p1v", "p0", []Template{tOne, tRep2}, AlphaOpts{RespKinds: []string{"ok", "bad"}, CtxOps: []string{"pause", "kill"}}, d+1, b+1, 2), Oracles: o},
			{Name: "life-super", Sc: scLife(defaultParams(), []Template{tOne, tSuper}, AlphaOpts{RespKinds: []string{"ok", "bad"}, CtxOps: []string{"kill"}}, d+1, b+1, 2), Oracles: o},
			{Name: "slash-after-refund", Sc: scBind(defaultParams(), []Action{actBind("a", "P1", "O1", 10, "p1", 1), actDisable("a", "P1", "O1"), actRefund("a", "P1", "O1")}, []Template{tSlash3}, []string{"bad"}, d+1, b+1, 2), Oracles: o},
		}
		runs = append(runs, runsOf(lifeRuns(tier), o, MonFlags{})...)
		runs = append(runs, RunSpec{Name: "bind-ops-time-jumps", Sc: timeJumps(scBind(defaultParams(), bindOpsSmall(), []Template{tSlash2}, []string{"bad"}, d, b, m-1)), Oracles: o})
		// a restart while requests are open, with a slash fraction that would show (0.5)
		runs = append(runs, RunSpec{Name: "life-restart-slash-half", Sc: restartable(withFunds(scLife(defaultParams(), []Template{tOne2, tLong}, AlphaOpts{RespKinds: []string{"ok"}}, d-1, b, m), 40, 5)), Oracles: o})
		// a provider answers a request it has already answered (refused), while the other provider's request stays open
		runs = append(runs, RunSpec{Name: "life-second-response", Sc: withFunds(scLife(paramSet("0.1", "0.001"), []Template{tOne2, tRep2}, AlphaOpts{RespKinds: []string{"ok"}, RespWrong: true}, d-1, b, m), 40, 5), Oracles: o})
		// slash fraction exactly 1: one failure takes the whole deposit
		runs = append(runs, RunSpec{Name: "bind-ops+slash-all", Sc: scBind(paramSet("0.5", "1"), bindOpsSmall(), []Template{tSlash2}, []string{"bad"}, d-1, b, 2), Oracles: o})
		if tier == "thorough" {
			for _, sl := range []string{"0", "0.001", "1"} {
				runs = append(runs, RunSpec{Name: "bind-ops+slash" + sl, Sc: scBind(paramSet("0.5", sl), bindOpsFull(), []Template{tSlash}, []string{"bad"}, d, b, m), Oracles: o})
			}
		}
		return runs
	}})
	register(&CheckSpec{Prop: "C06", Runs: func(tier string) []RunSpec {
		d, b, m := bump(tier, 8, 5, 2)
		o := []Oracle{oracleC06{}}
		eo := AlphaOpts{RespKinds: []string{"ok", "bad"}, CtxOps: []string{"pause", "start"}, Updates: []CtxUpdate{updCap1, updProvP2},
			BindOps: []Action{actDisable("a", "P1", "O1"), actEnable("a", "P1", "O1", 0), actUpdate("a", "P2", "O2", 0, "", 2), actUpdate("a", "P1", "O1", 30, "p20", 0), actUpdate("a", "P2", "O2", 0, "", 1<<63), actUpdate("a", "P2", "O2", 0, "", 1<<64-1)}}
		modO := AlphaOpts{RespKinds: []string{"ok", "bad"}, ModOps: []string{"mpause", "mstart"}, ModUpdates: []CtxUpdate{{Name: "thr2", Threshold: 2}, {Name: "thr1", Threshold: 1}}}
		runs := []RunSpec{
			{Name: "life-eligibility", Sc: scLife(defaultParams(), []Template{tOne, tRep2, tPoor}, eo, d, b, m), Oracles: o},
			{Name: "provider-listed-twice", Sc: withFunds(scLife(defaultParams(), []Template{tDupProv, tOne}, AlphaOpts{RespKinds: []string{"ok"}, BindOps: []Action{actDisable("a", "P2", "O2")}}, d-2, b, m), 40, 5), Oracles: o},
			{Name: "life-eligibility-flipped-ids", Sc: flip(scLife(defaultParams(), []Template{tRep2, tLong}, eo, d, b, m)), Oracles: o},
			{Name: "mod-thresholds", Sc: scMod(defaultParams(), []Template{tMod2, tModCap, tModPoor}, modO, d-1, b, m), Oracles: o},
			{Name: "price-fraction-at-cap", Sc: scPrice(paramSet("0.1", "0.001"), "p3t", "p1", []Template{tCapLow, tOne}, AlphaOpts{RespKinds: []string{"ok"}}, d-1, b, m), Oracles: o},
			{Name: "mod-thresholds-raise", Sc: scMod(paramSet("0.1", "0.001"), []Template{tMod1}, AlphaOpts{RespKinds: []string{"ok"}, ModUpdates: []CtxUpdate{{Name: "thr2", Threshold: 2}}, BindOps: []Action{actDisable("a", "P2", "O2"), actEnable("a", "P2", "O2", 0)}}, d, b, m), Oracles: o},
		}
		runs = append(runs, priceFractionsRun(o, MonFlags{}, d-1, b, m), tightBalanceRun(o, d, b, m))
		runs = append(runs, twoContextsOneUnaffordableRuns(o, d-2, b-1, m)...)
		// the owning module lowers the fee cap of its other contexts from inside the state callback of one that cannot pay (both processing orders)
		for _, fl := range []bool{false, true} {
			sc := scModCapSiblings(defaultParams(), []Template{tModPoor, tMod1, tMod2}, AlphaOpts{RespKinds: []string{"ok"}, ModOps: []string{"mpause", "mstart"}}, d-1, b-1, m)
			sc.FlipIDs = fl
			runs = append(runs, RunSpec{Name: fmt.Sprintf("mod-cap-siblings-in-callback(flip=%v)", fl), Sc: sc, Oracles: o})
		}
		{
			// governance raises the minimum deposit above the existing deposits: eligibility does not depend on it
			g := defaultParams()
			g.MinDeposit, g.Name = 50, "gov-min-deposit-50"
			runs = append(runs, RunSpec{Name: "gov-min-deposit-raised", Sc: scLife(defaultParams(), []Template{tRep2, tOne}, AlphaOpts{RespKinds: []string{"ok"}, ParamChanges: []ParamSet{g}}, d-1, b, m), Oracles: o})
		}
		runs = append(runs, runsOf(lifeRuns(tier), o, MonFlags{})...)
		return runs
	}})
	register(&CheckSpec{Prop: "C07", Runs: func(tier string) []RunSpec {
		d, b, m := bump(tier, 8, 5, 2)
		o := []Oracle{oracleC07{}}
		po := AlphaOpts{RespKinds: []string{"ok", "bad"}, BindOps: []Action{actUpdate("a", "P1", "O1", 0, "p4vd", 0), actUpdate("a", "P1", "O1", 0, "p1t", 0), actUpdate("a", "P2", "O2", 0, "p3vv", 0), actUpdate("a", "P1", "O1", 0, "p4tr", 0), actDisable("a", "P1", "O1"), actEnable("a", "P1", "O1", 0)}}
		runs := []RunSpec{
			{Name: "price-volume", Sc: withFunds(scPrice(paramSet("0.1", "0.001"), "p2v", "p3vv", []Template{tRep2, tLong, tSuper}, po, d, b, m), 30, 5), Oracles: o, Mon: MonFlags{Vol: true}},
			{Name: "price-time+subunit", Sc: withFunds(scPrice(paramSet("0.1", "0.001"), "p4t", "p1v", []Template{tRep2, tInf}, po, d, b, m), 30, 5), Oracles: o, Mon: MonFlags{Vol: true}},
		}
		runs = append(runs, RunSpec{Name: "two-services-one-provider", Sc: scTwoServices(paramSet("0.1", "0.001"), AlphaOpts{RespKinds: []string{"ok"}, BindOps: []Action{actUpdate("ab", "P1", "O1", 0, "p3vv", 0), actUpdate("a", "P1", "O1", 0, "p1t", 0)}}, d, b, m), Oracles: o, Mon: MonFlags{Vol: true}})
		runs = append(runs, RunSpec{Name: "huge-values", Sc: scHuge(paramSet("0.1", "0.001"), d-2, b-1, 2), Oracles: o, Mon: MonFlags{Vol: true}})
		runs = append(runs, priceFractionsRun(o, MonFlags{Vol: true}, d-1, b, m))
		runs = append(runs, priceUpdateRejectedRun(o, MonFlags{Vol: true}, d-1, b, m))
		{
			// block times carry 100 ms, promotion windows end at .9 s: the window is still open in the second in which it ends
			sc := withFunds(scPrice(paramSet("0.1", "0.001"), "p4tms", "p1", []Template{tRep2, tInf}, AlphaOpts{RespKinds: []string{"ok"},
				BindOps: []Action{actUpdate("a", "P1", "O1", 0, "p4tms", 0), actUpdate("a", "P1", "O1", 0, "p2", 0)}}, d-1, b, m), 30, 5)
			sc.SubSecondMs, sc.Name = 100, sc.Name+"+sub-second block times"
			runs = append(runs, RunSpec{Name: "price-sub-second-times", Sc: sc, Oracles: o, Mon: MonFlags{Vol: true}})
		}
		// block times that advance by three seconds at once: a whole promotion window can lie between two blocks
		runs = append(runs, RunSpec{Name: "price-time-jumps", Sc: timeJumps(withFunds(scPrice(paramSet("0.1", "0.001"), "p4t", "p1t", []Template{tRep2, tInf}, AlphaOpts{RespKinds: []string{"ok"}}, d-1, b, m), 30, 5)), Oracles: o, Mon: MonFlags{Vol: true}})
		runs = append(runs, runsOf(lifeRuns(tier), o, MonFlags{Vol: true})...)
		return runs
	}, Pure: priceGrid})
	register(&CheckSpec{Prop: "C08", Runs: func(tier string) []RunSpec {
		d, b, m := bump(tier, 8, 5, 2)
		o := []Oracle{oracleC08{}}
		wo := AlphaOpts{RespKinds: []string{"ok", "bad", "noout"}, RespWrong: true, CtxOps: []string{"pause", "start", "kill"}, Updates: []CtxUpdate{updTimeout2}}
		runs := []RunSpec{
			{Name: "life-timeouts-1-2", Sc: withFunds(scLife(paramSet("0.1", "0.001"), []Template{tOne, tLong}, wo, d, b, m), 30, 5), Oracles: o, Mon: MonFlags{Req: true}},
			{Name: "life-timeout-3", Sc: withFunds(scLife(paramSet("0.1", "0.001"), []Template{{Name: "t3", Consumer: "C1", Service: "a", Providers: []string{"P1", "P2"}, Cap: 5, Timeout: 3}}, wo, d, b, m+1), 30, 5), Oracles: o, Mon: MonFlags{Req: true}},
		}
		lowMax := paramSet("0.1", "0.001")
		lowMax.MaxTimeout, lowMax.Name = 1, "max-timeout-1"
		tax15 := paramSet("1.5", "0.001") // a tax above the whole fee (refused by the unmodified parameter validators)
		tax15.Name = "gov-tax-1.5"
		runs = append(runs, RunSpec{Name: "life-max-timeout-lowered", Sc: withFunds(scLife(paramSet("0.1", "0.001"), []Template{tLong, tOne2}, AlphaOpts{RespKinds: []string{"ok"}, CtxOps: []string{"pause", "start"}, ParamChanges: []ParamSet{lowMax, tax15}}, d, b, m), 30, 5), Oracles: o, Mon: MonFlags{Req: true}})
		runs = append(runs, runsOf(lifeRuns(tier), o, MonFlags{Req: true})...)
		runs = append(runs, RunSpec{Name: "huge-values", Sc: scHuge(paramSet("0.1", "0.001"), d-2, b-1, 2), Oracles: o, Mon: MonFlags{Req: true}})
		return runs
	}})
	register(&CheckSpec{Prop: "C09", Runs: func(tier string) []RunSpec {
		d, b, m := bump(tier, 8, 5, 2)
		runs := runsOf(lifeRuns(tier), []Oracle{oracleC09{}}, MonFlags{})
		// the owning module reacts inside its callbacks (kills the context it is told was paused; gives up on its other
		// contexts when a batch fails): keeper calls made from within end-of-block and response processing
		runs = append(runs, RunSpec{Name: "mod-reentrant", Sc: scModReentrant(defaultParams(), []Template{tMod1, tMod2, tModPoor},
			AlphaOpts{RespKinds: []string{"ok", "bad"}, ModOps: []string{"mpause", "mstart"}}, d, b, m), Oracles: []Oracle{oracleC09{}}})
		runs = append(runs, tightBalanceRun([]Oracle{oracleC09{}}, d, b, m))
		// an input whose text is not valid UTF-8 (refused by the unmodified module), and a restart along the way
		runs = append(runs, RunSpec{Name: "input-not-utf8+restart", Sc: restartable(withFunds(scLife(paramSet("0.1", "0.001"), []Template{tBadUTF8, tRep2}, AlphaOpts{RespKinds: []string{"ok"}, CtxOps: []string{"pause", "start"}}, d-2, b, m), 40, 5)), Oracles: []Oracle{oracleC09{}}})
		runs = append(runs, twoContextsOneUnaffordableRuns([]Oracle{oracleC09{}}, d-2, b-1, m)...)
		// failure path: a module that starts its contexts without looking at the answer (what the keeper wrote before
		// refusing stays), also after a restart from a zero-height export, where a one-shot context has no batch left
		runs = append(runs, RunSpec{Name: "mod-start-refusal-ignored", Sc: restartable(scMod(defaultParams(), []Template{tModOne, tMod1},
			AlphaOpts{RespKinds: []string{"ok"}, ModOps: []string{"mpause", "mstart!", "mkill"}}, d-2, b-1, m)), Oracles: []Oracle{oracleC09{}}})
		for _, fl := range []bool{false, true} {
			sc := scModPauseSiblings(defaultParams(), []Template{tModPoor, tMod1, tMod2}, AlphaOpts{RespKinds: []string{"ok"}, ModOps: []string{"mstart"}}, d-1, b-1, m)
			sc.FlipIDs = fl
			runs = append(runs, RunSpec{Name: fmt.Sprintf("mod-pause-siblings-in-callback(flip=%v)", fl), Sc: sc, Oracles: []Oracle{oracleC09{}}})
		}
		// the owning module creates two contexts while handling one message (same transaction hash and message index)
		runs = append(runs, RunSpec{Name: "mod-two-creates-in-one-message", Sc: scMod(defaultParams(), []Template{tMod1, tModDup},
			AlphaOpts{RespKinds: []string{"ok"}, ModOps: []string{"mpause", "mkill"}}, d-1, b-1, m), Oracles: []Oracle{oracleC09{}}})
		runs = append(runs, RunSpec{Name: "mod-kill-in-response-callback", Sc: scModSelfKill(defaultParams(), []Template{tMod1, tMod2},
			AlphaOpts{RespKinds: []string{"ok", "bad"}, ModOps: []string{"mpause", "mstart"}}, d-1, b-1, m), Oracles: []Oracle{oracleC09{}}})
		return runs
	}})
	register(&CheckSpec{Prop: "C10", Runs: func(tier string) []RunSpec {
		d, b, m := bump(tier, 9, 7, 2)
		o := []Oracle{oracleC10{}}
		mf := MonFlags{Ctx: true}
		ctlO := AlphaOpts{RespKinds: []string{"ok"}, CtxOps: []string{"pause", "start", "kill"}, Updates: []CtxUpdate{updTotalUp, updTotalInf, updTimeout2, updFreq2}}
		runs := []RunSpec{
			{Name: "cadence-rep2+inf", Sc: withFunds(scLife(paramSet("0.1", "0.001"), []Template{tRep2, tInf}, ctlO, d, b, m), 40, 5), Oracles: o, Mon: mf},
			{Name: "cadence-rep1+long+f3", Sc: withFunds(scLife(paramSet("0.1", "0.001"), []Template{tRep1, tLong, tF3}, AlphaOpts{RespKinds: []string{"ok"}, CtxOps: []string{"pause", "start"}, Updates: []CtxUpdate{updTotalUp}}, d, b, m), 40, 5), Oracles: o, Mon: mf},
			{Name: "frequency-boundaries", Sc: withFunds(scLife(paramSet("0.1", "0.001"), []Template{tHuge, tMax, tBig, tOneTot}, AlphaOpts{CtxOps: []string{"pause", "start"}}, 5, 4, 2), 40, 5), Oracles: o, Mon: mf},
		}
		runs = append(runs, runsOf(lifeRuns(tier), o, mf)...)
		runs = append(runs, modSelfStartRun(o, mf, d-1, b, m))
		runs = append(runs, twoCreatesRun(o, mf, d-2, b-2, m))
		runs = append(runs, RunSpec{Name: "many-contexts-due-in-one-block", Sc: scManyContexts(paramSet("0.1", "0.001"), 4, 3, 2), Oracles: o, Mon: mf, Conform: 8})
		return runs
	}})
	register(&CheckSpec{Prop: "C11", Runs: func(tier string) []RunSpec {
		d, b, m := bump(tier, 9, 6, 2)
		o := []Oracle{oracleC11{}}
		ctlO := AlphaOpts{RespKinds: []string{"ok"}, CtxOps: []string{"pause", "start", "kill"}, Updates: []CtxUpdate{updTotalUp, updTotalInf, updTimeout2, updFreq2}}
		runs := []RunSpec{
			{Name: "life-events", Sc: withFunds(scLife(paramSet("0.1", "0.001"), []Template{tRep2, tInf, tPoor}, ctlO, d-1, b, m), 40, 1), Oracles: o},
			{Name: "frequency-boundaries", Sc: withFunds(scLife(paramSet("0.1", "0.001"), []Template{tHuge, tMax, tBig, tOneTot}, AlphaOpts{CtxOps: []string{"pause", "start"}}, 5, 4, 2), 40, 5), Oracles: o},
		}
		runs = append(runs, runsOf(lifeRuns(tier), o, MonFlags{})...)
		// the owning module, told that one context was paused for lack of funds, starts its other (paused) contexts from
		// inside that state callback (both processing orders)
		for _, fl := range []bool{false, true} {
			sc := scMod(defaultParams(), []Template{tModPoor, tMod1, tMod2}, AlphaOpts{RespKinds: []string{"ok"}, ModOps: []string{"mpause"}}, d-1, b-1, m)
			sc.Name, sc.Rig.ReentrantStartSiblings, sc.FlipIDs = "S-MOD(start siblings in callback)", true, fl
			runs = append(runs, RunSpec{Name: fmt.Sprintf("mod-start-siblings-in-callback(flip=%v)", fl), Sc: sc, Oracles: o})
		}
		// governance lifts the timeout bound to the largest value the parameter store accepts; calls then use it
		runs = append(runs, govMaxTimeoutExtremesRun(o, MonFlags{}))
		runs = append(runs, modSelfStartRun(o, MonFlags{}, d-1, b, m), timeoutBoundariesRun(o, MonFlags{}))
		// the owning module answers the failed batch of one context by starting its other (paused) contexts (both processing orders)
		for _, fl := range []bool{false, true} {
			sc := scMod(paramSet("0.1", "0.001"), []Template{tModGap2, tMod2}, AlphaOpts{RespKinds: []string{"ok"}, ModOps: []string{"mpause"}}, d-1, b, m)
			sc.Name, sc.Rig.ReentrantRespStartSibs, sc.FlipIDs = "S-MOD(start siblings in response callback)", true, fl
			runs = append(runs, RunSpec{Name: fmt.Sprintf("mod-start-siblings-in-response-callback(flip=%v)", fl), Sc: withFunds(sc, 40, 5), Oracles: o})
		}
		// the owning module starts a context again from inside the "paused: insufficient balances" state callback
		runs = append(runs, RunSpec{Name: "mod-restart-in-callback", Sc: scModRestart(defaultParams(), []Template{tMod1, tModPoor},
			AlphaOpts{RespKinds: []string{"ok"}, ModOps: []string{"mpause", "mstart"}}, d-1, b-1, m), Oracles: o, Mon: MonFlags{Restart: true}})
		return runs
	}})
	register(&CheckSpec{Prop: "C12", Runs: func(tier string) []RunSpec {
		d, b, m := bump(tier, 8, 5, 2)
		o := []Oracle{oracleC12{}}
		modO := AlphaOpts{RespKinds: []string{"ok", "bad", "noout"}, ModOps: []string{"mpause", "mstart", "mkill"}, ModUpdates: []CtxUpdate{{Name: "thr1", Threshold: 1}, {Name: "thr2", Threshold: 2}}}
		runs := []RunSpec{
			{Name: "mod-callbacks", Sc: scMod(defaultParams(), []Template{tMod1, tMod2, tModPoor}, modO, d, b, m), Oracles: o, Mon: MonFlags{CB: true}},
			{Name: "mod-callbacks-oneshot+cap", Sc: scMod(defaultParams(), []Template{tModOne, tModCap}, modO, d, b, m+1), Oracles: o, Mon: MonFlags{CB: true}},
		}
		runs = append(runs, runsOf(lifeRuns(tier), o, MonFlags{CB: true})...)
		// the owning module starts a paused context again from inside the response callback of its failed batch
		runs = append(runs, modSelfStartRun(o, MonFlags{CB: true}, d, b+1, m))
		runs = append(runs, twoCreatesRun(o, MonFlags{CB: true}, d-1, b-1, m))
		runs = append(runs, RunSpec{Name: "batch-counter-255", Sc: scCounter255(paramSet("0.1", "0.001"), 7, 5, 2), Oracles: o, Mon: MonFlags{CB: true}})
		runs = append(runs, timeoutBoundariesRun(o, MonFlags{CB: true}))
		return runs
	}})
	register(&CheckSpec{Prop: "C13", Runs: func(tier string) []RunSpec {
		d, b, m := bump(tier, 7, 3, 4)
		o := []Oracle{oracleC13{}}
		runs := []RunSpec{{Name: "fees", Sc: scFees(paramSet("0.1", "0.001"), true, d, b, m), Oracles: o},
			{Name: "fees-after-refund", Sc: scFeesRefund(paramSet("0.1", "0.001"), d-1, b, m-1), Oracles: o},
			{Name: "fees-provider-is-owner", Sc: scFeesSelf(paramSet("0.1", "0.001"), d-1, b, m), Oracles: o},
			{Name: "fees-provider-lengths", Sc: scFeesLengths(paramSet("0.1", "0.001"), d-1, b, m), Oracles: o},
			{Name: "fees-tax-zero", Sc: scFees(paramSet("0", "0.001"), false, d-1, b, m-1), Oracles: o},
			{Name: "fees-restart", Sc: restartable(scFees(paramSet("0.1", "0.001"), true, d-1, b+1, m-1)), Oracles: o},
			{Name: "many-providers-of-one-owner", Sc: scManyProviders(paramSet("0.1", "0.001"), 4, 2, 3), Oracles: o, Conform: 4},
			{Name: "fees-provider-lengths-restart", Sc: restartable(scFeesLengths(paramSet("0.1", "0.001"), d-1, b+1, m-1)), Oracles: o}}
		runs = append(runs, runsOf(lifeRuns(tier), o, MonFlags{}, "life-main", "life-control", "mod-main", "life-restart", "fx-main")...)
		return runs
	}})
	register(&CheckSpec{Prop: "C14", Runs: func(tier string) []RunSpec {
		d, b, m := bump(tier, 7, 4, 3)
		o := []Oracle{oracleC14{}}
		runs := []RunSpec{
			{Name: "bind-ops+slash", Sc: scBind(defaultParams(), bindOpsFull(), []Template{tSlash}, []string{"bad"}, d, b, m), Oracles: o},
			{Name: "bind-ops+two-failures", Sc: scBind(paramSet("0.1", "0.25"), bindOpsSmall(), []Template{tSlash2}, []string{"bad", "ok"}, d+1, b+1, 2), Oracles: o},
			// a request made in super mode that is answered with an invalid output is slashed inside the response message
			{Name: "super-mode-bad-response", Sc: scBind(defaultParams(), []Action{actBind("a", "P1", "O1", 10, "p1", 1), actBind("a", "P1", "O1", 40, "p20", 1), actEnable("a", "P1", "O1", 0)},
				[]Template{tSlashSuper, tSlash}, []string{"bad"}, d, b, m), Oracles: o},
		}
		// one provider serving two services with different prices: each binding's minimum follows its own price
		two := scBind(paramSet("0.1", "0.1"), []Action{actBind("a", "P1", "O1", 40, "p20", 1), actBind("ab", "P1", "O1", 10, "p1", 1),
			actBind("a", "P1", "O1", 10, "p1", 1), actBind("ab", "P1", "O1", 40, "p20", 1), actUpdate("a", "P1", "O1", 0, "", 2), actDisable("a", "P1", "O1"), actEnable("a", "P1", "O1", 0)},
			[]Template{tSlash}, []string{"bad"}, d+1, b, m)
		two.Name, two.Setup = "S-BIND(two services)", []Action{actDefine("a", "AU"), actDefine("ab", "AU")}
		runs = append(runs, RunSpec{Name: "two-services-one-provider", Sc: two, Oracles: o})
		// governance raises the minimum deposit / the multiple while bindings exist: later operations are judged under the new values
		for _, g := range []ParamSet{func() ParamSet { p := defaultParams(); p.MinDeposit, p.Name = 50, "gov-min-deposit-50"; return p }(),
			func() ParamSet { // two denominations, not sorted (refused by the unmodified validator): the keeper would no longer find the base amount
				p := defaultParams()
				p.MinDepositCoins, p.Name = sdk.Coins{sdk.NewInt64Coin(denom, 10), sdk.NewInt64Coin("gas", 1)}, "gov-min-deposit-unsorted"
				return p
			}(),
			func() ParamSet { p := defaultParams(); p.Multiple, p.Name = 4, "gov-multiple-4"; return p }()} {
			sc := scBind(defaultParams(), nil, []Template{tSlash}, []string{"bad"}, d, b, m)
			sc.Alpha = lifeAlpha(AlphaOpts{RespKinds: []string{"bad"}, ParamChanges: []ParamSet{g}, BindOps: []Action{
				actBind("a", "P1", "O1", 10, "p1", 1), actBind("a", "P1", "O1", 40, "p20", 1), actBind("a", "P2", "O2", 5, "p1", 1), // 5: below the global minimum, above price x multiple
				actUpdate("a", "P1", "O1", 10, "", 0), actUpdate("a", "P1", "O1", 40, "", 0), actUpdate("a", "P1", "O1", 0, "", 2), actUpdate("a", "P1", "O1", 0, "p1", 0),
				actDisable("a", "P1", "O1"), actEnable("a", "P1", "O1", 0), actEnable("a", "P1", "O1", 40)}})
			sc.Name, sc.GovRaisesMinimum = "S-BIND("+g.Name+")", true
			runs = append(runs, RunSpec{Name: g.Name, Sc: sc, Oracles: o})
		}
		// (bindings of module services are installed by the host chain with a zero deposit, not by a message: the invariant skips them)
		runs = append(runs, runsOf(lifeRuns(tier), o, MonFlags{}, "life-main", "life-caplow-flipped", "price-subunit+zero", "mod-main", "msvc", "life-restart", "fx-main", "fx-rate-unavailable")...)
		runs = append(runs, RunSpec{Name: "bind-ops+slash-restart", Sc: restartable(scBind(defaultParams(), bindOpsFull(), []Template{tSlash}, []string{"bad"}, d, b, m-1)), Oracles: o})
		runs = append(runs, RunSpec{Name: "bind-ops-main-unit+foreign-token", Sc: scBindFX(defaultParams(), d, b, m), Oracles: o})
		{
			// the shipped multiple (200) with prices whose product with it passes 2^63 and 2^64
			p := defaultParams()
			p.Multiple, p.Name = 200, "multiple-200"
			sc := scBind(p, []Action{actBindBig("a", "P1", "O1", "6000", "92233720368547759", 1), actBindBig("a", "P1", "O1", "6000", "46116860184273880", 1), actBind("a", "P1", "O1", 6000, "p20", 1),
				actUpdateBigPrice("a", "P1", "O1", "92233720368547759"), actDisable("a", "P1", "O1"), actEnable("a", "P1", "O1", 0)}, []Template{tSlash}, []string{"bad"}, d-1, b, m)
			sc.Funds = append(sc.Funds, Funding{O1, 100000})
			sc.Name = "S-BIND(multiple 200, price x multiple around 2^63 and 2^64)"
			runs = append(runs, RunSpec{Name: "bind-ops-price-times-multiple-beyond-int64", Sc: sc, Oracles: o})
		}
		if tier == "thorough" {
			p := defaultParams()
			p.MinDeposit, p.Multiple, p.Name = 3, 5, "min3-mult5"
			runs = append(runs, RunSpec{Name: "bind-ops-other-minimum", Sc: scBind(p, bindOpsFull(), []Template{tSlash}, []string{"bad"}, d, b, m), Oracles: o})
		}
		return runs
	}})
	register(&CheckSpec{Prop: "C16", Runs: func(tier string) []RunSpec {
		d, b, m := bump(tier, 8, 5, 2)
		runs := runsOf(lifeRuns(tier), []Oracle{oracleC16{}}, MonFlags{Kill: true})
		// contexts killed by their owning module from inside a callback, in the block in which their batch expires
		runs = append(runs, RunSpec{Name: "mod-reentrant", Sc: scModReentrant(defaultParams(), []Template{tMod1, tMod2, tModPoor},
			AlphaOpts{RespKinds: []string{"ok", "bad"}, ModOps: []string{"mpause", "mstart"}}, d, b, m), Oracles: []Oracle{oracleC16{}}, Mon: MonFlags{Kill: true}})
		runs = append(runs, twoCreatesRun([]Oracle{oracleC16{}}, MonFlags{Kill: true}, d-1, b-1, m))
		runs = append(runs, RunSpec{Name: "batch-counter-255", Sc: scCounter255(paramSet("0.1", "0.001"), 7, 5, 2), Oracles: []Oracle{oracleC16{}}, Mon: MonFlags{Kill: true}})
		runs = append(runs, timeoutBoundariesRun([]Oracle{oracleC16{}}, MonFlags{Kill: true}))
		return runs
	}})
	register(&CheckSpec{Prop: "C05", Runs: func(tier string) []RunSpec {
		d := 0
		if tier == "thorough" {
			d = 2
		}
		lifeW := AlphaOpts{RespKinds: []string{"ok"}, RespWrong: true, CtxOps: []string{"pause", "start", "kill"}, CtxWrong: true, Updates: []CtxUpdate{updTotalUp}}
		modW := AlphaOpts{RespKinds: []string{"ok"}, CtxOps: []string{"pause", "start", "kill"}, Updates: []CtxUpdate{updTotalUp}, ConsumerOnMod: true,
			ModOps: []string{"mpause", "mstart", "mkill"}}
		o := []Oracle{oracleC05{}}
		runs := []RunSpec{
			{Name: "bind-auth", Sc: scBindAuth(defaultParams(), 6+d, 3, 4), Oracles: o},
			{Name: "life-auth", Sc: scLife(defaultParams(), []Template{tOne, tRep2, tPoor}, lifeW, 7+d, 4, 2), Oracles: o},
			{Name: "mod-auth", Sc: scMod(defaultParams(), []Template{tMod1, tModPoor}, modW, 7+d, 4, 2), Oracles: o},
			{Name: "fees-auth", Sc: scFees(paramSet("0.1", "0.001"), true, 6+d, 3, 3), Oracles: o},
			{Name: "fees-provider-is-owner", Sc: scFeesSelf(paramSet("0.1", "0.001"), 6+d, 3, 3), Oracles: o},
			{Name: "msvc-reserved", Sc: scMsvc(defaultParams(), 5+d, 3, 3), Oracles: o},
			msvcPoorRun(o, 5+d, 3, 3),
			{Name: "bind-auth-restart", Sc: restartable(scBindAuth(defaultParams(), 6+d, 3, 3)), Oracles: o},
			{Name: "fees-auth-restart", Sc: restartable(scFees(paramSet("0.1", "0.001"), true, 5+d, 3, 2)), Oracles: o},
			{Name: "two-module-services-reserved", Sc: scMsvcTwo(defaultParams(), 4+d, 2, 4), Oracles: o},
		}
		// a module that pauses its other contexts from inside the state callback of one that cannot pay
		for _, fl := range []bool{false, true} {
			sc := scModPauseSiblings(defaultParams(), []Template{tModPoor, tMod1, tMod2}, AlphaOpts{RespKinds: []string{"ok"}, ModOps: []string{"mstart"}}, 6+d, 4, 2)
			sc.FlipIDs = fl
			runs = append(runs, RunSpec{Name: fmt.Sprintf("mod-pause-siblings-in-callback(flip=%v)", fl), Sc: sc, Oracles: o})
		}
		// a consumer who can pay the first provider of a due batch but not the whole batch (nothing may be taken from it)
		runs = append(runs, twoContextsOneUnaffordableRuns(o, 6+d, 4, 2)...)
		runs = append(runs, runsOf(lifeRuns(tier), o, MonFlags{})...)
		return runs
	}})
	register(&CheckSpec{Prop: "C15", Runs: func(tier string) []RunSpec {
		d := 0
		if tier == "thorough" {
			d = 2
		}
		o := []Oracle{oracleC15{}}
		return []RunSpec{
			{Name: "names", Sc: scNames(defaultParams(), 6+d, 3, 4+d), Oracles: o},
			{Name: "later-operations", Sc: scLife(defaultParams(), []Template{tOne, tRep2}, AlphaOpts{RespKinds: []string{"ok", "bad"}, CtxOps: []string{"pause", "start", "kill"}, Withdraw: []string{"O1:"},
				BindOps: []Action{actDisable("a", "P1", "O1"), actEnable("a", "P1", "O1", 0), actUpdate("a", "P2", "O2", 0, "p3vv", 0), actUpdate("a", "P1", "O1", 0, "p1tp", 0), actUpdate("a", "P2", "O2", 0, "p1t", 0),
					actUpdate("a", "P2", "O2", 0, "p4vd", 0), actUpdate("a", "P1", "O1", 0, "p4tr", 0)}}, 7+d, 4, 2), Oracles: o}, // p4vd, p4tr: pass the schema, refused by the keeper's rules for price terms
			{Name: "bind-ops+slash", Sc: scBind(defaultParams(), bindOpsFull(), []Template{tSlash}, []string{"bad"}, 6+d, 4, 3), Oracles: o},
			{Name: "bind-ops+slash-all", Sc: scBind(paramSet("0.5", "1"), bindOpsSmall(), []Template{tSlash2}, []string{"bad"}, 6+d, 4, 2), Oracles: o},
			{Name: "slash-after-refund", Sc: scBind(defaultParams(), []Action{actBind("a", "P1", "O1", 10, "p1", 1), actDisable("a", "P1", "O1"), actRefund("a", "P1", "O1")}, []Template{tSlash3}, []string{"bad"}, 8+d, 5, 2), Oracles: o},
			{Name: "huge-deposits", Sc: scHugeDeposits(defaultParams(), 6+d, 3, 4), Oracles: o},
			{Name: "names-restart", Sc: restartable(scNames(defaultParams(), 6+d, 3, 3)), Oracles: o},
			{Name: "bind-ops-main-unit+foreign-token", Sc: scBindFX(defaultParams(), 6+d, 3, 3), Oracles: o},
		}
	}})
	register(&CheckSpec{Prop: "C17", Runs: func(tier string) []RunSpec {
		d := 0
		if tier == "thorough" {
			d = 2
		}
		o := []Oracle{oracleC17{}}
		lo := AlphaOpts{RespKinds: []string{"ok", "bad", "utf8"}, CtxOps: []string{"pause", "kill"}, Updates: []CtxUpdate{updTimeout2}, Withdraw: []string{"O1:P1"}, SetW: []string{"O1:W1"},
			BindOps: []Action{actDisable("a", "P1", "O1")}}
		return []RunSpec{
			{Name: "names-queries", Sc: scNames(defaultParams(), 5+d, 3, 4), Oracles: o, Post: queryPost},
			{Name: "life-queries", Sc: scLife(defaultParams(), []Template{tOne, tRep2, tLong}, lo, 6+d, 4, 2), Oracles: o, Post: queryPost},
			{Name: "fees-queries", Sc: func() *Scenario {
				sc := scFees(paramSet("0.1", "0.001"), false, 4+d, 3, 3)
				base := sc.Alpha
				sc.Alpha = func(sc *Scenario, v *View) []Action { return append(base(sc, v), actSetW("O1", "FEE")) } // another module's account as withdrawal address
				return sc
			}(), Oracles: o, Post: queryPost},
			{Name: "fees-queries-base-denom-changed", Sc: func() *Scenario {
				// the records written before a change of the BaseDenom parameter are still what the queries must return
				g := paramSet("0.1", "0.001")
				g.BaseDenom, g.Name = "foo", "gov-base-denom-foo"
				sc := scFees(paramSet("0.1", "0.001"), false, 4+d, 3, 3)
				sc.Alpha = lifeAlpha(AlphaOpts{RespKinds: []string{"ok"}, Withdraw: []string{"O1:P1"}, ParamChanges: []ParamSet{g}})
				return sc
			}(), Oracles: o, Post: queryPost},
			{Name: "mod-queries", Sc: scMod(defaultParams(), []Template{tMod1, tModPoor}, AlphaOpts{RespKinds: []string{"ok"}, ModOps: []string{"mpause", "mkill"}}, 6+d, 4, 2), Oracles: o, Post: queryPost},
			{Name: "msvc-queries", Sc: scMsvc(defaultParams(), 4+d, 3, 3), Oracles: o, Post: queryPost},
			// failure path: while answering, the host module asks for a context of its own under the same message (refused) and carries on
			func() RunSpec {
				sc := scMsvc(defaultParams(), 4+d, 3, 3)
				sc.Name = "S-MSVC(host module creates a context while answering)"
				sc.Rig.ModuleServices[0].CreatesContext = true
				return RunSpec{Name: "msvc-host-creates-context-queries", Sc: sc, Oracles: o, Post: queryPost}
			}(),
			{Name: "many-bindings-queries", Sc: scManyBindings(defaultParams(), 2, 1, 2), Oracles: o, Post: queryPost, Conform: 4},
			{Name: "life-queries-restart", Sc: restartable(scLife(defaultParams(), []Template{tRep2, tLong}, lo, 6+d, 4, 2)), Oracles: o, Post: queryPost},
			{Name: "fx-queries", Sc: scFX(defaultParams(), "fusd1v", []Template{tFxOne, tFxRep}, AlphaOpts{RespKinds: []string{"ok"}, Withdraw: []string{"O1:"},
				BindOps: []Action{actUpdate("a", "P1", "O1", 0, "fcent150", 0), actUpdate("a", "P2", "O2", 0, "fkilo1h", 0)}}, fxSpec(), 5+d, 3, 2), Oracles: o, Post: queryPost},
		}
	}})
	register(&CheckSpec{Prop: "C18", Runs: func(tier string) []RunSpec {
		o := []Oracle{oracleC18{}}
		d, b, m := bump(tier, 8, 5, 2)
		eo := AlphaOpts{RespKinds: []string{"ok"}, CtxOps: []string{"pause", "start"}, Updates: []CtxUpdate{updCap1, updProvP2, updTimeout2},
			BindOps: []Action{actDisable("a", "P1", "O1"), actEnable("a", "P1", "O1", 0), actUpdate("a", "P1", "O1", 30, "p20", 0)}}
		runs := []RunSpec{
			{Name: "life-ids+positions", Sc: scLife(defaultParams(), []Template{tOne, tRep2, tPoor}, eo, d, b, m), Oracles: o},
			{Name: "life-ids-flipped", Sc: flip(scLife(defaultParams(), []Template{tCapLow, tLong}, eo, d, b, m)), Oracles: o},
		}
		runs = append(runs, runsOf(lifeRuns(tier), o, MonFlags{})...)
		runs = append(runs, RunSpec{Name: "mod-two-creates-in-one-message", Sc: scMod(defaultParams(), []Template{tMod1, tModDup, tModP, tModDupP},
			AlphaOpts{RespKinds: []string{"ok"}, ModOps: []string{"mstart"}}, d-2, b-1, m), Oracles: o})
		return runs
	}, Pure: keysAndIDs})
	register(&CheckSpec{Prop: "C19", Runs: func(tier string) []RunSpec {
		d := 0
		if tier == "thorough" {
			d = 2
		}
		o := []Oracle{oracleC19{}}
		mainO := AlphaOpts{RespKinds: []string{"ok", "bad"}, CtxOps: []string{"pause", "kill"}, Updates: []CtxUpdate{updTimeout3, {Name: "cap0", CapZero: true}}, Withdraw: []string{"O1:P1"}, SetW: []string{"O1:W1", "XX:W1"}, // XX owns no binding; cap0: the fee cap given as 0stake
			BindOps: []Action{actDisable("a", "P1", "O1"), actRefund("a", "P1", "O1"), actUpdate("a", "P2", "O2", 0, "p5", 0), actUpdate("a", "P2", "O2", 0, "p1te", 0)}} // p1te: a promotion that ends along the way
		return []RunSpec{
			{Name: "life-export-points", Sc: scLife(defaultParams(), []Template{tOne, tRep2, tPoor}, mainO, 6+d, 4, 2), Oracles: o, Post: genesisPost},
			{Name: "fees-export-points", Sc: scFees(paramSet("0.1", "0.001"), false, 5+d, 3, 3), Oracles: o, Post: genesisPost},
			{Name: "fees-self-export-points", Sc: scFeesSelf(paramSet("0.1", "0.001"), 5+d, 3, 3), Oracles: o, Post: genesisPost},
			{Name: "names-export-points", Sc: scNames(defaultParams(), 5+d, 3, 4), Oracles: o, Post: genesisPost},
			{Name: "mod-export-points", Sc: scMod(defaultParams(), []Template{tMod1, tModPoor}, AlphaOpts{RespKinds: []string{"ok"}, ModOps: []string{"mpause", "mkill"}}, 6+d, 4, 2), Oracles: o, Post: genesisPost},
			// failure path: a consumer who cannot pay and an owning module that starts the context again inside the callback
			{Name: "mod-restart-in-callback-export-points", Sc: scModRestart(defaultParams(), []Template{tMod1, tModPoor}, AlphaOpts{RespKinds: []string{"ok"}, ModOps: []string{"mpause", "mstart"}}, 5+d, 4, 2), Oracles: o, Post: genesisPost},
			{Name: "price-zero-export-points", Sc: scPrice(paramSet("0.1", "0.001"), "p1v", "p0", []Template{tOne, tRep2}, AlphaOpts{RespKinds: []string{"ok"}}, 4+d, 3, 2), Oracles: o, Post: genesisPost},
			{Name: "msvc-export-points", Sc: scMsvc(defaultParams(), 4+d, 3, 3), Oracles: o, Post: genesisPost},
			{Name: "life-restart-export-points", Sc: restartable(scLife(defaultParams(), []Template{tRep2, tLong}, mainO, 6+d, 4, 2)), Oracles: o, Post: genesisPost},
			{Name: "fx-export-points", Sc: scFX(defaultParams(), "fusd1v", []Template{tFxOne, tFxRep}, AlphaOpts{RespKinds: []string{"ok"}, CtxOps: []string{"pause"}, Withdraw: []string{"O1:"},
				BindOps: []Action{actUpdate("a", "P1", "O1", 0, "fcent150", 0), actUpdate("a", "P2", "O2", 0, "fkilo1h", 0)}}, fxSpec(), 5+d, 3, 2), Oracles: o, Post: genesisPost},
			// deposits slashed to exactly nothing: slash fraction 1, and a slash after the deposit was taken back
			{Name: "slash-all-export-points", Sc: scBind(paramSet("0.5", "1"), bindOpsSmall(), []Template{tSlash2}, []string{"bad"}, 5+d, 3, 2), Oracles: o, Post: genesisPost},
			func() RunSpec {
				r := slashAfterRefundRun(o, MonFlags{})
				r.Name, r.Post = "slash-after-refund-export-points", genesisPost
				return r
			}(),
		}
	}, Pure: paramGrid})
	register(&CheckSpec{Prop: "C20", Runs: func(tier string) []RunSpec {
		d := 0
		if tier == "thorough" {
			d = 2
		}
		o := []Oracle{oracleC20{}}
		var runs []RunSpec
		for _, r := range runsOf(lifeRuns(tier), o, MonFlags{}) {
			r.Sc.Depth--
			if r.Name == "life-restart" {
				r.Sc.Depth -= 2 // every transition is executed several times here (second instance, map orders)
			}
			r.DetCheck = true
			runs = append(runs, r)
		}
		runs = append(runs,
			RunSpec{Name: "fees-panics", Sc: scFees(paramSet("0.1", "0.001"), true, 6+d, 3, 3), Oracles: o, DetCheck: true},
			RunSpec{Name: "bind-panics", Sc: scBind(defaultParams(), bindOpsFull(), []Template{tSlash2}, []string{"bad"}, 6+d, 4, 3), Oracles: o, DetCheck: true},
			RunSpec{Name: "names-panics", Sc: scNames(defaultParams(), 6+d, 3, 4), Oracles: o, DetCheck: true},
			RunSpec{Name: "huge-values", Sc: scHuge(defaultParams(), 6+d, 4, 2), Oracles: o, DetCheck: true},
			func() RunSpec { r := priceFractionsRun(o, MonFlags{}, 7+d, 4, 2); r.DetCheck = true; return r }(),
			func() RunSpec { r := priceUpdateRejectedRun(o, MonFlags{}, 6+d, 4, 2); r.DetCheck = true; return r }(),
			// a module that re-asks from inside its response callback (also when that callback runs at end of block)
			func() RunSpec {
				sc := scMod(defaultParams(), []Template{tMod1, tMod2}, AlphaOpts{RespKinds: []string{"ok", "bad"}}, 6+d, 4, 2)
				sc.Name, sc.Rig.ReentrantCreate = "S-MOD(create in callback)", true
				return RunSpec{Name: "mod-create-in-callback", Sc: sc, Oracles: o, DetCheck: true}
			}(),
			RunSpec{Name: "genesis-import-orders", Sc: withFunds(scLife(paramSet("0.1", "0.001"), []Template{tRep2, tInf}, AlphaOpts{CtxOps: []string{"pause"}, SetW: []string{"O1:W1", "O2:W1"}}, 4+d, 2, 4), 40, 5),
				Oracles: o, Post: mapGenesisPost, Conform: -1},
		)
		return runs
	}, Pure: inputGrid, Notes: []string{
		"independence of Go map iteration order is decided by executing every transition twice (the runtime randomises each map range), not by enumerating all orders of the six map ranges in the module (DESIGN 3.7)",
		"independence of process: explored paths are re-executed on the full SimApp (different store implementation, module manager, commits) and must give the same service store",
	}})
}

func flip(sc *Scenario) *Scenario { sc.FlipIDs = true; return sc }

// restartable: the chain may be restarted once from a zero-height export along the way (restart.go).
// timeJumps: block times may also advance by three seconds at once.
func timeJumps(sc *Scenario) *Scenario {
	sc.TimeJump = 3
	sc.Name += "+time jumps"
	return sc
}

func restartable(sc *Scenario) *Scenario {
	sc.Restart = true
	sc.Name += "+restart"
	return sc
}

// bindOpsSmall: two bound providers with a comfortable deposit, disable/enable/refund — for multi-failure slashes.
func bindOpsSmall() []Action {
	return []Action{
		actBind("a", "P1", "O1", 40, "p5", 1),
		actBind("a", "P2", "O2", 10, "p1", 1),
		actDisable("a", "P1", "O1"),
		actEnable("a", "P1", "O1", 0),
		actRefund("a", "P1", "O1"),
		actUpdate("a", "P1", "O1", 30, "", 0),
	}
}

// The boundary-input grid (S-INPUT) also evaluates the state invariants of these properties on every state a
// boundary-shaped message reaches.
func init() {
	for _, o := range []Oracle{oracleC01{}, oracleC03{}, oracleC11{}, oracleC13{}, oracleC14{}, oracleC15{}, oracleC16{}} {
		c := checks[o.Prop()]
		if c.Pure == nil {
			c.Pure = inputGridInv(o)
		}
	}
}

// runs shared by several money / pricing properties (not part of the lifecycle library: they add nothing to the others)

// slashAfterRefundRun: the owner disables the binding and takes the deposit back while a request is still pending;
// the request then times out against a binding without deposit.
func slashAfterRefundRun(o []Oracle, mon MonFlags) RunSpec {
	return RunSpec{Name: "slash-after-refund", Sc: scBind(defaultParams(), []Action{actBind("a", "P1", "O1", 10, "p1", 1), actDisable("a", "P1", "O1"), actRefund("a", "P1", "O1")},
		[]Template{tSlash3}, []string{"bad"}, 8, 5, 2), Oracles: o, Mon: mon}
}

// priceFractionsRun: discounted prices 2.8 (4 x 0.7) and 1.5 (5 x 0.3), a published price of 1.5 (stored as 1).
var tRep2c10 = Template{Name: "rep2c10", Consumer: "C1", Service: "a", Providers: []string{"P1", "P2"}, Cap: 10, Timeout: 1, Repeated: true, Freq: 1, Total: 2}

func priceFractionsRun(o []Oracle, mon MonFlags, d, b, m int) RunSpec {
	return RunSpec{Name: "price-fractions", Sc: withFunds(scPrice(paramSet("0.1", "0.001"), "p4v7", "p5v3", []Template{tRep2c10, tOne},
		AlphaOpts{RespKinds: []string{"ok", "bad"}, BindOps: []Action{actUpdate("a", "P1", "O1", 0, "p1h", 0)}}, d, b, m), 40, 5), Oracles: o, Mon: mon}
}

// tightBalanceRun: provider P2 is priced above the context's cap after its owner's update, P1 stays within it; the
// consumer's balance lies between the price of the real batch (P1 only) and the sum over all listed providers.
var tTight = Template{Name: "tight", Consumer: "C1", Service: "a", Providers: []string{"P1", "P2"}, Cap: 2, Timeout: 1, Repeated: true, Freq: 1, Total: 2}

func tightBalanceRun(o []Oracle, d, b, m int) RunSpec {
	return RunSpec{Name: "provider-above-cap+tight-balance", Sc: withFunds(scPrice(defaultParams(), "p2", "p1", []Template{tTight},
		AlphaOpts{RespKinds: []string{"ok"}, BindOps: []Action{actUpdate("a", "P2", "O2", 0, "p5", 0)}}, d-1, b, m), 6, 1), Oracles: o}
}

// fxBases: the foreign-denomination / main-unit scenarios (host chain with a token module and an exchange-rate service).
func fxBases(tier string) []base {
	d, b, m := bump(tier, 8, 5, 2)
	fxO := AlphaOpts{RespKinds: []string{"ok", "bad"}, CtxOps: []string{"pause", "start"}, Withdraw: []string{"O1:"},
		BindOps: []Action{actUpdate("a", "P1", "O1", 0, "fcent150", 0), actUpdate("a", "P1", "O1", 0, "fusd1v", 0), actUpdate("a", "P1", "O1", 0, "p2", 0),
			actUpdate("a", "P2", "O2", 0, "fkilo1h", 0), actUpdate("a", "P2", "O2", 0, "fyen", 0)}}
	return []base{
		{"fx-main", func() *Scenario {
			return scFX(defaultParams(), "fusd1", []Template{tFxOne, tFxRep, tFxPoor}, fxO, fxSpec(), d, b, m)
		}},
		{"fx-rate-unavailable", func() *Scenario {
			return scFX(paramSet("0.1", "0.001"), "fusd1v", []Template{tFxRep, tFxMix}, fxO, fxSpec(H0+2), d, b, m)
		}},
		{"fx-no-rate-service", func() *Scenario {
			// the host has a token module but no exchange-rate service at all: a foreign price can never be exchanged
			return scFX(paramSet("0.1", "0.001"), "fusd1", []Template{tFxOne, tFxRep}, AlphaOpts{RespKinds: []string{"ok"}, BindOps: []Action{actUpdate("a", "P1", "O1", 0, "p2", 0)}}, &FXSpec{NoService: true}, d-1, b, m)
		}},
		{"fx-mod-rate-unavailable", func() *Scenario {
			// a context owned by another module (callbacks recorded) whose only provider is priced in the foreign token
			return scFX(paramSet("0.1", "0.001"), "fusd1", []Template{tFxMod, tFxOne}, AlphaOpts{RespKinds: []string{"ok"}, ModOps: []string{"mpause", "mstart"}}, fxSpec(H0+2), d, b+1, m)
		}},
	}
}

// priceUpdateRejectedRun: price updates that pass every check on the pricing itself and are then refused for the
// deposit (20 x 2 > 10), next to accepted ones; calls within a cap that admits the refused price.
func priceUpdateRejectedRun(o []Oracle, mon MonFlags, d, b, m int) RunSpec {
	sc := scBind(paramSet("0.1", "0.001"), []Action{actUpdate("a", "P1", "O1", 0, "p20", 0), actUpdate("a", "P1", "O1", 0, "p5", 0), actUpdate("a", "P1", "O1", 30, "p20", 0),
		actDisable("a", "P1", "O1"), actEnable("a", "P1", "O1", 0)}, []Template{tSlash, tSlash2}, []string{"ok"}, d, b, m)
	sc.Name = "S-BIND(refused price updates)"
	sc.Setup = append(sc.Setup, actBind("a", "P1", "O1", 10, "p1", 1), actBind("a", "P2", "O2", 10, "p1", 1))
	return RunSpec{Name: "price-update-refused", Sc: sc, Oracles: o, Mon: mon}
}

// twoCreatesRun: the owning module calls CreateRequestContext a second time under the transaction hash and message
// index of an earlier call (template moddup shares them with mod1), in the same block or while mod1's batch is in flight.
func twoCreatesRun(o []Oracle, mon MonFlags, d, b, m int) RunSpec {
	return RunSpec{Name: "mod-two-creates-in-one-message", Sc: scMod(defaultParams(), []Template{tMod1, tModDup, tMod2, tModDup2},
		AlphaOpts{RespKinds: []string{"ok"}, ModOps: []string{"mpause", "mkill"}}, d, b, m), Oracles: o, Mon: mon}
}

// twoContextsOneUnaffordableRun: two contexts of the same consumer are due in one block; the consumer can pay one of them
// (1 to P2) but not the other (2 + 1); both processing orders.
var tPoorBoth = Template{Name: "poorboth", Consumer: "C2", Service: "a", Providers: []string{"P1", "P2"}, Cap: 5, Timeout: 1, Repeated: true, Freq: 1, Total: 2}
var tPoorP2 = Template{Name: "poorp2", Consumer: "C2", Service: "a", Providers: []string{"P2"}, Cap: 5, Timeout: 1, Repeated: true, Freq: 1, Total: 2}

// msvcPoorRun: S-MSVC where an account that holds no coins (and one that holds 1) calls the module service priced at 2.
var tMsvcNoCoins = Template{Name: "callmsnocoins", Consumer: "XX", Service: "ms", Providers: []string{"MSP"}, Cap: 5, Timeout: 1}
var tMsvcOneCoin = Template{Name: "callmsonecoin", Consumer: "C2", Service: "ms", Providers: []string{"MSP"}, Cap: 5, Timeout: 1}

func msvcPoorRun(o []Oracle, d, b, m int) RunSpec {
	sc := scMsvc(defaultParams(), d, b, m)
	sc.Name = "S-MSVC(consumers who cannot pay)"
	sc.Funds = []Funding{{O1, 100}, {O2, 100}, {C1, 60}, {C2, 1}}
	sc.Templates = []Template{tMsvcNoCoins, tMsvcOneCoin, tMsvc}
	return RunSpec{Name: "msvc-consumer-cannot-pay", Sc: sc, Oracles: o}
}

func twoContextsOneUnaffordableRuns(o []Oracle, d, b, m int) []RunSpec {
	var out []RunSpec
	for _, fl := range []bool{false, true} {
		sc := withFunds(scLife(defaultParams(), []Template{tPoorBoth, tPoorP2}, AlphaOpts{RespKinds: []string{"ok"}, CtxOps: []string{"start"}}, d, b, m), 6, 2)
		sc.FlipIDs = fl
		out = append(out, RunSpec{Name: fmt.Sprintf("two-contexts-one-unaffordable(flip=%v)", fl), Sc: sc, Oracles: o})
	}
	return out
}

// timeoutBoundariesRun: calls with a timeout of 0 and of -1, a module creating a context with a timeout of -3 (all
// refused by the unmodified module), next to an ordinary one.
func timeoutBoundariesRun(o []Oracle, mon MonFlags) RunSpec {
	return RunSpec{Name: "timeout-zero-and-negative", Sc: withFunds(scMod(paramSet("0.1", "0.001"), []Template{tT0, tTneg, tModTneg, tOne},
		AlphaOpts{RespKinds: []string{"ok"}}, 6, 4, 3), 40, 5), Oracles: o, Mon: mon}
}

func govMaxTimeoutExtremesRun(o []Oracle, mon MonFlags) RunSpec {
	g := paramSet("0.1", "0.001")
	g.MaxTimeout, g.Name = 1<<63-1, "gov-max-timeout-maxint64"
	g62 := paramSet("0.1", "0.001")
	g62.MaxTimeout, g62.Name = 1<<62, "gov-max-timeout-2^62"
	tm := []Template{{Name: "tmaxone", Consumer: "C1", Service: "a", Providers: []string{"P1"}, Cap: 5, Timeout: 1<<63 - 1},
		{Name: "tmaxrep", Consumer: "C1", Service: "a", Providers: []string{"P2"}, Cap: 5, Timeout: 1<<63 - 1, Repeated: true, Freq: 0, Total: 2},
		{Name: "t62one", Consumer: "C1", Service: "a", Providers: []string{"P1"}, Cap: 5, Timeout: 1 << 62},
		{Name: "t62rep", Consumer: "C1", Service: "a", Providers: []string{"P2"}, Cap: 5, Timeout: 1 << 62, Repeated: true, Freq: 0, Total: 2}}
	return RunSpec{Name: "gov-max-timeout-extremes", Sc: withFunds(scLife(paramSet("0.1", "0.001"), tm, AlphaOpts{RespKinds: []string{"ok"}, CtxOps: []string{"pause", "start"}, ParamChanges: []ParamSet{g, g62}}, 6, 4, 3), 40, 5), Oracles: o, Mon: mon}
}
