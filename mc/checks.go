package main

func init() {
	register(&CheckSpec{Prop: "C01", Runs: func(tier string) []RunSpec {
		o := AlphaOpts{RespKinds: []string{"ok", "bad", "noout"}, CtxOps: []string{"pause", "start", "kill"},
			Updates: []CtxUpdate{updTotalUp}, Withdraw: []string{"O1:", "O2:P2"}}
		if tier == "quick" {
			return []RunSpec{
				{Name: "life-one+rep2+poor", Sc: scLife(defaultParams(), []Template{tOne, tRep2, tPoor}, o, 8, 5, 2), Oracles: []Oracle{oracleC01{}}},
				{Name: "price-subunit+zero", Sc: scPrice(defaultParams(), "p1v", "p0", []Template{tOne, tRep2}, o, 8, 5, 2), Oracles: []Oracle{oracleC01{}}},
			}
		}
		return []RunSpec{
			{Name: "life-one+rep2+poor", Sc: scLife(defaultParams(), []Template{tOne, tRep2, tPoor}, o, 10, 6, 3), Oracles: []Oracle{oracleC01{}}},
		}
	}})
}

func init() {
	lifeO := AlphaOpts{RespKinds: []string{"ok", "bad", "noout"}, CtxOps: []string{"pause", "start", "kill"},
		Updates: []CtxUpdate{updTotalUp}, Withdraw: []string{"O1:", "O2:P2"}}
	register(&CheckSpec{Prop: "C02", Runs: func(tier string) []RunSpec {
		d, b, m := 8, 5, 2
		if tier == "thorough" {
			d, b, m = 10, 6, 3
		}
		return []RunSpec{
			{Name: "life-one+rep2+poor", Sc: scLife(defaultParams(), []Template{tOne, tRep2, tPoor}, lifeO, d, b, m), Oracles: []Oracle{oracleC02{}}},
			{Name: "price-subunit+zero", Sc: scPrice(paramSet("0.1", "0.001"), "p1v", "p0", []Template{tOne, tRep2}, lifeO, d, b, m), Oracles: []Oracle{oracleC02{}}},
		}
	}})
	register(&CheckSpec{Prop: "C03", Runs: func(tier string) []RunSpec {
		d, b, m := 7, 4, 3
		if tier == "thorough" {
			d, b, m = 9, 5, 4
		}
		return []RunSpec{
			{Name: "bind-ops+slash", Sc: scBind(defaultParams(), bindOpsFull(), []Template{tSlash}, []string{"bad"}, d, b, m), Oracles: []Oracle{oracleC03{}}},
		}
	}})
	register(&CheckSpec{Prop: "C04", Runs: func(tier string) []RunSpec {
		d, b, m := 7, 4, 3
		if tier == "thorough" {
			d, b, m = 9, 5, 4
		}
		return []RunSpec{
			{Name: "bind-ops+slash", Sc: scBind(defaultParams(), bindOpsFull(), []Template{tSlash}, []string{"bad", "ok"}, d, b, m), Oracles: []Oracle{oracleC04{}}},
			{Name: "life-slash-paths", Sc: scLife(defaultParams(), []Template{tOne, tRep2, tSuper}, lifeO, d+1, b+1, 2), Oracles: []Oracle{oracleC04{}}},
		}
	}})
	register(&CheckSpec{Prop: "C13", Runs: func(tier string) []RunSpec {
		d, b, m := 7, 3, 4
		if tier == "thorough" {
			d, b, m = 9, 4, 5
		}
		return []RunSpec{
			{Name: "fees", Sc: scFees(paramSet("0.1", "0.001"), true, d, b, m), Oracles: []Oracle{oracleC13{}}},
		}
	}})
	register(&CheckSpec{Prop: "C14", Runs: func(tier string) []RunSpec {
		d, b, m := 7, 4, 3
		if tier == "thorough" {
			d, b, m = 9, 5, 4
		}
		return []RunSpec{
			{Name: "bind-ops+slash", Sc: scBind(defaultParams(), bindOpsFull(), []Template{tSlash}, []string{"bad"}, d, b, m), Oracles: []Oracle{oracleC14{}}},
		}
	}})
}
