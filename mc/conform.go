package main

// conformance re-executes explored paths on the full SimApp (filled in later).
func conformance(e *Engine, n int) (int, int, []string) { return 0, 0, nil }
