package main

import (
	"bytes"
	"fmt"
	"os"
	"runtime"
	"runtime/debug"
	"sort"
	"sync"
	"time"

	abci "github.com/tendermint/tendermint/abci/types"
	tmbytes "github.com/tendermint/tendermint/libs/bytes"
	tmproto "github.com/tendermint/tendermint/proto/tendermint/types"

	sdk "github.com/cosmos/cosmos-sdk/types"
	authtypes "github.com/cosmos/cosmos-sdk/x/auth/types"
	minttypes "github.com/cosmos/cosmos-sdk/x/mint/types"

	service "github.com/irismod/service"
	simapp "github.com/irismod/service/app"
	servicekeeper "github.com/irismod/service/keeper"
	st "github.com/irismod/service/types"
)

// Conformance with the full application (DESIGN 3.6): explored paths are re-executed on the repository's SimApp
// — IAVL stores, BeginBlock/EndBlock through the module manager, Commit every block, messages on a
// CacheContext of the deliver state — and after every block the service store dump and all tracked balances
// (except the fee collector, which the distribution module sweeps) must equal the explorer's.

type simWorld struct {
	app       *simapp.SimApp
	ctx       sdk.Context
	handler   sdk.Handler
	mk        servicekeeper.Keeper // the keeper module calls go through
	lastPanic string
	ms        int64
	height    int64
	time      int64
}

func newSimWorld(sc *Scenario) *simWorld {
	app := simapp.Setup(false)
	app.Commit()
	w := &simWorld{app: app, height: H0, time: 0, ms: sc.SubSecondMs}
	w.begin()
	// the scenario's in-memory keeper configuration
	var reg func(k servicekeeper.Keeper)
	reg = func(k servicekeeper.Keeper) {
		for _, m := range sc.Rig.CallbackModules {
			mod := m
			_ = k.RegisterResponseCallback(m, func(ctx sdk.Context, id tmbytes.HexBytes, outs []string, err error) {
				if rc, ok := k.GetRequestContext(ctx, id); ok && sc.Rig.ReentrantCreate && err != nil {
					_, _ = k.CreateRequestContext(ctx, rc.ServiceName, rc.Providers, rc.Consumer, rc.Input, rc.ServiceFeeCap, rc.Timeout,
						false, false, 0, 0, st.RUNNING, 1, mod)
				}
				if rc, ok := k.GetRequestContext(ctx, id); ok && sc.Rig.ReentrantSelfStart && err != nil {
					_ = k.StartRequestContext(ctx, id, rc.Consumer)
				}
				if sc.Rig.ReentrantRespStartSibs && err != nil {
					var others [][]byte
					var consumers []sdk.AccAddress
					k.IterateRequestContexts(ctx, func(oid tmbytes.HexBytes, oc st.RequestContext) bool {
						if oc.ModuleName == mod && !bytes.Equal(oid, id) {
							others = append(others, append([]byte{}, oid...))
							consumers = append(consumers, oc.Consumer)
						}
						return false
					})
					for i := range others {
						_ = k.StartRequestContext(ctx, others[i], consumers[i])
					}
				}
				if rc, ok := k.GetRequestContext(ctx, id); ok && sc.Rig.ReentrantSelfKill && err != nil {
					_ = k.KillRequestContext(ctx, id, rc.Consumer)
				}
				if sc.Rig.Reentrant && err != nil {
					var others [][]byte
					var consumers []sdk.AccAddress
					k.IterateRequestContexts(ctx, func(oid tmbytes.HexBytes, oc st.RequestContext) bool {
						if oc.ModuleName == mod && !bytes.Equal(oid, id) {
							others = append(others, append([]byte{}, oid...))
							consumers = append(consumers, oc.Consumer)
						}
						return false
					})
					for i := range others {
						_ = k.KillRequestContext(ctx, others[i], consumers[i])
					}
				}
			})
			_ = k.RegisterStateCallback(m, func(ctx sdk.Context, id tmbytes.HexBytes, cause string) {
				if sc.Rig.Reentrant {
					if rc, ok := k.GetRequestContext(ctx, id); ok {
						_ = k.KillRequestContext(ctx, id, rc.Consumer)
					}
				}
				if sc.Rig.ReentrantStartSiblings {
					var others [][]byte
					var consumers []sdk.AccAddress
					k.IterateRequestContexts(ctx, func(oid tmbytes.HexBytes, oc st.RequestContext) bool {
						if oc.ModuleName == mod && !bytes.Equal(oid, id) {
							others = append(others, append([]byte{}, oid...))
							consumers = append(consumers, oc.Consumer)
						}
						return false
					})
					for i := range others {
						_ = k.StartRequestContext(ctx, others[i], consumers[i])
					}
				}
				if sc.Rig.ReentrantCapSiblings {
					var others [][]byte
					var consumers []sdk.AccAddress
					k.IterateRequestContexts(ctx, func(oid tmbytes.HexBytes, oc st.RequestContext) bool {
						if oc.ModuleName == mod && !bytes.Equal(oid, id) {
							others = append(others, append([]byte{}, oid...))
							consumers = append(consumers, oc.Consumer)
						}
						return false
					})
					for i := range others {
						_ = k.UpdateRequestContext(ctx, others[i], nil, 0, sdk.NewCoins(sdk.NewInt64Coin(denom, 1)), 0, 0, 0, consumers[i])
					}
				}
				if sc.Rig.ReentrantPauseSiblings {
					var others [][]byte
					var consumers []sdk.AccAddress
					k.IterateRequestContexts(ctx, func(oid tmbytes.HexBytes, oc st.RequestContext) bool {
						if oc.ModuleName == mod && !bytes.Equal(oid, id) {
							others = append(others, append([]byte{}, oid...))
							consumers = append(consumers, oc.Consumer)
						}
						return false
					})
					for i := range others {
						_ = k.PauseRequestContext(ctx, others[i], consumers[i])
					}
				}
				if sc.Rig.ReentrantRestart {
					if rc, ok := k.GetRequestContext(ctx, id); ok {
						_ = k.StartRequestContext(ctx, id, rc.Consumer)
					}
				}
			})
		}
		for _, m := range sc.Rig.ResponseOnlyModules {
			_ = k.RegisterResponseCallback(m, func(ctx sdk.Context, id tmbytes.HexBytes, outs []string, err error) {})
		}
		for _, ms := range sc.Rig.ModuleServices {
			spec := ms
			_ = k.RegisterModuleService(spec.Module, &st.ModuleService{ServiceName: spec.Service, Provider: spec.Provider,
				ReuquestService: func(ctx sdk.Context, input string) (string, string) {
					if spec.CreatesContext {
						msvcCreatesContext(ctx, k)
					}
					return spec.Result, spec.Output
				}})
		}
	}
	k := app.ServiceKeeper
	reg(k)
	w.handler = service.NewHandler(k)
	w.mk = k
	if sc.Rig.FX != nil {
		// host chain with a token module: the application's own keeper (end of block, module manager) asks the
		// exchange-rate service registered here; messages and module calls go through a keeper over the same stores
		// that carries the token keeper (the end-of-block code never consults it)
		if !sc.Rig.FX.NoService {
			_ = k.RegisterModuleService(st.RegisterModuleName, fxService(sc.Rig.FX))
		}
		fk := servicekeeper.NewKeeper(app.AppCodec(), app.GetKey(st.StoreKey), app.AccountKeeper, app.BankKeeper, fxTokenKeeper{},
			app.GetSubspace(st.ModuleName), authtypes.FeeCollectorName)
		if !sc.Rig.FX.NoService {
			_ = fk.RegisterModuleService(st.RegisterModuleName, fxService(sc.Rig.FX))
		}
		reg(fk)
		w.handler = service.NewHandler(fk)
		w.mk = fk
	}
	// genesis of the explored world: params, funded accounts
	k.SetParams(w.ctx, sc.Params.Params())
	for _, f := range sc.Funds {
		if c := f.coins(); !c.Empty() {
			if err := app.BankKeeper.MintCoins(w.ctx, minttypes.ModuleName, c); err != nil {
				panic(err)
			}
			if err := app.BankKeeper.SendCoinsFromModuleToAccount(w.ctx, minttypes.ModuleName, f.Addr, c); err != nil {
				panic(err)
			}
		}
	}
	return w
}

func (w *simWorld) begin() {
	hdr := tmproto.Header{ChainID: "", Height: w.height, Time: T0.Add(timeSec(int(w.time))).Add(time.Duration(w.ms) * time.Millisecond)}
	w.app.BeginBlock(abci.RequestBeginBlock{Header: hdr})
	w.ctx = w.app.BaseApp.NewContext(false, hdr)
}

func (w *simWorld) exec(a Action) (outcome string) {
	defer func() {
		if p := recover(); p != nil {
			outcome = "panic"
			w.lastPanic = fmt.Sprint(p) + " @ " + trimTrace(string(debug.Stack()))
			if os.Getenv("VERIF_DEBUG_STACK") != "" {
				fmt.Println(string(debug.Stack()))
			}
		}
	}()
	switch {
	case a.Kind == "E":
		w.app.EndBlock(abci.RequestEndBlock{Height: w.height})
		w.app.Commit()
		w.height++
		w.time++
		if a.TimeStep > 1 {
			w.time += a.TimeStep - 1
		}
		w.begin()
		return "ok"
	case a.Mod != nil:
		cctx, write := w.ctx.CacheContext()
		cctx = cctx.WithValue(st.TxHash, a.TxHash).WithValue(st.MsgIndex, int64(0)).WithValue(subspaceKey{}, w.app.GetSubspace(st.ModuleName))
		if err := a.Mod(cctx, w.mk); err != nil {
			if a.Carry {
				write()
			}
			return "error"
		}
		write()
		return "ok"
	default:
		if err := a.Msg.ValidateBasic(); err != nil {
			return "stateless-reject"
		}
		cctx, write := w.ctx.CacheContext()
		cctx = cctx.WithValue(st.TxHash, a.TxHash).WithValue(st.MsgIndex, int64(0))
		if _, err := w.handler(cctx, a.Msg); err != nil {
			return "error"
		}
		write()
		return "ok"
	}
}

func (w *simWorld) serviceDump() []KV {
	store := w.ctx.KVStore(w.app.GetKey(st.StoreKey))
	it := store.Iterator(nil, nil)
	defer it.Close()
	var out []KV
	for ; it.Valid(); it.Next() {
		out = append(out, KV{append([]byte{}, it.Key()...), append([]byte{}, it.Value()...)})
	}
	return out
}

func kvEqual(a, b []KV) (bool, string) {
	am := map[string][]byte{}
	for _, kv := range a {
		am[string(kv.K)] = kv.V
	}
	bm := map[string][]byte{}
	for _, kv := range b {
		bm[string(kv.K)] = kv.V
		if v, ok := am[string(kv.K)]; !ok {
			return false, fmt.Sprintf("key %X only in the full application", kv.K)
		} else if !bytes.Equal(v, kv.V) {
			return false, fmt.Sprintf("key %X differs", kv.K)
		}
	}
	for _, kv := range a {
		if _, ok := bm[string(kv.K)]; !ok {
			return false, fmt.Sprintf("key %X only in the explorer", kv.K)
		}
	}
	return true, ""
}

func (w *simWorld) compare(rig *Rig, s *State, where string) string {
	if ok, d := kvEqual(s.Stores[stService], w.serviceDump()); !ok {
		return where + ": service store: " + d
	}
	rctx := rig.ReadCtx(s)
	for _, a := range balanceUniverse() {
		if bytes.Equal(a, authtypes.NewModuleAddress(authtypes.FeeCollectorName)) {
			continue
		}
		x := rig.bk.GetBalance(rctx, a, denom).Amount
		y := w.app.BankKeeper.GetBalance(w.ctx, a, denom).Amount
		if !x.Equal(y) {
			return fmt.Sprintf("%s: balance of %s: explorer %s, full application %s", where, nameOf(a), x, y)
		}
	}
	return ""
}

const haltMark = "\x00halt"

// conformOne replays one explored trace on both the explorer's rig and the full application.
func conformOne(sc *Scenario, trace []string) (blocks int, errStr string) {
	defer func() {
		if p := recover(); p != nil {
			errStr = fmt.Sprintf("panic during conformance replay: %v", p)
		}
	}()
	rig := NewRig(sc.Rig)
	s := rig.Genesis(sc.Params, sc.Funds, sc.Extra)
	s.Ms = sc.SubSecondMs
	w := newSimWorld(sc)
	step := func(a Action) string {
		post, res := Exec(rig, sc, s, a)
		out := w.exec(a)
		want := res.Outcome()
		if out != want {
			d := fmt.Sprintf("action %s: explorer %s, full application %s", a.Name, want, out)
			if out == "panic" {
				d += " (" + w.lastPanic + ")"
			}
			if res.Panic != "" {
				d += " (explorer: " + res.Panic + ")"
			}
			return d
		}
		if a.Kind == "E" && out == "panic" {
			return haltMark // both halted: nothing after a chain halt is comparable
		}
		s = post
		if a.Kind == "E" {
			blocks++
			if d := w.compare(rig, s, "after block "+fmt.Sprint(s.Height-1)); d != "" {
				return d
			}
		}
		return ""
	}
	for _, a := range sc.Setup {
		if d := step(a); d != "" {
			return blocks, "setup: " + d
		}
	}
	s.Msgs = 0
	for i, name := range trace {
		if name == "restart" {
			return blocks, "" // the prefix up to the restart is what the full application is compared on
		}
		v := rig.Decode(s)
		var act *Action
		for _, a := range sc.Enabled(v) {
			if a.Name == name {
				aa := a
				act = &aa
				break
			}
		}
		if act == nil {
			return blocks, fmt.Sprintf("step %d: action %q not enabled", i, name)
		}
		if d := step(*act); d == haltMark {
			return blocks, ""
		} else if d != "" {
			return blocks, fmt.Sprintf("trace %v: %s", trace[:i+1], d)
		}
	}
	if d := w.compare(rig, s, "at the end of the trace"); d != "" {
		return blocks, fmt.Sprintf("trace %v: %s", trace, d)
	}
	return blocks, ""
}

// conformance re-executes n explored paths (the deepest ones, evenly spread) on the full SimApp.
// ConfErr is one explored path on which the explorer and the full application disagree.
type ConfErr struct {
	Trace []string
	Msg   string
}

func conformance(e *Engine, n int) (int, int, []ConfErr) {
	// candidate leaves: nodes of the deepest levels
	var ids []int32
	maxd := int16(0)
	for _, nd := range e.nodes {
		if nd.depth > maxd {
			maxd = nd.depth
		}
	}
	for i, nd := range e.nodes {
		if nd.depth >= maxd-1 && nd.depth > 0 {
			ids = append(ids, int32(i))
		}
	}
	if len(ids) == 0 {
		return 0, 0, nil
	}
	sort.Slice(ids, func(i, j int) bool { return ids[i] < ids[j] })
	var pick []int32
	if len(ids) <= n {
		pick = ids
	} else {
		for i := 0; i < n; i++ {
			pick = append(pick, ids[i*len(ids)/n])
		}
	}
	var mu sync.Mutex
	var errs []ConfErr
	done, blocks := 0, 0
	var wg sync.WaitGroup
	ch := make(chan int32, len(pick))
	for _, id := range pick {
		ch <- id
	}
	close(ch)
	for w := 0; w < runtime.NumCPU(); w++ {
		wg.Add(1)
		go func() {
			defer wg.Done()
			for id := range ch {
				tr := e.trace(id)
				b, es := conformOne(e.Sc, tr)
				mu.Lock()
				done++
				blocks += b
				if es != "" && len(errs) < 5 {
					errs = append(errs, ConfErr{Trace: tr, Msg: es})
				}
				mu.Unlock()
			}
		}()
	}
	wg.Wait()
	return done, blocks, errs
}

var _ = servicekeeper.Keeper{}
