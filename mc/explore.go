package main

import (
	"fmt"
	"os"
	"runtime"
	"sort"
	"sync"
	"sync/atomic"
	"time"
)

func timeSec(n int) time.Duration { return time.Duration(n) * time.Second }

// Violation is one failed oracle clause.
type Violation struct {
	Prop   string `json:"property"`
	Clause string `json:"clause"`
	Sig    string `json:"signature"` // property|clause|action kind|discriminating facts
	Detail string `json:"detail"`
}

// Trans is one executed transition as the step oracles see it.
type Trans struct {
	Pre     *View
	Act     Action
	Res     *StepResult
	Post    *View
	PreMon  *Mon
	PostMon *Mon
}

// Oracle decides one property (or one group of clauses of it).
type Oracle interface {
	Prop() string
	Invariant(x *OCtx, v *View, m *Mon) []Violation
	Step(x *OCtx, t *Trans) []Violation
}

// OCtx gives oracles access to the scenario, the rig and the witness counters.
type OCtx struct {
	Sc     *Scenario
	Rig    *Rig
	Rig2   *Rig // second, independently constructed instance (determinism runs)
	InCont bool // inside the continuation of a memory-carrying process: Rig is that process's keeper
	wit    map[string]int64
	outc   map[string]int64
	maps   *mapOrderStats
}

func (x *OCtx) Wit(clause string) { x.wit[clause]++ }

func (x *OCtx) mapStats() *mapOrderStats {
	if x.maps == nil {
		x.maps = &mapOrderStats{Sites: map[string]int64{}}
	}
	return x.maps
}

func viol(prop, clause, kind, disc, detail string) Violation {
	return Violation{Prop: prop, Clause: clause, Sig: prop + "|" + clause + "|" + kind + "|" + disc, Detail: detail}
}

type node struct {
	st     *State
	parent int32
	act    string
	depth  int16
	expand bool
}

// Found is a violation with the path that reaches it.
type Found struct {
	Violation
	Trace []string `json:"trace"`
	Count int      `json:"count"`
}

type Engine struct {
	Sc       *Scenario
	Oracles  []Oracle
	MonFlags MonFlags
	Workers  int
	Deadline time.Time
	DetCheck bool // execute every transition twice on independent rigs and compare (C20)
	KeepAll  bool // keep every state (for S-GEN / S-QUERY export points)
	// Known tells whether a violation signature is a listed known finding. A state that violates only known findings is
	// still expanded: what is already on record must not hide what lies behind it.
	Known func(sig string) bool

	rig   *Rig
	rig2  *Rig
	nodes []node
	index map[[32]byte]int32

	States      int64
	Transitions int64
	SelfLoops   int64
	Completed   int  // deepest fully expanded level
	Exhaustive  bool // all levels up to Depth completed
	LevelSizes  []int
	Wit         map[string]int64
	Outcomes    map[string]int64  // action kind/outcome -> count
	Found       map[string]*Found // by signature
	Hard        []string          // hard errors (nondeterminism etc.)
	dirtyLeft   int32             // continuations of memory-carrying processes still allowed in this run
	dirtyLeftRB int32             // ... of processes whose memory was written by a message that was rolled back
	Samples     [][]string
}

func (e *Engine) Rig() *Rig { return e.rig }

// Init builds the initial state by executing the scenario's setup with real messages.
func (e *Engine) Init() (*State, error) {
	e.rig = NewRig(e.Sc.Rig)
	if e.DetCheck {
		e.rig2 = NewRig(e.Sc.Rig)
	}
	s := e.rig.Genesis(e.Sc.Params, e.Sc.Funds, e.Sc.Extra)
	s.Ms = e.Sc.SubSecondMs
	for _, a := range e.Sc.Setup {
		post, res := Exec(e.rig, e.Sc, s, a)
		if !res.OK() {
			return nil, fmt.Errorf("setup action %s failed: %s", a.Name, res.ErrString())
		}
		s = post
	}
	s.Msgs = 0
	return s, nil
}

// Exec runs one action on a restored copy of pre and returns the successor.
func Exec(rig *Rig, sc *Scenario, pre *State, a Action) (*State, *StepResult) {
	if a.Kind == "restart" {
		post, res := restartChain(rig, pre)
		return post, &res
	}
	w := rig.Restore(pre)
	var res StepResult
	post := &State{Height: pre.Height, Time: pre.Time, Ms: pre.Ms, Used: pre.Used, Msgs: pre.Msgs, Mon: pre.Mon}
	switch {
	case a.Kind == "E":
		res = w.EndBlock()
		post.Height++
		post.Time++
		if a.TimeStep > 1 {
			post.Time += a.TimeStep - 1
		}
		post.Msgs = 0
	case a.Mod != nil:
		res = w.ModCall(a.TxHash, a.Mod, a.Carry)
		post.Msgs++
	default:
		res = w.DeliverMsg(a.Msg, a.TxHash, 0)
		post.Msgs++
	}
	if a.Tmpl >= 0 && res.OK() {
		post.Used |= 1 << uint(a.Tmpl)
	}
	post.Stores = w.Flush()
	return post, &res
}

type expandResult struct {
	parent int32
	act    string
	post   *State
	hash   [32]byte
	viols  []Violation // step violations (edge)
	inv    []Violation // invariant violations (target state)
	self   bool
	halt   bool    // the end-of-block routine panicked: the chain has halted, this state has no future
	extra  []Found // violations found in the continuation of a process whose keeper memory was changed (trace = suffix after the parent)
}

func (e *Engine) Run() error {
	if e.Workers <= 0 {
		e.Workers = runtime.NumCPU()
	}
	e.dirtyLeft, e.dirtyLeftRB = 4, 24
	e.index = map[[32]byte]int32{}
	e.Wit = map[string]int64{}
	e.Outcomes = map[string]int64{}
	e.Found = map[string]*Found{}

	init, err := e.Init()
	if err != nil {
		return err
	}
	m0 := NewMon()
	init.Mon = m0.Bytes()
	x0 := &OCtx{Sc: e.Sc, Rig: e.rig, wit: map[string]int64{}, outc: map[string]int64{}}
	v0 := e.rig.Decode(init)
	e.nodes = append(e.nodes, node{st: init, parent: -1, expand: true})
	e.index[init.Hash()] = 0
	e.States = 1
	for _, o := range e.Oracles {
		for _, vi := range o.Invariant(x0, v0, m0) {
			e.record(vi, 0, "")
			e.nodes[0].expand = false
		}
	}
	e.mergeCounts(x0)

	frontier := []int32{0}
	e.Exhaustive = true
	for depth := 0; depth < e.Sc.Depth && len(frontier) > 0; depth++ {
		e.LevelSizes = append(e.LevelSizes, len(frontier))
		if !e.Deadline.IsZero() && time.Now().After(e.Deadline) {
			e.Exhaustive = false
			break
		}
		next, aborted := e.expandLevel(frontier, depth)
		if aborted {
			e.Exhaustive = false
			break
		}
		e.Completed = depth + 1
		frontier = next
		if !e.KeepAll {
			// states of fully expanded levels are only needed for trace reconstruction: drop their stores
			// (parents are re-derived by replay), keep names.
		}
	}
	return nil
}

func (e *Engine) expandLevel(frontier []int32, depth int) ([]int32, bool) {
	type job struct{ ids []int32 }
	jobs := make(chan job, 256)
	results := make(chan []expandResult, 256)
	var wg sync.WaitGroup
	ctxs := make([]*OCtx, e.Workers)
	var aborted bool
	var abortMu sync.Mutex
	for w := 0; w < e.Workers; w++ {
		// every worker has its own keeper instances: nothing a keeper might hold in memory is shared between workers
		x := &OCtx{Sc: e.Sc, Rig: NewRig(e.Sc.Rig), wit: map[string]int64{}, outc: map[string]int64{}}
		if e.DetCheck {
			x.Rig2 = NewRig(e.Sc.Rig)
		}
		ctxs[w] = x
		wg.Add(1)
		go func() {
			defer wg.Done()
			for j := range jobs {
				if !e.Deadline.IsZero() && time.Now().After(e.Deadline) {
					abortMu.Lock()
					aborted = true
					abortMu.Unlock()
					results <- nil
					continue
				}
				var out []expandResult
				for _, id := range j.ids {
					out = append(out, e.expandNode(x, id)...)
				}
				results <- out
			}
		}()
	}
	// feed
	const chunk = 8
	njobs := 0
	go func() {
		for i := 0; i < len(frontier); i += chunk {
			j := i + chunk
			if j > len(frontier) {
				j = len(frontier)
			}
			jobs <- job{frontier[i:j]}
		}
		close(jobs)
	}()
	njobs = (len(frontier) + chunk - 1) / chunk
	var next []int32
	newInLevel := map[int32]bool{}
	for k := 0; k < njobs; k++ {
		for _, r := range <-results {
			e.Transitions++
			if r.self {
				e.SelfLoops++
			}
			id, ok := e.index[r.hash]
			stepViol := e.anyUnlisted(r.viols)
			invViol := e.anyUnlisted(r.inv)
			if !ok {
				id = int32(len(e.nodes))
				e.nodes = append(e.nodes, node{st: r.post, parent: r.parent, act: r.act, depth: int16(depth + 1)})
				e.index[r.hash] = id
				e.States++
				newInLevel[id] = true
				if invViol || r.halt {
					e.nodes[id].expand = false
					newInLevel[id] = false
				}
			}
			if newInLevel[id] && !stepViol && !invViol && !r.halt {
				if !e.nodes[id].expand {
					e.nodes[id].expand = true
				}
			}
			for _, f := range r.extra {
				e.recordSuffix(f.Violation, r.parent, f.Trace)
			}
			for _, vi := range r.viols {
				e.recordEdge(vi, r.parent, r.act)
			}
			for _, vi := range r.inv {
				e.recordEdge(vi, r.parent, r.act)
			}
		}
	}
	wg.Wait()
	for _, x := range ctxs {
		e.mergeCounts(x)
	}
	for id, isNew := range newInLevel {
		if isNew && e.nodes[id].expand {
			next = append(next, id)
		}
	}
	sort.Slice(next, func(i, j int) bool { return next[i] < next[j] })
	// release the stores of the level just expanded unless needed later
	if !e.KeepAll {
		for _, id := range frontier {
			if id != 0 {
				e.nodes[id].st = nil
			}
		}
	}
	return next, aborted
}

func (e *Engine) mergeCounts(x *OCtx) {
	for k, v := range x.wit {
		e.Wit[k] += v
	}
	for k, v := range x.outc {
		e.Outcomes[k] += v
	}
	if x.maps != nil {
		e.Wit["C20:map-order/transitions-ranging-over-2+-keys"] += x.maps.Transitions
		e.Wit["C20:map-order/alternative-orders-executed"] += x.maps.Orders
		e.Wit["C20:map-order/transitions-with-capped-product"] += x.maps.Capped
		for s, n := range x.maps.Sites {
			e.Wit["C20:map-order/site/"+s] += n
		}
		x.maps = nil
	}
	x.wit = map[string]int64{}
	x.outc = map[string]int64{}
}

func (e *Engine) expandNode(x *OCtx, id int32) []expandResult {
	pre := e.nodes[id].st
	preV := x.Rig.Decode(pre)
	preMon := ParseMon(pre.Mon)
	acts := e.Sc.Enabled(preV)
	out := make([]expandResult, 0, len(acts))
	for _, a := range acts {
		if x.Rig.Dirty() { // left by a re-execution (map orders): never carry keeper memory into another transition
			x.Rig = NewRig(e.Sc.Rig)
		}
		post, res := Exec(x.Rig, e.Sc, pre, a)
		var viols []Violation
		var extra []Found
		if x.Rig.Dirty() {
			// the transition changed what the keeper holds in memory: state outside the store (keepermem.go). Follow the
			// process that now carries it for a few steps, then go on with a clean keeper so that it reaches no other state.
			x.Wit("engine:keeper-memory-changed-by-a-transition")
			if e.dirtyBudget(!res.OK()) {
				extra = e.dirtyContinuation(x, pre, a)
			}
			x.Rig = NewRig(e.Sc.Rig)
		}
		if e.DetCheck {
			post2, res2 := Exec(x.Rig2, e.Sc, pre, a)
			if x.Rig2.Dirty() {
				x.Rig2 = NewRig(e.Sc.Rig)
			}
			if post.StoreHash() != post2.StoreHash() || res.Outcome() != res2.Outcome() {
				viols = append(viols, viol("C20", "deterministic-replay", a.Kind, "two-keeper-instances-diverge",
					fmt.Sprintf("same state + same action gave different successors (%s vs %s)", res.Outcome(), res2.Outcome())))
			}
		}
		if e.DetCheck && mapOrderEnabled {
			viols = append(viols, mapOrderCheck(x.Rig, e.Sc, pre, a, post, res, x.mapStats())...)
		}
		postV := x.Rig.Decode(post)
		postMon := preMon.Update(e.MonFlags, e.Sc, preV, a, res, postV)
		post.Mon = postMon.Bytes()
		x.outc[a.Kind+"/"+res.Outcome()]++
		t := &Trans{Pre: preV, Act: a, Res: res, Post: postV, PreMon: preMon, PostMon: postMon}
		h := post.Hash()
		self := h == pre.Hash()
		// a panic at end of block halts the chain: the half-written successor is no state of the system; only the
		// property that forbids the panic (C20) judges the step, and the successor is not expanded
		halt := a.Kind == "E" && res.Panic != ""
		for _, o := range e.Oracles {
			if halt && o.Prop() != "C20" {
				continue
			}
			if a.Kind == "restart" && res.OK() && o.Prop() != "C20" {
				// the restart itself is judged by C19 (every state is an export point there) and by the list of things it must
				// leave alone; the step oracles judge what follows
				viols = append(viols, restartPreserves(o.Prop(), x, t)...)
				continue
			}
			viols = append(viols, o.Step(x, t)...)
		}
		if halt {
			x.Wit("engine:chain-halt-not-expanded")
		}
		if a.Kind == "restart" && !res.OK() && res.Prepared != nil {
			// the restart was refused after the zero-height preparation had run (C19 reports that); what the preparation
			// did to the things it must leave alone is judged all the same
			x.Wit("engine:restart-refused-after-preparation")
			tp := &Trans{Pre: preV, Act: a, Res: res, Post: x.Rig.Decode(res.Prepared), PreMon: preMon, PostMon: preMon}
			for _, o := range e.Oracles {
				viols = append(viols, restartPreserves(o.Prop(), x, tp)...)
			}
		}
		var inv []Violation
		if !self && !halt {
			// invariants on the successor; (re-evaluated if the state is reached again, which is harmless)
			for _, o := range e.Oracles {
				for _, vi := range o.Invariant(x, postV, postMon) {
					vi.Sig = invSig(vi.Sig, a.Kind)
					inv = append(inv, vi)
				}
			}
		}
		out = append(out, expandResult{parent: id, act: a.Name, post: post, hash: h, viols: viols, inv: inv, self: self, halt: halt, extra: extra})
	}
	return out
}

func (e *Engine) trace(id int32) []string {
	var rev []string
	for id > 0 {
		rev = append(rev, e.nodes[id].act)
		id = e.nodes[id].parent
	}
	for i, j := 0, len(rev)-1; i < j; i, j = i+1, j-1 {
		rev[i], rev[j] = rev[j], rev[i]
	}
	return rev
}

func (e *Engine) anyUnlisted(vs []Violation) bool {
	for _, v := range vs {
		if e.Known == nil || !e.Known(v.Sig) {
			return true
		}
	}
	return false
}

func (e *Engine) record(vi Violation, at int32, act string) {
	e.recordEdge(vi, at, act)
}

func (e *Engine) recordSuffix(vi Violation, parent int32, suffix []string) {
	f, ok := e.Found[vi.Sig]
	if !ok {
		f = &Found{Violation: vi, Trace: append(e.trace(parent), suffix...)}
		e.Found[vi.Sig] = f
	}
	f.Count++
}

func (e *Engine) recordEdge(vi Violation, parent int32, act string) {
	f, ok := e.Found[vi.Sig]
	if !ok {
		tr := e.trace(parent)
		if act != "" {
			tr = append(tr, act)
		}
		f = &Found{Violation: vi, Trace: tr}
		e.Found[vi.Sig] = f
	}
	f.Count++
}

// SampleTraces returns a few root-to-leaf action sequences actually explored.
func (e *Engine) SampleTraces(n int) [][]string {
	var out [][]string
	if len(e.nodes) == 0 {
		return out
	}
	step := len(e.nodes) / n
	if step == 0 {
		step = 1
	}
	for i := len(e.nodes) - 1; i > 0 && len(out) < n; i -= step {
		out = append(out, e.trace(int32(i)))
	}
	return out
}

// dirtyBudget: at most a handful of continuations per run (each costs about a second); further events are only counted.
// Memory left behind by a message that was rolled back is the sharper case (the store forgot the message, the keeper did
// not) and has a budget of its own, so that memory written by successful messages early in the search cannot use it up.
func (e *Engine) dirtyBudget(afterRollback bool) bool {
	if afterRollback {
		return atomic.AddInt32(&e.dirtyLeftRB, -1) >= 0
	}
	return atomic.AddInt32(&e.dirtyLeft, -1) >= 0
}

// dirtyContinuation follows, for up to three more actions in every order the alphabet allows, the one process that
// executed action a on state pre and thereby changed its keeper's memory. Each branch runs on a keeper built for it
// (build, execute a, continue), next to a keeper that never saw a (a node restarted from the same stores). The run's
// oracles judge the steps of the memory-carrying process; a step on which the two processes differ violates C20
// ("independent of process"). Traces are replayable: replay executes a whole trace on one keeper.
func (e *Engine) dirtyContinuation(x *OCtx, pre *State, a Action) []Found {
	const depth = 3
	found := map[string]*Found{}
	var rec func(seq []string)
	run := func(seq []string) (next []Action) {
		D, F := NewRig(e.Sc.Rig), NewRig(e.Sc.Rig)
		x := &OCtx{Sc: x.Sc, Rig: D, wit: x.wit, outc: x.outc, InCont: true}
		s, res0 := Exec(D, e.Sc, pre, a)
		preV := D.Decode(pre)
		mon := ParseMon(pre.Mon)
		v := D.Decode(s)
		mon = mon.Update(e.MonFlags, e.Sc, preV, a, res0, v)
		s.Mon = mon.Bytes()
		for i, name := range seq {
			var act *Action
			for _, b := range e.Sc.Enabled(v) {
				if b.Name == name {
					bb := b
					act = &bb
					break
				}
			}
			if act == nil {
				return nil
			}
			post, res := Exec(D, e.Sc, s, *act)
			postF, resF := Exec(F, e.Sc, s, *act)
			pv := D.Decode(post)
			pm := mon.Update(e.MonFlags, e.Sc, v, *act, res, pv)
			post.Mon = pm.Bytes()
			if i == len(seq)-1 { // earlier steps were judged when the shorter sequence ran
				var vs []Violation
				if post.StoreHash() != postF.StoreHash() || res.Outcome() != resF.Outcome() {
					vs = append(vs, viol("C20", "independent-of-process", act.Kind, "keeper-memory",
						fmt.Sprintf("after %s the process that executed it and a process restarted from the same stores give different results for %s (%s vs %s)", a.Name, act.Name, res.Outcome(), resF.Outcome())))
				}
				halt := act.Kind == "E" && res.Panic != ""
				t := &Trans{Pre: v, Act: *act, Res: res, Post: pv, PreMon: mon, PostMon: pm}
				for _, o := range e.Oracles {
					if act.Kind == "restart" && res.OK() && o.Prop() != "C20" {
						vs = append(vs, restartPreserves(o.Prop(), x, t)...)
					}
					if (halt || (act.Kind == "restart" && res.OK())) && o.Prop() != "C20" {
						continue
					}
					vs = append(vs, o.Step(x, t)...)
					if !halt {
						for _, vi := range o.Invariant(x, pv, pm) {
							vi.Sig = invSig(vi.Sig, act.Kind)
							vs = append(vs, vi)
						}
					}
				}
				for _, vi := range vs {
					if f, ok := found[vi.Sig]; ok {
						f.Count++
					} else {
						found[vi.Sig] = &Found{Violation: vi, Trace: append([]string{a.Name}, seq...), Count: 1}
					}
				}
				if halt {
					return nil
				}
			}
			s, v, mon = post, pv, pm
		}
		return e.Sc.Enabled(v)
	}
	rec = func(seq []string) {
		next := run(seq)
		if len(seq) >= depth {
			return
		}
		for _, b := range next {
			rec(append(append([]string{}, seq...), b.Name))
		}
	}
	rec(nil)
	if os.Getenv("VERIF_DEBUG_CONT") != "" {
		fmt.Fprintf(os.Stderr, "continuation after %s (ok=%v) from a state at height %d: %d signatures\n", a.Name, a.Kind, pre.Height, len(found))
	}
	var out []Found
	for _, f := range found {
		out = append(out, *f)
	}
	sort.Slice(out, func(i, j int) bool { return out[i].Sig < out[j].Sig })
	return out
}
