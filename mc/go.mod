module svcmc

go 1.14

require (
	github.com/cosmos/cosmos-sdk v0.34.4-0.20200914022129-c26ef79ed0a2
	github.com/gogo/protobuf v1.3.1
	github.com/irismod/service v0.0.0
	github.com/tendermint/tendermint v0.34.0-rc3.0.20200907055413-3359e0bf2f84
	github.com/tendermint/tm-db v0.6.2
	github.com/tidwall/gjson v1.6.1
)

replace (
	github.com/gogo/protobuf => github.com/regen-network/protobuf v1.3.2-alpha.regen.4
	github.com/irismod/service => /repo
	github.com/keybase/go-keychain => github.com/99designs/go-keychain v0.0.0-20191008050251-8e49817e8af4
)
