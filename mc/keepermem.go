package main

import (
	"fmt"
	"reflect"
	"sort"
	"strings"

	servicekeeper "github.com/irismod/service/keeper"
)

// The explorer identifies a state with the contents of the stores. That is sound only if the module keeps nothing
// else: anything a keeper remembers in memory (a cache filled by a message that was later rolled back, a counter, a
// memoised record) survives the roll-back of a failed message, is lost by a restart, and is invisible to a state hash.
// keeperFingerprint digests every in-memory container reachable from the keeper value through the module's own
// types (maps, slices, pointers, structs of github.com/irismod/service; values of other packages - codec, store
// keys, the other keepers - are not descended into). A transition that changes it has left state outside the store.
func keeperFingerprint(k servicekeeper.Keeper) string {
	var b strings.Builder
	n := 0
	fpWalk(&b, reflect.ValueOf(k), 0, &n)
	return b.String()
}

const fpMaxDepth, fpMaxNodes = 7, 20000

func ownType(t reflect.Type) bool {
	for t.Kind() == reflect.Ptr || t.Kind() == reflect.Slice || t.Kind() == reflect.Array || t.Kind() == reflect.Map {
		if t.Kind() == reflect.Map && !ownOrBuiltin(t.Key()) {
			return false
		}
		t = t.Elem()
	}
	return ownOrBuiltin(t)
}

func ownOrBuiltin(t reflect.Type) bool {
	p := t.PkgPath()
	return p == "" || strings.HasPrefix(p, "github.com/irismod/service") || p == "github.com/cosmos/cosmos-sdk/types" || p == "time" || p == "math/big"
}

func fpWalk(b *strings.Builder, v reflect.Value, depth int, n *int) {
	*n++
	if depth > fpMaxDepth || *n > fpMaxNodes || !v.IsValid() {
		b.WriteString("~")
		return
	}
	switch v.Kind() {
	case reflect.Bool:
		fmt.Fprintf(b, "%v", v.Bool())
	case reflect.Int, reflect.Int8, reflect.Int16, reflect.Int32, reflect.Int64:
		fmt.Fprintf(b, "%d", v.Int())
	case reflect.Uint, reflect.Uint8, reflect.Uint16, reflect.Uint32, reflect.Uint64, reflect.Uintptr:
		fmt.Fprintf(b, "%d", v.Uint())
	case reflect.Float32, reflect.Float64:
		fmt.Fprintf(b, "%g", v.Float())
	case reflect.String:
		fmt.Fprintf(b, "%q", v.String())
	case reflect.Func, reflect.Chan, reflect.UnsafePointer:
		if v.IsNil() {
			b.WriteString("nil")
		} else {
			b.WriteString("fn")
		}
	case reflect.Interface:
		if v.IsNil() {
			b.WriteString("nil")
			return
		}
		e := v.Elem()
		if !ownType(e.Type()) {
			b.WriteString("<" + e.Type().String() + ">")
			return
		}
		fpWalk(b, e, depth+1, n)
	case reflect.Ptr:
		if v.IsNil() {
			b.WriteString("nil")
			return
		}
		if !ownType(v.Type()) {
			b.WriteString("<" + v.Type().String() + ">")
			return
		}
		b.WriteString("&")
		fpWalk(b, v.Elem(), depth+1, n)
	case reflect.Struct:
		if !ownOrBuiltin(v.Type()) {
			b.WriteString("<" + v.Type().String() + ">")
			return
		}
		b.WriteString("{")
		for i := 0; i < v.NumField(); i++ {
			b.WriteString(v.Type().Field(i).Name + ":")
			fpWalk(b, v.Field(i), depth+1, n)
			b.WriteString(",")
		}
		b.WriteString("}")
	case reflect.Slice, reflect.Array:
		if v.Kind() == reflect.Slice && v.IsNil() {
			b.WriteString("nil")
			return
		}
		fmt.Fprintf(b, "[%d:", v.Len())
		if v.Type().Elem().Kind() == reflect.Uint8 {
			for i := 0; i < v.Len(); i++ {
				fmt.Fprintf(b, "%02x", v.Index(i).Uint())
			}
		} else {
			for i := 0; i < v.Len(); i++ {
				fpWalk(b, v.Index(i), depth+1, n)
				b.WriteString(",")
			}
		}
		b.WriteString("]")
	case reflect.Map:
		if v.IsNil() {
			b.WriteString("nil")
			return
		}
		var ents []string
		it := v.MapRange()
		for it.Next() {
			var eb strings.Builder
			fpWalk(&eb, it.Key(), depth+1, n)
			eb.WriteString("=>")
			fpWalk(&eb, it.Value(), depth+1, n)
			ents = append(ents, eb.String())
		}
		sort.Strings(ents)
		fmt.Fprintf(b, "map[%d:%s]", len(ents), strings.Join(ents, ";"))
	default:
		b.WriteString("?")
	}
}

// Dirty reports whether the keeper's memory differs from what it was when the rig was built.
func (r *Rig) Dirty() bool { return keeperFingerprint(r.sk) != r.baseFP }
