package main

import (
	"bytes"
	"fmt"
	"math/big"
	"sort"
	"strings"

	sdk "github.com/cosmos/cosmos-sdk/types"

	st "github.com/irismod/service/types"
)

// ---------------------------------------------------------------------------------------------
// Constructed-key lookups ("construct, don't parse", DESIGN 3.5)

func rawLookup(recs []RawRec, key []byte) ([]byte, bool) {
	for _, r := range recs {
		if bytes.Equal(r.K, key) {
			return r.V, true
		}
	}
	return nil, false
}

func (v *View) EarnedOf(p []byte) *big.Int {
	if raw, ok := rawLookup(v.Earned, st.GetEarnedFeesKey(p, denom)); ok {
		return coinOf(raw).Amount.BigInt()
	}
	return new(big.Int)
}

func (v *View) OwnerEarnedOf(o []byte) *big.Int {
	if raw, ok := rawLookup(v.OwnerEarned, st.GetOwnerEarnedFeesKey(o, denom)); ok {
		return coinOf(raw).Amount.BigInt()
	}
	return new(big.Int)
}

// OwnerOf: the owner of a provider is the one its bindings name ("every provider has one owner for life, shared by all
// its bindings"); the module's provider->owner index is consulted only for a provider without any binding record.
// (That the index agrees with the bindings is C15's clause; authority, earnings and payouts are judged by the truth.)
func (v *View) OwnerOf(p []byte) []byte {
	for _, br := range v.Bindings {
		if bytes.Equal(br.B.Provider, p) && len(br.B.Owner) > 0 {
			return br.B.Owner
		}
	}
	if raw, ok := rawLookup(v.Owner, st.GetOwnerKey(p)); ok {
		return bytesVal(raw)
	}
	return nil
}

func (v *View) WithdrawOf(o []byte) []byte {
	if raw, ok := rawLookup(v.Withdraw, st.GetWithdrawAddrKey(o)); ok {
		return raw
	}
	return o
}

// universe of addresses that can be subjects of key-identified records
func universe() [][]byte {
	names := make([]string, 0, len(addrNames))
	for n := range addrNames {
		names = append(names, n)
	}
	sort.Strings(names)
	out := make([][]byte, 0, len(names))
	for _, n := range names {
		out = append(out, addrNames[n])
	}
	return out
}

func decRat(d sdk.Dec) *big.Rat {
	r, ok := new(big.Rat).SetString(d.String())
	if !ok {
		panic("bad dec " + d.String())
	}
	return r
}

// floorMul = floor(n * r) for n >= 0, r >= 0
func floorMul(n *big.Int, r *big.Rat) *big.Int {
	x := new(big.Rat).Mul(new(big.Rat).SetInt(n), r)
	return new(big.Int).Quo(x.Num(), x.Denom())
}

// ---------------------------------------------------------------------------------------------

// Settlement describes how one request left the pending set in a step.
type Settlement struct {
	Req      string
	Cause    string // "response-ok" "response-noout" "response-bad" "expiry" "none"
	Fee      *big.Int
	Consumer []byte
	Provider []byte
	Service  string
	Super    bool
}

// Ledger is the prediction for one transition (DESIGN 9.C) next to what was observed.
type Ledger struct {
	ExpBal         map[string]*big.Int // expected balance delta by address hex
	ExpSupply      *big.Int
	ExpEarn        map[string]*big.Int // expected delta of provider earnings by provider hex
	ExpOwnEarn     map[string]*big.Int
	ExpDeposit     map[string]*big.Int // expected post deposit by binding key (svc|provhex); only for touched bindings
	ExpAvail       map[string]bool
	ExpDisabledNow map[string]bool
	Slashes        map[string]int // failures per binding in this step
	Settled        []Settlement
	Issued         []string
	Problems       []LedgerProblem
}

type LedgerProblem struct {
	Cat    string // fee deposit slash earnings auth
	Clause string
	Disc   string
	Detail string
}

func bkey(svc string, prov []byte) string { return svc + "|" + hexs(prov) }

func addTo(m map[string]*big.Int, k string, d *big.Int) {
	if m[k] == nil {
		m[k] = new(big.Int)
	}
	m[k].Add(m[k], d)
}

func neg(x *big.Int) *big.Int { return new(big.Int).Neg(x) }

func reqInfo(v *View, id string) (fee *big.Int, consumer, provider []byte, svc string, super bool, ok bool) {
	r := v.Reqs[id]
	if r == nil {
		return nil, nil, nil, "", false, false
	}
	c := v.Ctxs[hexs(r.RequestContextId)]
	if c == nil {
		return coinAmt(r.ServiceFee), nil, r.Provider, "", false, false
	}
	return coinAmt(r.ServiceFee), c.Consumer, r.Provider, c.ServiceName, c.SuperMode, true
}

// BuildLedger predicts every balance / earnings / deposit movement of a transition from observed facts only.
func BuildLedger(t *Trans) *Ledger {
	pre, post, a, res := t.Pre, t.Post, t.Act, t.Res
	L := &Ledger{ExpBal: map[string]*big.Int{}, ExpSupply: new(big.Int), ExpEarn: map[string]*big.Int{}, ExpOwnEarn: map[string]*big.Int{},
		ExpDeposit: map[string]*big.Int{}, ExpAvail: map[string]bool{}, ExpDisabledNow: map[string]bool{}, Slashes: map[string]int{}}
	tax := decRat(pre.Params.ServiceFeeTax)
	esc := hexs(reqAcc)

	// requests whose record appears: consumer pays, escrow receives
	var appeared []string
	for _, id := range post.ReqIDs {
		if _, had := pre.Reqs[id]; !had {
			appeared = append(appeared, id)
		}
	}
	for _, id := range appeared {
		fee, consumer, _, _, _, ok := reqInfo(post, id)
		if !ok {
			// the context may already be gone in post (cannot happen in a correct module); try pre
			r := post.Reqs[id]
			if c := pre.Ctxs[hexs(r.RequestContextId)]; c != nil {
				consumer, ok = c.Consumer, true
				fee = coinAmt(r.ServiceFee)
			}
		}
		if !ok {
			L.Problems = append(L.Problems, LedgerProblem{"fee", "issued-request-has-context", "no-context", "request " + shortReq(id) + " appeared without a context"})
			continue
		}
		L.Issued = append(L.Issued, id)
		addTo(L.ExpBal, hexs(consumer), neg(fee))
		addTo(L.ExpBal, esc, fee)
	}

	// requests that leave the pending set
	type gone struct {
		id    string
		inPre bool // was pending in pre (else: appeared and settled within this step)
	}
	var left []gone
	for _, id := range pre.PendingIDs() {
		if !post.ActiveByID[id] {
			left = append(left, gone{id, true})
		}
	}
	for _, id := range appeared {
		if !post.ActiveByID[id] {
			left = append(left, gone{id, false})
		}
	}
	for _, g := range left {
		src := pre
		if !g.inPre {
			src = post
		}
		fee, consumer, provider, svc, super, ok := reqInfo(src, g.id)
		if !ok && src.Reqs[g.id] == nil {
			// marker without record: orphan (C16); nothing to settle
			continue
		}
		s := Settlement{Req: g.id, Fee: fee, Consumer: consumer, Provider: provider, Service: svc, Super: super, Cause: "none"}
		switch {
		case a.Kind == "respond" && res.OK() && a.Req == g.id:
			s.Cause = "response-" + a.RespKind
		case !g.inPre && post.Resps[g.id] != nil:
			// module-service path: issued and answered inside one message
			out := post.Resps[g.id].Output
			if len(out) > 0 && st.ValidateResponseOutput(out) != nil {
				s.Cause = "response-bad"
			} else if len(out) > 0 {
				s.Cause = "response-ok"
			} else {
				s.Cause = "response-noout"
			}
		case a.Kind == "E":
			s.Cause = "expiry"
			if r := pre.Reqs[g.id]; r != nil && r.ExpirationHeight > pre.H {
				// taken out of the pending set (refunded, its provider slashed) before the block it may still be answered in has ended
				L.Problems = append(L.Problems, LedgerProblem{"early", "request-expires-only-when-its-expiry-block-ends", "early",
					fmt.Sprintf("request %s expires at height %d but was expired at the end of block %d", shortReq(g.id), r.ExpirationHeight, pre.H)})
			}
		}
		L.Settled = append(L.Settled, s)
		switch s.Cause {
		case "response-ok", "response-noout":
			tx := floorMul(fee, tax)
			net := new(big.Int).Sub(fee, tx)
			addTo(L.ExpBal, esc, neg(fee))
			addTo(L.ExpBal, hexs(feeColl), tx)
			// the earnings stay in escrow: escrow -fee +net = -tax
			addTo(L.ExpBal, esc, net)
			addTo(L.ExpEarn, hexs(provider), net)
			if o := pre.OwnerOf(provider); o != nil {
				addTo(L.ExpOwnEarn, hexs(o), net)
			} else {
				L.Problems = append(L.Problems, LedgerProblem{"earnings", "earning-provider-has-owner", "no-owner", "provider " + nameOf(provider) + " earned a fee but has no owner record"})
			}
		case "response-bad":
			addTo(L.ExpBal, esc, neg(fee))
			addTo(L.ExpBal, hexs(consumer), fee)
			L.Slashes[bkey(svc, provider)]++
		case "expiry":
			if !super {
				addTo(L.ExpBal, esc, neg(fee))
				addTo(L.ExpBal, hexs(consumer), fee)
				L.Slashes[bkey(svc, provider)]++
			} else if fee.Sign() != 0 {
				// a super-mode request must not carry a fee (C07); if it does, it is returned to nobody by design
			}
		default:
			L.Problems = append(L.Problems, LedgerProblem{"fee", "request-leaves-pending-only-by-response-or-expiry", a.Kind,
				fmt.Sprintf("request %s left the pending set in a %s step without cause", shortReq(g.id), a.Kind)})
		}
	}

	// a pending request whose expiry block ends now must be settled in this step
	if a.Kind == "E" {
		for _, id := range pre.PendingIDs() {
			r := pre.Reqs[id]
			if r != nil && r.ExpirationHeight <= pre.H && post.ActiveByID[id] {
				L.Problems = append(L.Problems, LedgerProblem{"expiry", "pending-request-settled-when-its-expiry-block-ends", "still-pending",
					fmt.Sprintf("request %s expires at height %d but is still pending after the end of block %d (no refund, no slash)", shortReq(id), r.ExpirationHeight, pre.H)})
			}
		}
	}

	// binding operations
	if res.OK() {
		switch a.Kind {
		case "bind", "update", "enable":
			d := bi(a.Dep)
			if a.Dep != 0 {
				addTo(L.ExpBal, hexs(a.Signer), neg(d))
				addTo(L.ExpBal, hexs(depAcc), d)
			}
			k := bkey(a.Svc, a.Prov)
			base := new(big.Int)
			if b := pre.Binding(a.Svc, a.Prov); b != nil {
				base = coinAmt(b.Deposit)
			}
			L.ExpDeposit[k] = new(big.Int).Add(base, d)
		case "refund":
			if b := pre.Binding(a.Svc, a.Prov); b != nil {
				d := coinAmt(b.Deposit)
				addTo(L.ExpBal, hexs(depAcc), neg(d))
				addTo(L.ExpBal, hexs(b.Owner), d)
				L.ExpDeposit[bkey(a.Svc, a.Prov)] = new(big.Int)
			}
		case "withdraw":
			owner := []byte(a.Signer)
			amt := new(big.Int)
			if len(a.Prov) > 0 {
				amt = pre.EarnedOf(a.Prov)
				addTo(L.ExpEarn, hexs(a.Prov), neg(amt))
				addTo(L.ExpOwnEarn, hexs(owner), neg(amt))
			} else {
				amt = pre.OwnerEarnedOf(owner)
				addTo(L.ExpOwnEarn, hexs(owner), neg(amt))
				for _, p := range universe() {
					if o := pre.OwnerOf(p); o != nil && bytes.Equal(o, owner) {
						addTo(L.ExpEarn, hexs(p), neg(pre.EarnedOf(p)))
					}
				}
			}
			addTo(L.ExpBal, esc, neg(amt))
			addTo(L.ExpBal, hexs(pre.WithdrawOf(owner)), amt)
		}
	}

	// slashes, applied sequentially per binding
	frac := decRat(pre.Params.SlashFraction)
	for k, n := range L.Slashes {
		parts := strings.SplitN(k, "|", 2)
		prov := mustHex(parts[1])
		b := pre.Binding(parts[0], prov)
		if b == nil {
			L.Problems = append(L.Problems, LedgerProblem{"slash", "failed-request-has-binding", "no-binding", "request failed for missing binding " + k})
			continue
		}
		dep := coinAmt(b.Deposit)
		if d, ok := L.ExpDeposit[k]; ok {
			dep = d
		}
		total := new(big.Int)
		for i := 0; i < n; i++ {
			s := floorMul(dep, frac)
			dep = new(big.Int).Sub(dep, s)
			total.Add(total, s)
		}
		L.ExpDeposit[k] = dep
		addTo(L.ExpBal, hexs(depAcc), neg(total))
		L.ExpSupply.Sub(L.ExpSupply, total)
		// availability after the slash
		avail := b.Available
		if avail {
			min := minDepositOf(pre, b.Pricing)
			if dep.Cmp(min) < 0 {
				avail = false
				L.ExpDisabledNow[k] = true
			}
		}
		L.ExpAvail[k] = avail
	}
	return L
}

// minDepositOf = max(MinDeposit, basePrice*multiple) with the base price parsed from the published pricing text.
func minDepositOf(v *View, pricingText string) *big.Int {
	rp := parseRefPricing(pricingText)
	base := rp.Base
	if rp.Denom != "" && rp.Denom != v.Params.BaseDenom {
		// a price quoted in another token has no amount in the base denomination: only the global minimum applies
		base = new(big.Int)
	}
	m := new(big.Int).Mul(base, bi(v.Params.MinDepositMultiple))
	md := new(big.Int) // (a plain scan: Coins.AmountOf searches a sorted list, and whether the stored list is sorted is not ours to assume)
	for _, c := range v.Params.MinDeposit {
		if c.Denom == v.Params.BaseDenom {
			md = c.Amount.BigInt()
		}
	}
	if m.Cmp(md) < 0 {
		return md
	}
	return m
}

// Observed deltas -------------------------------------------------------------------------------

func balDelta(pre, post *View, addrHex string) *big.Int {
	a, b := pre.Bal[addrHex], post.Bal[addrHex]
	if a == nil {
		a = new(big.Int)
	}
	if b == nil {
		b = new(big.Int)
	}
	return new(big.Int).Sub(b, a)
}

func allBalKeys(pre, post *View) []string {
	m := map[string]bool{}
	for k := range pre.Bal {
		m[k] = true
	}
	for k := range post.Bal {
		m[k] = true
	}
	return sortedKeys(m)
}

func accName(addrHex string) string {
	switch addrHex {
	case hexs(reqAcc):
		return "escrow"
	case hexs(depAcc):
		return "deposit-account"
	case hexs(feeColl):
		return "fee-collector"
	}
	return nameOf(mustHex(addrHex))
}

func isModuleAcc(addrHex string) bool {
	return addrHex == hexs(reqAcc) || addrHex == hexs(depAcc) || addrHex == hexs(feeColl)
}

// CompareBalances returns the accounts whose observed delta differs from the prediction.
func (L *Ledger) CompareBalances(pre, post *View) []LedgerProblem {
	var out []LedgerProblem
	for _, k := range allBalKeys(pre, post) {
		got := balDelta(pre, post, k)
		want := L.ExpBal[k]
		if want == nil {
			want = new(big.Int)
		}
		if got.Cmp(want) != 0 {
			who := accName(k)
			out = append(out, LedgerProblem{Cat: "balance", Clause: "balance-moves-only-as-predicted", Disc: who,
				Detail: fmt.Sprintf("%s balance moved by %s, predicted %s", who, got, want)})
		}
	}
	expKeys := make([]string, 0, len(L.ExpBal))
	for k := range L.ExpBal {
		expKeys = append(expKeys, k)
	}
	sort.Strings(expKeys)
	for _, k := range expKeys {
		if _, ok := pre.Bal[k]; ok {
			continue
		}
		if _, ok := post.Bal[k]; ok {
			continue
		}
		if L.ExpBal[k].Sign() != 0 {
			out = append(out, LedgerProblem{Cat: "balance", Clause: "balance-moves-only-as-predicted", Disc: accName(k),
				Detail: fmt.Sprintf("%s predicted to move by %s but has no balance record", accName(k), L.ExpBal[k])})
		}
	}
	gs := new(big.Int).Sub(post.Supply, pre.Supply)
	if gs.Cmp(L.ExpSupply) != 0 {
		out = append(out, LedgerProblem{Cat: "supply", Clause: "supply-falls-only-by-slashes", Disc: "supply",
			Detail: fmt.Sprintf("total supply moved by %s, predicted %s", gs, L.ExpSupply)})
	}
	return out
}

// CompareEarnings checks every provider/owner earnings record of the universe against the prediction, and that
// no raw record exists outside the universe's constructed keys.
func (L *Ledger) CompareEarnings(pre, post *View) []LedgerProblem {
	var out []LedgerProblem
	for _, p := range universe() {
		got := new(big.Int).Sub(post.EarnedOf(p), pre.EarnedOf(p))
		want := L.ExpEarn[hexs(p)]
		if want == nil {
			want = new(big.Int)
		}
		if got.Cmp(want) != 0 {
			out = append(out, LedgerProblem{Cat: "earnings", Clause: "provider-earnings-move-only-as-predicted", Disc: nameOf(p),
				Detail: fmt.Sprintf("earnings record of provider %s moved by %s, predicted %s", nameOf(p), got, want)})
		}
		got = new(big.Int).Sub(post.OwnerEarnedOf(p), pre.OwnerEarnedOf(p))
		want = L.ExpOwnEarn[hexs(p)]
		if want == nil {
			want = new(big.Int)
		}
		if got.Cmp(want) != 0 {
			out = append(out, LedgerProblem{Cat: "earnings", Clause: "owner-earnings-move-only-as-predicted", Disc: nameOf(p),
				Detail: fmt.Sprintf("earnings record of owner %s moved by %s, predicted %s", nameOf(p), got, want)})
		}
	}
	return out
}

// EarningsOrphans: raw 0x18/0x19 records that no constructed key of the universe accounts for.
func EarningsOrphans(v *View) []string {
	exp := map[string]bool{}
	for _, p := range universe() {
		exp[string(st.GetEarnedFeesKey(p, denom))] = true
		exp[string(st.GetOwnerEarnedFeesKey(p, denom))] = true
	}
	var out []string
	for _, r := range v.Earned {
		if !exp[string(r.K)] {
			out = append(out, hexs(r.K))
		}
	}
	for _, r := range v.OwnerEarned {
		if !exp[string(r.K)] {
			out = append(out, hexs(r.K))
		}
	}
	return out
}
