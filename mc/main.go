package main

import (
	"crypto/sha256"
	"encoding/json"
	"fmt"
	"io/ioutil"
	"os"
	"path/filepath"
	"sort"
	"strconv"
	"strings"
	"time"
)

// RunSpec is one exploration: a closed scenario, the oracles evaluated on it and the history variables tracked.
type RunSpec struct {
	Name     string
	Sc       *Scenario
	Oracles  []Oracle
	Mon      MonFlags
	DetCheck bool
	Conform  int                                      // number of explored paths to re-execute on the full SimApp (0 = none)
	Post     func(e *Engine, ev *RunEvidence) []Found // optional extra pass over the explored states (export points, queries)
	KeepAll  bool
}

// CheckSpec is everything that decides one property.
type CheckSpec struct {
	Prop  string
	Runs  func(tier string) []RunSpec
	Pure  func(tier string) (*PureEvidence, []Found) // exhaustive grids over pure functions
	Notes []string
}

type RunEvidence struct {
	Run          string           `json:"run"`
	Scenario     string           `json:"scenario"`
	Params       string           `json:"params"`
	FlipIDs      bool             `json:"flip_ids"`
	Templates    []string         `json:"templates"`
	Depth        int              `json:"depth_bound"`
	MaxBlocks    int              `json:"block_bound"`
	MaxMsgs      int              `json:"msgs_per_block_bound"`
	Completed    int              `json:"completed_depth"`
	Exhaustive   bool             `json:"exhaustive_within_bounds"`
	States       int64            `json:"states"`
	Transitions  int64            `json:"transitions"`
	SelfLoops    int64            `json:"self_loops"`
	Levels       []int            `json:"frontier_sizes"`
	Outcomes     map[string]int64 `json:"outcomes_by_action_kind"`
	Witnesses    map[string]int64 `json:"witnesses"`
	Conformed    int              `json:"paths_replayed_on_full_simapp"`
	ConformSteps int              `json:"blocks_compared_on_full_simapp"`
	Extra        map[string]int64 `json:"extra,omitempty"`
	WallS        float64          `json:"wall_s"`
}

type PureEvidence struct {
	Evaluations int64            `json:"evaluations"`
	Distinct    int64            `json:"distinct_nontrivial"`
	Rule        string           `json:"rule"`
	Samples     []interface{}    `json:"samples"`
	Counters    map[string]int64 `json:"counters"`
}

var checks = map[string]*CheckSpec{}

func register(c *CheckSpec) { checks[c.Prop] = c }

func verifDir() string {
	if d := os.Getenv("VERIF_DIR"); d != "" {
		return d
	}
	exe, err := os.Executable()
	if err == nil {
		d := filepath.Dir(filepath.Dir(exe))
		if _, err := os.Stat(filepath.Join(d, "properties.jsonl")); err == nil {
			return d
		}
	}
	return "/verif"
}

type KnownFinding struct {
	Property  string `json:"property"`
	Signature string `json:"signature"` // exact signature, or a prefix ending in '*'
	What      string `json:"what"`
}

type FixedEntry struct {
	Property string `json:"property"`
	Commit   string `json:"commit"`
	What     string `json:"what"`
}

type KnownFile struct {
	Findings []KnownFinding `json:"findings"`
	Fixed    []FixedEntry   `json:"fixed"`
}

func loadKnown() KnownFile {
	var k KnownFile
	b, err := ioutil.ReadFile(filepath.Join(verifDir(), "known_findings.json"))
	if err != nil {
		return k
	}
	if err := json.Unmarshal(b, &k); err != nil {
		fmt.Fprintln(os.Stderr, "known_findings.json unreadable:", err)
		os.Exit(2)
	}
	return k
}

func (k KnownFile) match(prop, sig string) *KnownFinding {
	for i := range k.Findings {
		f := &k.Findings[i]
		if f.Property != prop {
			continue
		}
		if f.Signature == sig {
			return f
		}
		if strings.Contains(f.Signature, "*") && wildMatch(f.Signature, sig) {
			return f
		}
	}
	return nil
}

// wildMatch matches s against a pattern in which '*' stands for any (possibly empty) substring.
func wildMatch(pat, s string) bool {
	parts := strings.Split(pat, "*")
	if !strings.HasPrefix(s, parts[0]) {
		return false
	}
	s = s[len(parts[0]):]
	for i := 1; i < len(parts); i++ {
		p := parts[i]
		if i == len(parts)-1 {
			return strings.HasSuffix(s, p)
		}
		j := strings.Index(s, p)
		if j < 0 {
			return false
		}
		s = s[j+len(p):]
	}
	return true
}

func main() {
	if len(os.Args) < 2 {
		usage()
	}
	switch os.Args[1] {
	case "check":
		if len(os.Args) < 4 {
			usage()
		}
		os.Exit(runCheck(os.Args[2], os.Args[3]))
	case "replay":
		if len(os.Args) < 3 {
			usage()
		}
		os.Exit(runReplay(os.Args[2], true))
	case "list":
		var ids []string
		for id := range checks {
			ids = append(ids, id)
		}
		sort.Strings(ids)
		fmt.Println(strings.Join(ids, " "))
	default:
		usage()
	}
}

func usage() {
	fmt.Fprintln(os.Stderr, "usage: svcmc check <property> quick|thorough | svcmc replay <file> | svcmc list")
	os.Exit(2)
}

func budget(tier string) time.Duration {
	if s := os.Getenv("VERIF_BUDGET_S"); s != "" {
		if n, err := strconv.Atoi(s); err == nil {
			return time.Duration(n) * time.Second
		}
	}
	if tier == "thorough" {
		return 15 * time.Minute
	}
	return 240 * time.Second
}

type ReplayFile struct {
	Property  string   `json:"property"`
	Tier      string   `json:"tier"`
	Run       string   `json:"run"`
	Signature string   `json:"signature"`
	Clause    string   `json:"clause"`
	Detail    string   `json:"detail"`
	Trace     []string `json:"trace"`
	Pure      bool     `json:"pure,omitempty"`
}

func runCheck(prop, tier string) int {
	spec, ok := checks[prop]
	if !ok {
		fmt.Fprintf(os.Stderr, "no check for %s\n", prop)
		return 2
	}
	if tier != "quick" && tier != "thorough" {
		usage()
	}
	seed := 0
	if s := os.Getenv("VERIF_SEED"); s != "" {
		seed, _ = strconv.Atoi(s)
	}
	start := time.Now()
	deadline := start.Add(budget(tier))
	known := loadKnown()

	var runsEv []RunEvidence
	var samples []interface{}
	var allFound []struct {
		run  string
		f    Found
		pure bool
	}
	var totStates, totTrans, totConf int64
	exhaustive := true
	hard := []string{}

	var runs []RunSpec
	if spec.Runs != nil {
		runs = spec.Runs(tier)
	}
	if only := os.Getenv("VERIF_ONLY_RUNS"); only != "" { // experiments only: a comma-separated list of run names
		var keep []RunSpec
		for _, r := range runs {
			for _, n := range strings.Split(only, ",") {
				if r.Name == n {
					keep = append(keep, r)
				}
			}
		}
		runs = keep
		pure := spec.Pure
		spec = &CheckSpec{Prop: spec.Prop, Runs: spec.Runs}
		if strings.Contains(","+only+",", ",pure,") {
			spec.Pure = pure
		}
	}
	for ri, rs := range runs {
		t0 := time.Now()
		// split the remaining budget evenly over the remaining runs
		remaining := time.Until(deadline)
		share := remaining / time.Duration(len(runs)-ri)
		e := &Engine{Sc: rs.Sc, Oracles: rs.Oracles, MonFlags: rs.Mon, DetCheck: rs.DetCheck, KeepAll: rs.KeepAll || rs.Post != nil,
			Deadline: time.Now().Add(share), Known: func(sig string) bool { return known.match(prop, sig) != nil }}
		if err := e.Run(); err != nil {
			fmt.Fprintf(os.Stderr, "run %s: %v\n", rs.Name, err)
			return 2
		}
		ev := RunEvidence{Run: rs.Name, Scenario: rs.Sc.Name, Params: rs.Sc.Params.Name, FlipIDs: rs.Sc.FlipIDs,
			Depth: rs.Sc.Depth, MaxBlocks: rs.Sc.MaxBlocks, MaxMsgs: rs.Sc.MaxMsgs,
			Completed: e.Completed, Exhaustive: e.Exhaustive, States: e.States, Transitions: e.Transitions, SelfLoops: e.SelfLoops,
			Levels: e.LevelSizes, Outcomes: e.Outcomes, Witnesses: e.Wit}
		for _, t := range rs.Sc.Templates {
			ev.Templates = append(ev.Templates, t.Name)
		}
		for _, f := range e.Found {
			allFound = append(allFound, struct {
				run  string
				f    Found
				pure bool
			}{rs.Name, *f, false})
		}
		if rs.Post != nil {
			for _, f := range rs.Post(e, &ev) {
				allFound = append(allFound, struct {
					run  string
					f    Found
					pure bool
				}{rs.Name, f, false})
			}
		}
		if rs.Conform == 0 {
			rs.Conform = 120
			if tier == "thorough" {
				rs.Conform = 1500
			}
		}
		if rs.Conform > 0 {
			n, steps, errs := conformance(e, rs.Conform)
			ev.Conformed, ev.ConformSteps = n, steps
			totConf += int64(n)
			for _, he := range errs {
				if prop == "C20" {
					// the same blocks and messages give another state on the full application (other stores, module manager,
					// another keeper instance) than on the explorer's rig: the result depends on the process
					cls := confClass(he.Msg)
					allFound = append(allFound, struct {
						run  string
						f    Found
						pure bool
					}{rs.Name, Found{Violation: viol("C20", "independent-of-process", "full-application", cls, he.Msg), Trace: append(append([]string{}, he.Trace...), "<full-application>"), Count: 1}, false})
					continue
				}
				hard = append(hard, "conformance: "+he.Msg)
			}
		}
		hard = append(hard, e.Hard...)
		ev.WallS = time.Since(t0).Seconds()
		runsEv = append(runsEv, ev)
		totStates += e.States
		totTrans += e.Transitions
		if !e.Exhaustive {
			exhaustive = false
		}
		for _, tr := range e.SampleTraces(2) {
			samples = append(samples, map[string]interface{}{"run": rs.Name, "trace": tr})
		}
		fmt.Printf("run %-28s states=%d transitions=%d depth=%d/%d exhaustive=%v wall=%.1fs\n", rs.Name, e.States, e.Transitions, e.Completed, rs.Sc.Depth, e.Exhaustive, ev.WallS)
	}

	var pureEv *PureEvidence
	if spec.Pure != nil {
		pe, found := spec.Pure(tier)
		pureEv = pe
		for _, f := range found {
			allFound = append(allFound, struct {
				run  string
				f    Found
				pure bool
			}{"pure", f, true})
		}
		for _, s := range pe.Samples {
			if len(samples) < 12 {
				samples = append(samples, s)
			}
		}
		fmt.Printf("pure grid: evaluations=%d distinct=%d\n", pe.Evaluations, pe.Distinct)
	}

	// classify
	sort.Slice(allFound, func(i, j int) bool { return allFound[i].f.Sig < allFound[j].f.Sig })
	nviol := 0
	knownSeen := map[string]bool{}
	exit := 0
	outDir := filepath.Join(verifDir(), "out", "violations")
	if d := os.Getenv("VERIF_EVIDENCE_DIR"); d != "" {
		outDir = filepath.Join(d, "violations")
	}
	for _, af := range allFound {
		if af.f.Prop != prop {
			continue // oracles of other properties never run in this check; defensive
		}
		if kf := known.match(af.f.Prop, af.f.Sig); kf != nil {
			if !knownSeen[kf.Signature] {
				knownSeen[kf.Signature] = true
				fmt.Printf("KNOWN-FINDING: property=%s %s [signature %s, %d occurrences, e.g. %s]\n", prop, kf.What, af.f.Sig, af.f.Count, strings.Join(af.f.Trace, " ; "))
			}
			continue
		}
		// confirm by replaying the trace from the root without the explorer
		rf := ReplayFile{Property: prop, Tier: tier, Run: af.run, Signature: af.f.Sig, Clause: af.f.Clause, Detail: af.f.Detail, Trace: af.f.Trace, Pure: af.pure}
		os.MkdirAll(outDir, 0o755)
		h := sha256.Sum256([]byte(af.f.Sig + af.run))
		path := filepath.Join(outDir, fmt.Sprintf("%s-%x.json", prop, h[:6]))
		b, _ := json.MarshalIndent(rf, "", " ")
		ioutil.WriteFile(path, b, 0o644)
		if !af.pure {
			okc := true
			for i := 0; i < 5; i++ {
				if runReplay(path, false) != 1 {
					okc = false
					break
				}
			}
			if !okc {
				hard = append(hard, fmt.Sprintf("violation %s did not reproduce on replay (nondeterminism in harness?)", af.f.Sig))
				continue
			}
		}
		nviol++
		exit = 1
		fmt.Printf("VIOLATION property=%s replay=%s\n", prop, path)
		fmt.Printf("  signature: %s\n  detail: %s\n  trace: %s\n", af.f.Sig, af.f.Detail, strings.Join(af.f.Trace, " ; "))
	}

	// evidence
	cov := map[string]interface{}{
		"states":                        totStates,
		"transitions":                   totTrans,
		"traces_validated_against_impl": totConf,
		"samples":                       samples,
		"exhaustive":                    exhaustive,
		"runs":                          runsEv,
		"explanation":                   "explicit-state BFS; every transition executes the real handler / EndBlocker on real SDK keepers; see DESIGN.md",
	}
	if prop == "C20" {
		cov["map_order_enumeration"] = mapOrderEnabled
		if rp := os.Getenv("VERIF_MAPGEN_REPORT"); rp != "" {
			if b, err := ioutil.ReadFile(rp); err == nil {
				var rep interface{}
				if json.Unmarshal(b, &rep) == nil {
					cov["map_range_sites"] = rep
				}
			}
		}
		if why := os.Getenv("VERIF_MAPGEN_FAILED"); why != "" {
			cov["map_order_enumeration_unavailable"] = why
		}
	}
	if totStates == 0 {
		delete(cov, "states")
		delete(cov, "transitions")
		delete(cov, "traces_validated_against_impl")
	}
	if pureEv != nil {
		cov["evaluations"] = pureEv.Evaluations
		cov["distinct_nontrivial"] = pureEv.Distinct
		cov["rule"] = pureEv.Rule
		cov["pure_counters"] = pureEv.Counters
	} else {
		// distinct non-trivial cases = distinct states reached by at least one non-self-loop transition
		cov["evaluations"] = totTrans
		cov["distinct_nontrivial"] = totStates
		cov["rule"] = "cases are (state, action) pairs enumerated breadth-first up to the stated bounds; distinct = distinct full-state hashes (complete KV dump + height/time + monitor)"
	}
	if len(samples) == 0 {
		cov["samples"] = []interface{}{"(no samples)"}
	}
	evd := map[string]interface{}{
		"property_id": prop,
		"tier":        tier,
		"seed":        seed,
		"level":       "model_checking",
		"coverage":    cov,
		"assumptions": append([]string{
			"SUT closed as in DESIGN 3.1: real auth/bank/params/service keepers over an in-memory KV base layer with baseapp's cache-wrapping discipline; token keeper = the repository's MockTokenKeeper, except in the fx-* runs (main unit, one foreign token, exchange-rate service whose rate depends on the height)",
			"bounds are those listed per run; nothing is claimed beyond them",
		}, spec.Notes...),
		"wall_s":      time.Since(start).Seconds(),
		"violations":  nviol,
		"hard_errors": hard,
	}
	evDir := filepath.Join(verifDir(), "evidence")
	if d := os.Getenv("VERIF_EVIDENCE_DIR"); d != "" {
		evDir = d
	}
	os.MkdirAll(evDir, 0o755)
	b, _ := json.MarshalIndent(evd, "", " ")
	if err := ioutil.WriteFile(filepath.Join(evDir, prop+".json"), b, 0o644); err != nil {
		fmt.Fprintln(os.Stderr, err)
		return 2
	}
	if len(hard) > 0 {
		for _, h := range hard {
			fmt.Fprintln(os.Stderr, "HARD ERROR:", h)
		}
		if exit != 1 { // a violation confirmed by replay stands whatever else went wrong
			return 3
		}
	}
	fmt.Printf("%s %s: states=%d transitions=%d violations=%d known=%d exhaustive=%v wall=%.1fs\n", prop, tier, totStates, totTrans, nviol, len(knownSeen), exhaustive, time.Since(start).Seconds())
	return exit
}

// runReplay re-executes a recorded trace without the explorer and evaluates the property's oracles on every
// step. Returns 1 if the recorded signature is reproduced, 0 if not.
func runReplay(path string, verbose bool) int {
	b, err := ioutil.ReadFile(path)
	if err != nil {
		fmt.Fprintln(os.Stderr, err)
		return 2
	}
	var rf ReplayFile
	if err := json.Unmarshal(b, &rf); err != nil {
		fmt.Fprintln(os.Stderr, err)
		return 2
	}
	spec, ok := checks[rf.Property]
	if !ok {
		return 2
	}
	if rf.Pure {
		_, found := spec.Pure(rf.Tier)
		for _, f := range found {
			if f.Sig == rf.Signature {
				if verbose {
					fmt.Printf("reproduced: %s\n  %s\n", f.Sig, f.Detail)
				}
				return 1
			}
		}
		return 0
	}
	var rs *RunSpec
	for _, r := range spec.Runs(rf.Tier) {
		if r.Name == rf.Run {
			rr := r
			rs = &rr
		}
	}
	if rs == nil {
		fmt.Fprintf(os.Stderr, "run %s not found\n", rf.Run)
		return 2
	}
	// two independent replays must agree exactly
	sigs1, log1, err1 := replayOnce(rs, rf.Trace)
	sigs2, log2, err2 := replayOnce(rs, rf.Trace)
	detClause := rf.Clause == "deterministic-replay" || rf.Clause == "independent-of-map-iteration-order"
	if err1 != nil || err2 != nil {
		if detClause {
			// the recorded path cannot be followed again: the same actions from the same state gave another state
			if verbose {
				fmt.Println("replay diverged from the recorded path (", err1, err2, "): the recorded nondeterminism is reproduced")
			}
			return 1
		}
		fmt.Fprintln(os.Stderr, "replay diverged:", err1, err2)
		return 2
	}
	if canonLog(log1, sigs1) != canonLog(log2, sigs2) {
		if detClause {
			if verbose {
				fmt.Println("two replays of the same trace differ: the recorded nondeterminism is reproduced")
			}
			return 1
		}
		fmt.Fprintln(os.Stderr, "replay nondeterministic")
		return 2
	}
	if verbose {
		for _, l := range log1 {
			fmt.Println(l)
		}
	}
	for _, s := range sigs1 {
		if s == rf.Signature {
			if verbose {
				fmt.Printf("reproduced: %s\n", s)
			}
			return 1
		}
	}
	if verbose {
		fmt.Println("not reproduced")
	}
	return 0
}

// canonLog is what two replays must agree on: every step's outcome and store diff, and the set of violated
// signatures (oracles may list several violations of one step in any order).
func canonLog(log []string, sigs []string) string {
	var keep []string
	for _, l := range log {
		if !strings.HasPrefix(l, "    !!") {
			keep = append(keep, l)
		}
	}
	ss := append([]string{}, sigs...)
	sort.Strings(ss)
	return strings.Join(keep, "\n") + "\n" + strings.Join(ss, "\n")
}

func replayOnce(rs *RunSpec, trace []string) (sigs []string, log []string, err error) {
	e := &Engine{Sc: rs.Sc, Oracles: rs.Oracles, MonFlags: rs.Mon, DetCheck: rs.DetCheck}
	s, err := e.Init()
	if err != nil {
		return nil, nil, err
	}
	x := &OCtx{Sc: e.Sc, Rig: e.rig, wit: map[string]int64{}, outc: map[string]int64{}}
	mon := NewMon()
	s.Mon = mon.Bytes()
	v := e.rig.Decode(s)
	for _, o := range e.Oracles {
		for _, vi := range o.Invariant(x, v, mon) {
			sigs = append(sigs, vi.Sig)
		}
	}
	for i, name := range trace {
		if name == "<import-orders>" {
			fresh := e.rig.Genesis(e.Sc.Params, e.Sc.Funds, e.Sc.Extra)
			for _, vi := range mapOrderGenesis(e.rig, e.Sc, s, fresh, &mapOrderStats{Sites: map[string]int64{}}) {
				sigs = append(sigs, vi.Sig)
				log = append(log, "    !! "+vi.Sig+" :: "+vi.Detail)
			}
			break
		}
		if name == "<full-application>" {
			if _, es := conformOne(e.Sc, trace[:i]); es != "" {
				cls := confClass(es)
				sg := viol("C20", "independent-of-process", "full-application", cls, "").Sig
				sigs = append(sigs, sg)
				log = append(log, "    !! "+sg+" :: "+es)
			}
			break
		}
		if name == "<query>" {
			vs, _ := queryState(e.rig, e.Sc, s)
			for _, vi := range vs {
				sigs = append(sigs, vi.Sig)
				log = append(log, "    !! "+vi.Sig+" :: "+vi.Detail)
			}
			break
		}
		if name == "<export>" {
			fresh := e.rig.Genesis(e.Sc.Params, e.Sc.Funds, e.Sc.Extra)
			r := exportPoint(e.rig, e.Sc, s, fresh)
			for _, vi := range r.viols {
				sigs = append(sigs, vi.Sig)
				log = append(log, "    !! "+vi.Sig+" :: "+vi.Detail)
			}
			break
		}
		var act *Action
		for _, a := range e.Sc.Enabled(v) {
			if a.Name == name {
				aa := a
				act = &aa
				break
			}
		}
		if act == nil {
			return nil, nil, fmt.Errorf("step %d: action %q not enabled", i, name)
		}
		post, res := Exec(e.rig, e.Sc, s, *act)
		if e.rig.Dirty() {
			// this process carries keeper memory: compare each of its steps with a process restarted from the same stores
			postF, resF := Exec(NewRig(e.Sc.Rig), e.Sc, s, *act)
			if post.StoreHash() != postF.StoreHash() || res.Outcome() != resF.Outcome() {
				sg := viol("C20", "independent-of-process", act.Kind, "keeper-memory", "").Sig
				sigs = append(sigs, sg)
				log = append(log, "    !! "+sg)
			}
		}
		if e.DetCheck {
			post2, res2 := Exec(e.rig2, e.Sc, s, *act)
			if post.StoreHash() != post2.StoreHash() || res.Outcome() != res2.Outcome() {
				sg := viol("C20", "deterministic-replay", act.Kind, "two-keeper-instances-diverge", "").Sig
				sigs = append(sigs, sg)
				log = append(log, "    !! "+sg)
			}
		}
		if e.DetCheck && mapOrderEnabled {
			for _, vi := range mapOrderCheck(e.rig, e.Sc, s, *act, post, res, &mapOrderStats{Sites: map[string]int64{}}) {
				sigs = append(sigs, vi.Sig)
				log = append(log, "    !! "+vi.Sig+" :: "+vi.Detail)
			}
		}
		pv := e.rig.Decode(post)
		pm := mon.Update(e.MonFlags, e.Sc, v, *act, res, pv)
		post.Mon = pm.Bytes()
		log = append(log, fmt.Sprintf("step %2d h=%d %-40s -> %s %s", i, s.Height, name, res.Outcome(), res.ErrString()))
		log = append(log, diffStates(s, post)...)
		t := &Trans{Pre: v, Act: *act, Res: res, Post: pv, PreMon: mon, PostMon: pm}
		halt := act.Kind == "E" && res.Panic != ""
		x.InCont = e.rig.Dirty() // a process that carries keeper memory is judged as in its continuation (explore.go)
		if act.Kind == "restart" && !res.OK() && res.Prepared != nil {
			tp := &Trans{Pre: v, Act: *act, Res: res, Post: e.rig.Decode(res.Prepared), PreMon: mon, PostMon: mon}
			for _, o := range e.Oracles {
				for _, vi := range restartPreserves(o.Prop(), x, tp) {
					sigs = append(sigs, vi.Sig)
					log = append(log, "    !! "+vi.Sig+" :: "+vi.Detail)
				}
			}
		}
		for _, o := range e.Oracles {
			if halt && o.Prop() != "C20" {
				continue // chain halt: judged by C20 only (explore.go)
			}
			if act.Kind == "restart" && res.OK() && o.Prop() != "C20" {
				for _, vi := range restartPreserves(o.Prop(), x, t) {
					sigs = append(sigs, vi.Sig)
					log = append(log, "    !! "+vi.Sig+" :: "+vi.Detail)
				}
			} else {
				for _, vi := range o.Step(x, t) {
					sigs = append(sigs, vi.Sig)
					log = append(log, "    !! "+vi.Sig+" :: "+vi.Detail)
				}
			}
			if halt {
				continue
			}
			for _, vi := range o.Invariant(x, pv, pm) {
				vi.Sig = invSig(vi.Sig, act.Kind)
				sigs = append(sigs, vi.Sig)
				log = append(log, "    !! "+vi.Sig+" :: "+vi.Detail)
			}
		}
		s, v, mon = post, pv, pm
	}
	return sigs, log, nil
}

func invSig(sig, kind string) string {
	return strings.Replace(sig, "|state|", "|"+kind+"|", 1)
}

func diffStates(a, b *State) []string {
	var out []string
	for i := 0; i < nStores; i++ {
		if i == stAuth || i == stParams {
			continue
		}
		am := map[string][]byte{}
		for _, kv := range a.Stores[i] {
			am[string(kv.K)] = kv.V
		}
		bm := map[string][]byte{}
		for _, kv := range b.Stores[i] {
			bm[string(kv.K)] = kv.V
			if old, ok := am[string(kv.K)]; !ok {
				out = append(out, fmt.Sprintf("      + %s %x = %x", storeNames[i], kv.K, kv.V))
			} else if string(old) != string(kv.V) {
				out = append(out, fmt.Sprintf("      ~ %s %x : %x -> %x", storeNames[i], kv.K, old, kv.V))
			}
		}
		for _, kv := range a.Stores[i] {
			if _, ok := bm[string(kv.K)]; !ok {
				out = append(out, fmt.Sprintf("      - %s %x", storeNames[i], kv.K))
			}
		}
	}
	return out
}

// confClass names the kind of disagreement between the explorer and the full application (no keys, no numbers).
func confClass(msg string) string {
	switch {
	case strings.Contains(msg, "service store"):
		return "service-store-differs"
	case strings.Contains(msg, "balance of"):
		return "balances-differ"
	case strings.Contains(msg, "full application panic"):
		return "full-application-panics"
	case strings.Contains(msg, "explorer"):
		return "outcomes-differ"
	}
	return "differs"
}
