package main

import (
	"fmt"
	"time"

	sdk "github.com/cosmos/cosmos-sdk/types"
	servicetypes "github.com/irismod/service/types"
)

func main() {
	r := NewRig(RigConfig{})
	o1 := sdk.AccAddress([]byte("owner1______________"))
	c1 := sdk.AccAddress([]byte("consumer1___________"))
	p1 := sdk.AccAddress([]byte("provider1___________"))
	ps := ParamSet{Name: "p", Tax: "0.1", Slash: "0.5", MaxTimeout: 3, MinDeposit: 10, Multiple: 2, Arbitration: time.Second, Complaint: time.Second}
	s := r.Genesis(ps, []Funding{{o1, 100}, {c1, 6}}, []sdk.AccAddress{p1})
	fmt.Println(len(s.Stores[0]), len(s.Stores[1]), len(s.Stores[2]), len(s.Stores[3]))
	t0 := time.Now()
	w := r.Restore(s)
	res := w.DeliverMsg(servicetypes.NewMsgDefineService("a", "", nil, o1, "", `{"input":{"type":"object"},"output":{"type":"object"}}`), nil, 0)
	fmt.Println(res.Outcome(), res.ErrString())
	res = w.DeliverMsg(servicetypes.NewMsgBindService("a", p1, sdk.NewCoins(sdk.NewInt64Coin(denom, 10)), `{"price":"2stake"}`, 1, "{}", o1), nil, 0)
	fmt.Println(res.Outcome(), res.ErrString())
	th := make([]byte, 32)
	res = w.DeliverMsg(servicetypes.NewMsgCallService("a", []sdk.AccAddress{p1}, c1, `{"header":{},"body":{}}`, sdk.NewCoins(sdk.NewInt64Coin(denom, 5)), 1, false, false, 0, 0), th, 0)
	fmt.Println(res.Outcome(), res.ErrString())
	res = w.EndBlock()
	fmt.Println(res.Outcome(), res.ErrString(), res.Events)
	st := w.Flush()
	fmt.Println(len(st[3]), time.Since(t0))
	for _, kv := range st[3] {
		fmt.Printf("%x\n", kv.K)
	}
}
