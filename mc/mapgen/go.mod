module mapgen

go 1.21
