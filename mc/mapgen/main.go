// mapgen scans the non-generated sources of irismod/service for `range` statements over maps (type-aware, using the
// export data the go tool leaves in the build cache) and writes a `go build -overlay` set in which every such range
// iterates the keys in an order chosen by a hook (types.VerifMapOrder). /repo itself is not modified.
//
// usage: mapgen <module-dir> <out-dir>      prints a JSON report on stdout
package main

import (
	"bytes"
	"encoding/json"
	"fmt"
	"go/ast"
	"go/importer"
	"go/parser"
	"go/printer"
	"go/token"
	"go/types"
	"io"
	"os"
	"os/exec"
	"path/filepath"
	"strings"
)

type listPkg struct {
	ImportPath string
	Dir        string
	Export     string
	GoFiles    []string
	Module     *struct{ Path string }
}

type site struct {
	File      string `json:"file"`
	Line      int    `json:"line"`
	Expr      string `json:"expr"`
	KeyType   string `json:"key_type"`
	Rewritten bool   `json:"rewritten"`
	Why       string `json:"why,omitempty"`
}

const helper = `package types

import (
	"reflect"
	"sort"
)

// VerifMapOrder is set by the verification driver: given the site of a map range and the sorted keys it returns the
// order in which the range visits them. nil = sorted order.
var VerifMapOrder func(site string, keys []string) []string

// VerifMapKeys lists the (string) keys of m in the order chosen by VerifMapOrder.
func VerifMapKeys(site string, m interface{}) []string {
	v := reflect.ValueOf(m)
	keys := make([]string, 0, v.Len())
	for _, k := range v.MapKeys() {
		keys = append(keys, k.String())
	}
	sort.Strings(keys)
	if VerifMapOrder != nil {
		return VerifMapOrder(site, keys)
	}
	return keys
}
`

func main() {
	if len(os.Args) != 3 {
		fmt.Fprintln(os.Stderr, "usage: mapgen <module-dir> <out-dir>")
		os.Exit(2)
	}
	modDir, outDir := os.Args[1], os.Args[2]
	os.MkdirAll(outDir, 0o755)
	cmd := exec.Command("go", "list", "-export", "-deps", "-json", ".", "./keeper", "./types")
	cmd.Dir = modDir
	cmd.Stderr = os.Stderr
	out, err := cmd.Output()
	if err != nil {
		fmt.Fprintln(os.Stderr, "go list failed:", err)
		os.Exit(2)
	}
	exports := map[string]string{}
	var targets []listPkg
	dec := json.NewDecoder(bytes.NewReader(out))
	for {
		var p listPkg
		if err := dec.Decode(&p); err == io.EOF {
			break
		} else if err != nil {
			fmt.Fprintln(os.Stderr, err)
			os.Exit(2)
		}
		if p.Export != "" {
			exports[p.ImportPath] = p.Export
		}
		if p.Module != nil && p.Module.Path == "github.com/irismod/service" {
			switch p.ImportPath {
			case "github.com/irismod/service", "github.com/irismod/service/keeper", "github.com/irismod/service/types":
				targets = append(targets, p)
			}
		}
	}
	fset := token.NewFileSet()
	imp := importer.ForCompiler(fset, "gc", func(path string) (io.ReadCloser, error) {
		f, ok := exports[path]
		if !ok {
			return nil, fmt.Errorf("no export data for %s", path)
		}
		return os.Open(f)
	})
	var sites []site
	replace := map[string]string{}
	for _, p := range targets {
		var files []*ast.File
		var names []string
		for _, f := range p.GoFiles {
			if strings.HasSuffix(f, ".pb.go") || strings.HasSuffix(f, ".pb.gw.go") {
				// generated code is parsed for type checking but never rewritten
			}
			af, err := parser.ParseFile(fset, filepath.Join(p.Dir, f), nil, parser.ParseComments)
			if err != nil {
				fmt.Fprintln(os.Stderr, err)
				os.Exit(2)
			}
			files = append(files, af)
			names = append(names, f)
		}
		info := &types.Info{Types: map[ast.Expr]types.TypeAndValue{}}
		conf := types.Config{Importer: imp, Error: func(err error) {}}
		if _, err := conf.Check(p.ImportPath, fset, files, info); err != nil {
			// type errors in unrelated corners do not matter as long as the range operands are typed
		}
		inTypesPkg := strings.HasSuffix(p.ImportPath, "/types")
		for i, af := range files {
			if strings.HasSuffix(names[i], ".pb.go") || strings.HasSuffix(names[i], ".pb.gw.go") {
				continue
			}
			changed := false
			n := 0
			ast.Inspect(af, func(nd ast.Node) bool {
				rs, ok := nd.(*ast.RangeStmt)
				if !ok {
					return true
				}
				tv, ok := info.Types[rs.X]
				if !ok || tv.Type == nil {
					return true
				}
				mt, ok := tv.Type.Underlying().(*types.Map)
				if !ok {
					return true
				}
				pos := fset.Position(rs.Pos())
				var xb bytes.Buffer
				printer.Fprint(&xb, fset, rs.X)
				st := site{File: pos.Filename, Line: pos.Line, Expr: xb.String(), KeyType: mt.Key().String()}
				if b, ok := mt.Key().Underlying().(*types.Basic); !ok || b.Kind() != types.String || mt.Key().String() != "string" {
					st.Why = "key type is not string"
					sites = append(sites, st)
					return true
				}
				n++
				siteName := fmt.Sprintf("%s:%d", filepath.Base(pos.Filename), pos.Line)
				fun := ast.Expr(ast.NewIdent("VerifMapKeys"))
				if !inTypesPkg {
					fun = &ast.SelectorExpr{X: ast.NewIdent("types"), Sel: ast.NewIdent("VerifMapKeys")}
				}
				call := &ast.CallExpr{Fun: fun, Args: []ast.Expr{&ast.BasicLit{Kind: token.STRING, Value: fmt.Sprintf("%q", siteName)}, rs.X}}
				keyIdent := ast.NewIdent(fmt.Sprintf("verifKey%d", n))
				var pre []ast.Stmt
				if id, ok := rs.Key.(*ast.Ident); ok && id.Name != "_" {
					pre = append(pre, &ast.AssignStmt{Lhs: []ast.Expr{ast.NewIdent(id.Name)}, Tok: rs.Tok, Rhs: []ast.Expr{keyIdent}},
						&ast.AssignStmt{Lhs: []ast.Expr{ast.NewIdent("_")}, Tok: token.ASSIGN, Rhs: []ast.Expr{ast.NewIdent(id.Name)}})
				}
				if rs.Value != nil {
					if id, ok := rs.Value.(*ast.Ident); ok && id.Name != "_" {
						pre = append(pre, &ast.AssignStmt{Lhs: []ast.Expr{ast.NewIdent(id.Name)}, Tok: rs.Tok, Rhs: []ast.Expr{&ast.IndexExpr{X: rs.X, Index: keyIdent}}},
							&ast.AssignStmt{Lhs: []ast.Expr{ast.NewIdent("_")}, Tok: token.ASSIGN, Rhs: []ast.Expr{ast.NewIdent(id.Name)}})
					}
				}
				rs.Key = ast.NewIdent("_")
				rs.Value = keyIdent
				rs.Tok = token.DEFINE
				rs.X = call
				rs.Body.List = append(pre, rs.Body.List...)
				st.Rewritten = true
				sites = append(sites, st)
				changed = true
				return true
			})
			if changed {
				var buf bytes.Buffer
				if err := printer.Fprint(&buf, fset, af); err != nil {
					fmt.Fprintln(os.Stderr, err)
					os.Exit(2)
				}
				dst := filepath.Join(outDir, strings.ReplaceAll(strings.TrimPrefix(filepath.Join(p.Dir, names[i]), modDir+"/"), "/", "__"))
				if err := os.WriteFile(dst, buf.Bytes(), 0o644); err != nil {
					fmt.Fprintln(os.Stderr, err)
					os.Exit(2)
				}
				replace[filepath.Join(p.Dir, names[i])] = dst
			}
		}
	}
	hp := filepath.Join(outDir, "zz_verifmaps.go")
	os.WriteFile(hp, []byte(helper), 0o644)
	replace[filepath.Join(modDir, "types", "zz_verifmaps.go")] = hp
	ov, _ := json.MarshalIndent(map[string]interface{}{"Replace": replace}, "", " ")
	os.WriteFile(filepath.Join(outDir, "overlay.json"), ov, 0o644)
	rep, _ := json.MarshalIndent(map[string]interface{}{"sites": sites, "overlay": filepath.Join(outDir, "overlay.json")}, "", " ")
	fmt.Println(string(rep))
}
