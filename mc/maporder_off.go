//go:build !verifmaps
// +build !verifmaps

package main

// Without the map-range overlay (build tag verifmaps) the order of map iteration cannot be chosen.
const mapOrderEnabled = false

type mapOrderStats struct {
	Transitions int64 // transitions that ranged over a map with >= 2 keys
	Orders      int64 // alternative iteration orders executed
	Capped      int64 // transitions whose full product of orders exceeded the cap (each range permuted separately)
	Sites       map[string]int64
}

func mapOrderCheck(rig *Rig, sc *Scenario, pre *State, a Action, post *State, res *StepResult, st *mapOrderStats) []Violation {
	return nil
}

func mapOrderGenesis(rig *Rig, sc *Scenario, s *State, fresh *State, st *mapOrderStats) []Violation {
	return nil
}
