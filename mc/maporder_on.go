//go:build verifmaps
// +build verifmaps

package main

import (
	"bytes"
	"fmt"
	"runtime"
	"strconv"
	"strings"
	"sync"

	service "github.com/irismod/service"
	st "github.com/irismod/service/types"
)

// Built with the overlay produced by mapgen: every `range` over a map in the module asks types.VerifMapOrder for
// the order. The driver re-executes each transition that ranges over >= 2 keys under every permutation.
const mapOrderEnabled = true

type mapOrderStats struct {
	Transitions int64
	Orders      int64
	Capped      int64
	Sites       map[string]int64
}

type mapCall struct {
	site string
	n    int
}

type mapPlan struct {
	calls  []mapCall
	choose map[int][]int // call index -> permutation of key positions
	idx    int
}

var plans sync.Map // goroutine id -> *mapPlan

func gid() int64 {
	var buf [64]byte
	n := runtime.Stack(buf[:], false)
	// "goroutine 123 [running]:..."
	f := bytes.Fields(buf[:n])
	id, _ := strconv.ParseInt(string(f[1]), 10, 64)
	return id
}

func init() {
	st.VerifMapOrder = func(site string, keys []string) []string {
		v, ok := plans.Load(gid())
		if !ok {
			return keys
		}
		p := v.(*mapPlan)
		i := p.idx
		p.idx++
		p.calls = append(p.calls, mapCall{site, len(keys)})
		if perm, ok := p.choose[i]; ok && len(perm) == len(keys) {
			out := make([]string, len(keys))
			for j, pj := range perm {
				out[j] = keys[pj]
			}
			return out
		}
		return keys
	}
}

func withPlan(p *mapPlan, f func()) {
	g := gid()
	plans.Store(g, p)
	defer plans.Delete(g)
	f()
}

func permutations(n int) [][]int {
	if n <= 1 {
		return [][]int{{0}}
	}
	var out [][]int
	var rec func(cur []int, used []bool)
	rec = func(cur []int, used []bool) {
		if len(cur) == n {
			out = append(out, append([]int{}, cur...))
			return
		}
		for i := 0; i < n; i++ {
			if !used[i] {
				used[i] = true
				rec(append(cur, i), used)
				used[i] = false
			}
		}
	}
	rec(nil, make([]bool, n))
	return out
}

// permutedSites names, in sorted order, the map ranges that a choice iterates in a non-sorted order.
func permutedSites(calls []mapCall, choose map[int][]int) string {
	set := map[string]bool{}
	for i, p := range choose {
		for j, pj := range p {
			if j != pj {
				set[calls[i].site] = true
			}
		}
	}
	return strings.Join(sortedKeys(set), "+")
}

const mapOrderCap = 720

// enumerate calls run(choose) for every combination of iteration orders of the recorded map ranges.
func enumerateOrders(calls []mapCall, stt *mapOrderStats, run func(choose map[int][]int)) {
	var multi []int
	total := 1
	for i, c := range calls {
		if c.n >= 2 {
			multi = append(multi, i)
			f := 1
			for k := 2; k <= c.n; k++ {
				f *= k
			}
			if total <= mapOrderCap {
				total *= f
			}
			stt.Sites[c.site]++
		}
	}
	if len(multi) == 0 {
		return
	}
	stt.Transitions++
	if total <= mapOrderCap {
		// full product
		var rec func(k int, choose map[int][]int)
		rec = func(k int, choose map[int][]int) {
			if k == len(multi) {
				identity := true
				for _, p := range choose {
					for j, pj := range p {
						if j != pj {
							identity = false
						}
					}
				}
				if !identity {
					stt.Orders++
					run(choose)
				}
				return
			}
			for _, p := range permutations(calls[multi[k]].n) {
				choose[multi[k]] = p
				rec(k+1, choose)
			}
			delete(choose, multi[k])
		}
		rec(0, map[int][]int{})
		return
	}
	stt.Capped++
	for _, i := range multi {
		perms := permutations(calls[i].n)
		if len(perms) > mapOrderCap {
			perms = perms[:mapOrderCap]
		}
		for _, p := range perms[1:] {
			stt.Orders++
			run(map[int][]int{i: p})
		}
	}
}

func mapOrderCheck(rig *Rig, sc *Scenario, pre *State, a Action, post *State, res *StepResult, stt *mapOrderStats) []Violation {
	rec := &mapPlan{}
	var p0 *State
	var r0 *StepResult
	withPlan(rec, func() { p0, r0 = Exec(rig, sc, pre, a) })
	var out []Violation
	if p0.StoreHash() != post.StoreHash() || r0.Outcome() != res.Outcome() {
		out = append(out, viol("C20", "deterministic-replay", a.Kind, "sorted-map-order-diverges", "execution with sorted map iteration differs from the runtime's order"))
	}
	enumerateOrders(rec.calls, stt, func(choose map[int][]int) {
		var p1 *State
		var r1 *StepResult
		withPlan(&mapPlan{choose: choose}, func() { p1, r1 = Exec(rig, sc, pre, a) })
		if p1.StoreHash() != p0.StoreHash() || r1.Outcome() != r0.Outcome() || fmt.Sprint(eventsNoOrder(r1)) != fmt.Sprint(eventsNoOrder(r0)) {
			site := permutedSites(rec.calls, choose)
			out = append(out, viol("C20", "independent-of-map-iteration-order", a.Kind, site,
				fmt.Sprintf("iterating %s in another order changes the result of %s (outcome %s vs %s)", site, a.Name, r1.Outcome(), r0.Outcome())))
		}
	})
	return out
}

// the multiset of emitted events must not depend on the order either (their sequence may)
func eventsNoOrder(r *StepResult) map[string]int {
	m := map[string]int{}
	for _, e := range r.Events {
		m[e.Type+fmt.Sprint(e.Attrs)]++
	}
	return m
}

// mapOrderGenesis imports the genesis exported from s under every order of its two maps.
func mapOrderGenesis(rig *Rig, sc *Scenario, s *State, fresh *State, stt *mapOrderStats) []Violation {
	gs := service.ExportGenesis(rig.ReadCtx(s), rig.sk)
	// as after a zero-height preparation: import accepts only paused contexts with completed batches
	for _, c := range gs.RequestContexts {
		c.State = st.PAUSED
		c.BatchState = st.BATCHCOMPLETED
	}
	var out []Violation
	imp := func(p *mapPlan) (h [32]byte, perr string) {
		w := rig.Restore(fresh)
		withPlan(p, func() {
			perr, _ = tryPanic(func() {
				if err := st.ValidateGenesis(*gs); err != nil {
					panic(err.Error())
				}
				service.InitGenesis(w.ctx, rig.sk, *gs)
			})
		})
		return (&State{Height: fresh.Height, Time: fresh.Time, Stores: w.Flush()}).StoreHash(), perr
	}
	rec := &mapPlan{}
	h0, e0 := imp(rec)
	enumerateOrders(rec.calls, stt, func(choose map[int][]int) {
		h1, e1 := imp(&mapPlan{choose: choose})
		if h1 != h0 || e1 != e0 {
			site := permutedSites(rec.calls, choose)
			out = append(out, viol("C20", "independent-of-map-iteration-order", "import", site, "importing the same genesis with "+site+" iterated in another order gives a different state"))
		}
	})
	return out
}
