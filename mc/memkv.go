package main

import (
	"bytes"
	"io"
	"sort"

	"github.com/cosmos/cosmos-sdk/store/cachekv"
	"github.com/cosmos/cosmos-sdk/store/tracekv"
	storetypes "github.com/cosmos/cosmos-sdk/store/types"
)

// KV is one key/value pair of a store dump.
type KV struct {
	K, V []byte
}

// memKV is the base layer of a world: a sorted slice of pairs that implements
// the SDK's KVStore. It has no goroutines and no locks (unlike tm-db's MemDB),
// so iteration order and timing are a pure function of its content.
// The slice handed to newMemKV is never modified: the first write copies it.
type memKV struct {
	kvs    []KV
	shared bool
}

var _ storetypes.KVStore = (*memKV)(nil)

func newMemKV(kvs []KV) *memKV { return &memKV{kvs: kvs, shared: true} }

func (m *memKV) own() {
	if m.shared {
		c := make([]KV, len(m.kvs), len(m.kvs)+16)
		copy(c, m.kvs)
		m.kvs = c
		m.shared = false
	}
}

func (m *memKV) find(key []byte) (int, bool) {
	i := sort.Search(len(m.kvs), func(i int) bool { return bytes.Compare(m.kvs[i].K, key) >= 0 })
	return i, i < len(m.kvs) && bytes.Equal(m.kvs[i].K, key)
}

func (m *memKV) GetStoreType() storetypes.StoreType { return storetypes.StoreTypeDB }
func (m *memKV) CacheWrap() storetypes.CacheWrap    { return cachekv.NewStore(m) }
func (m *memKV) CacheWrapWithTrace(w io.Writer, tc storetypes.TraceContext) storetypes.CacheWrap {
	return cachekv.NewStore(tracekv.NewStore(m, w, tc))
}

func (m *memKV) Get(key []byte) []byte {
	if key == nil {
		panic("nil key")
	}
	if i, ok := m.find(key); ok {
		return m.kvs[i].V
	}
	return nil
}

func (m *memKV) Has(key []byte) bool {
	if key == nil {
		panic("nil key")
	}
	_, ok := m.find(key)
	return ok
}

func (m *memKV) Set(key, value []byte) {
	if key == nil || value == nil {
		panic("nil key or value")
	}
	m.own()
	k := append([]byte{}, key...)
	v := append([]byte{}, value...)
	i, ok := m.find(key)
	if ok {
		m.kvs[i].V = v
		return
	}
	m.kvs = append(m.kvs, KV{})
	copy(m.kvs[i+1:], m.kvs[i:])
	m.kvs[i] = KV{k, v}
}

func (m *memKV) Delete(key []byte) {
	if key == nil {
		panic("nil key")
	}
	i, ok := m.find(key)
	if !ok {
		return
	}
	m.own()
	m.kvs = append(m.kvs[:i], m.kvs[i+1:]...)
}

func (m *memKV) Iterator(start, end []byte) storetypes.Iterator {
	return m.iter(start, end, false)
}

func (m *memKV) ReverseIterator(start, end []byte) storetypes.Iterator {
	return m.iter(start, end, true)
}

func (m *memKV) iter(start, end []byte, rev bool) storetypes.Iterator {
	lo := 0
	if start != nil {
		lo = sort.Search(len(m.kvs), func(i int) bool { return bytes.Compare(m.kvs[i].K, start) >= 0 })
	}
	hi := len(m.kvs)
	if end != nil {
		hi = sort.Search(len(m.kvs), func(i int) bool { return bytes.Compare(m.kvs[i].K, end) >= 0 })
	}
	if hi < lo {
		hi = lo
	}
	// snapshot of the range: later writes to the store do not disturb the iterator
	items := make([]KV, hi-lo)
	copy(items, m.kvs[lo:hi])
	if rev {
		for i, j := 0, len(items)-1; i < j; i, j = i+1, j-1 {
			items[i], items[j] = items[j], items[i]
		}
	}
	return &memIter{items: items, start: start, end: end}
}

type memIter struct {
	items      []KV
	pos        int
	start, end []byte
}

func (it *memIter) Domain() ([]byte, []byte) { return it.start, it.end }
func (it *memIter) Valid() bool              { return it.pos < len(it.items) }
func (it *memIter) Next() {
	if !it.Valid() {
		panic("memIter: Next on invalid iterator")
	}
	it.pos++
}
func (it *memIter) Key() []byte {
	if !it.Valid() {
		panic("memIter: Key on invalid iterator")
	}
	return it.items[it.pos].K
}
func (it *memIter) Value() []byte {
	if !it.Valid() {
		panic("memIter: Value on invalid iterator")
	}
	return it.items[it.pos].V
}
func (it *memIter) Error() error { return nil }
func (it *memIter) Close() error { return nil }

// dump returns the current content (shared, must not be modified by the caller).
func (m *memKV) dump() []KV {
	m.shared = true
	return m.kvs
}
