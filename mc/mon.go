package main

import (
	"encoding/json"
)

// MonFlags selects which history variables a run tracks. Untracked ones stay empty, so runs whose oracles
// need no history merge more states.
type MonFlags struct {
	Vol     bool // accepted responses per (consumer, service, provider)            — C07
	Req     bool // per live request: provider, issue height, timeout at issue, answered — C08
	Ctx     bool // per live context: batch start heights, steadiness, largest total    — C10
	CB      bool // response callbacks seen per (context, batch)                       — C12
	Kill    bool // contexts for which a kill succeeded                                — C16
	Restart bool // contexts the owning module started again from inside a state callback — C11 (re-entrant run)
	Dis     bool // block time at which each binding last became unavailable            — C03
}

type ReqMon struct {
	Prov     string `json:"p"`
	IssueH   int64  `json:"h"`
	Timeout  int64  `json:"t"`
	Answered bool   `json:"a,omitempty"`
}

type CtxMon struct {
	Created   int64  `json:"c"`           // height of the block containing the call
	Batches   int64  `json:"n"`           // counter advances observed
	LastStart int64  `json:"s,omitempty"` // height whose end-of-block advanced the counter last
	LastExp   int64  `json:"x,omitempty"` // expiry height of that batch (LastStart + timeout in force then)
	Steady    bool   `json:"y,omitempty"` // since LastStart: always running, timeout and frequency unchanged
	Freq      uint64 `json:"f,omitempty"` // frequency in force at LastStart
	Timeout   int64  `json:"t,omitempty"` // timeout in force at LastStart
	MaxTotal  int64  `json:"m"`           // largest total ever in force
	Inf       bool   `json:"i,omitempty"` // a negative (unbounded) total was in force at some point
}

// Mon holds the history variables. It is part of the state identity.
type Mon struct {
	Vol       map[string]uint64 `json:"vol,omitempty"`
	VolBase   map[string]uint64 `json:"volbase,omitempty"` // responses delivered before the chain was restarted from a zero-height export
	Req       map[string]ReqMon `json:"req,omitempty"`
	Ctx       map[string]CtxMon `json:"ctx,omitempty"`
	CB        map[string]int    `json:"cb,omitempty"`
	Killed    map[string]bool   `json:"killed,omitempty"`
	Dis       map[string]int64  `json:"dis,omitempty"`
	Restarted map[string]bool   `json:"restarted,omitempty"`
}

func NewMon() *Mon { return &Mon{} }

func (m *Mon) Bytes() []byte {
	if len(m.Vol) == 0 && len(m.VolBase) == 0 && len(m.Req) == 0 && len(m.Ctx) == 0 && len(m.CB) == 0 && len(m.Killed) == 0 && len(m.Dis) == 0 && len(m.Restarted) == 0 {
		return nil
	}
	b, err := json.Marshal(m) // map keys are emitted sorted: canonical
	if err != nil {
		panic(err)
	}
	return b
}

func ParseMon(b []byte) *Mon {
	m := &Mon{}
	if len(b) == 0 {
		return m
	}
	if err := json.Unmarshal(b, m); err != nil {
		panic(err)
	}
	return m
}

func (m *Mon) clone() *Mon {
	c := &Mon{}
	if len(m.VolBase) > 0 {
		c.VolBase = make(map[string]uint64, len(m.VolBase))
		for k, v := range m.VolBase {
			c.VolBase[k] = v
		}
	}
	if len(m.Vol) > 0 {
		c.Vol = make(map[string]uint64, len(m.Vol))
		for k, v := range m.Vol {
			c.Vol[k] = v
		}
	}
	if len(m.Req) > 0 {
		c.Req = make(map[string]ReqMon, len(m.Req))
		for k, v := range m.Req {
			c.Req[k] = v
		}
	}
	if len(m.Ctx) > 0 {
		c.Ctx = make(map[string]CtxMon, len(m.Ctx))
		for k, v := range m.Ctx {
			c.Ctx[k] = v
		}
	}
	if len(m.CB) > 0 {
		c.CB = make(map[string]int, len(m.CB))
		for k, v := range m.CB {
			c.CB[k] = v
		}
	}
	if len(m.Dis) > 0 {
		c.Dis = make(map[string]int64, len(m.Dis))
		for k, v := range m.Dis {
			c.Dis[k] = v
		}
	}
	if len(m.Restarted) > 0 {
		c.Restarted = make(map[string]bool, len(m.Restarted))
		for k, v := range m.Restarted {
			c.Restarted[k] = v
		}
	}
	if len(m.Killed) > 0 {
		c.Killed = make(map[string]bool, len(m.Killed))
		for k, v := range m.Killed {
			c.Killed[k] = v
		}
	}
	return c
}

func volKey(consumer []byte, svc string, prov []byte) string {
	return hexs(consumer) + "|" + svc + "|" + hexs(prov)
}

// Update computes the monitor of the successor from observed facts only.
func (m *Mon) Update(f MonFlags, sc *Scenario, pre *View, a Action, res *StepResult, post *View) *Mon {
	if !f.Vol && !f.Req && !f.Ctx && !f.CB && !f.Kill && !f.Dis && !f.Restart {
		return m
	}
	if a.Kind == "restart" && res.OK() {
		return monAfterRestart(f, m, post)
	}
	n := m.clone()
	if f.Vol {
		// every response record that appears is one accepted response
		for id, r := range post.Resps {
			if _, had := pre.Resps[id]; had {
				continue
			}
			if c := ctxOfResp(pre, post, r.RequestContextId); c != nil {
				if n.Vol == nil {
					n.Vol = map[string]uint64{}
				}
				n.Vol[volKey(r.Consumer, c.ServiceName, r.Provider)]++
			}
		}
	}
	if f.Req {
		for id, r := range post.Reqs {
			if _, had := pre.Reqs[id]; had {
				continue
			}
			to := int64(0)
			if c := post.Ctxs[hexs(r.RequestContextId)]; c != nil {
				to = c.Timeout
			}
			if n.Req == nil {
				n.Req = map[string]ReqMon{}
			}
			// a module-service call issues and answers its request within one message
			_, answered := post.Resps[id]
			n.Req[id] = ReqMon{Prov: hexs(r.Provider), IssueH: pre.H, Timeout: to, Answered: answered}
		}
		if a.Kind == "respond" && res.OK() {
			if e, ok := n.Req[a.Req]; ok {
				e.Answered = true
				n.Req[a.Req] = e
			}
		}
		for id, e := range n.Req {
			// forget a request once its record and its pending marker are gone and its expiry block has ended (a record that vanishes
			// earlier keeps its entry, so the "pending until the expiry block ends" invariant can object)
			if _, ok := post.Reqs[id]; !ok && !post.ActiveByID[id] && post.H > e.IssueH+e.Timeout {
				delete(n.Req, id)
			}
		}
	}
	if f.Ctx {
		for id, c := range post.Ctxs {
			e, had := n.Ctx[id]
			if !had {
				e = CtxMon{Created: pre.H, MaxTotal: c.RepeatedTotal}
			}
			pc := pre.Ctxs[id]
			if c.RepeatedTotal > e.MaxTotal {
				e.MaxTotal = c.RepeatedTotal
			}
			if c.RepeatedTotal < 0 {
				e.Inf = true
			}
			if pc != nil && c.BatchCounter != pc.BatchCounter {
				e.Batches += int64(c.BatchCounter) - int64(pc.BatchCounter)
				e.LastStart = pre.H
				e.Timeout = pc.Timeout
				e.Freq = pc.RepeatedFrequency
				e.LastExp = pre.H + pc.Timeout
				e.Steady = true
			}
			if e.Steady && e.LastStart != 0 {
				if c.State.String() != "running" || c.Timeout != e.Timeout || c.RepeatedFrequency != e.Freq {
					e.Steady = false
				}
			}
			if n.Ctx == nil {
				n.Ctx = map[string]CtxMon{}
			}
			n.Ctx[id] = e
		}
		for id := range n.Ctx {
			if _, ok := post.Ctxs[id]; !ok {
				delete(n.Ctx, id)
			}
		}
	}
	if f.Dis {
		for _, br := range post.Bindings {
			b := br.B
			k := bkey(b.ServiceName, b.Provider)
			pb := pre.Binding(b.ServiceName, b.Provider)
			wasAvail := pb != nil && pb.Available
			switch {
			case b.Available:
				delete(n.Dis, k)
			case wasAvail || pb == nil:
				if n.Dis == nil {
					n.Dis = map[string]int64{}
				}
				n.Dis[k] = pre.S.Time
			}
		}
	}
	if f.Restart {
		for _, cb := range res.Callbacks {
			if cb.Kind == "restart" {
				if n.Restarted == nil {
					n.Restarted = map[string]bool{}
				}
				n.Restarted[cb.Ctx] = true
			}
		}
		for id := range n.Restarted {
			if _, ok := post.Ctxs[id]; !ok {
				delete(n.Restarted, id)
			}
		}
	}
	if f.Kill {
		if (a.Kind == "kill" || a.Kind == "mkill") && res.OK() {
			if n.Killed == nil {
				n.Killed = map[string]bool{}
			}
			n.Killed[a.Ctx] = true
		}
		for _, cb := range res.Callbacks { // kills made by the owning module from inside a callback
			if cb.Kind == "kill" || cb.Kind == "selfkill" {
				if n.Killed == nil {
					n.Killed = map[string]bool{}
				}
				n.Killed[cb.Ctx] = true
			}
		}
		for id := range n.Killed {
			if _, ok := post.Ctxs[id]; !ok {
				delete(n.Killed, id)
			}
		}
	}
	if f.CB {
		for _, cb := range res.Callbacks {
			if cb.Kind == "response" {
				if n.CB == nil {
					n.CB = map[string]int{}
				}
				n.CB[cbKey(cb.Ctx, cb.BatchCounter)]++
			}
		}
		for k := range n.CB {
			// forget batches of contexts that no longer exist
			if _, ok := post.Ctxs[k[:80]]; !ok {
				delete(n.CB, k)
			}
		}
	}
	return n
}

func cbKey(ctx string, counter uint64) string {
	return ctx + "#" + uitoa(counter)
}

func uitoa(u uint64) string {
	b, _ := json.Marshal(u)
	return string(b)
}
