package main

import (
	"math/big"
	"time"

	sdk "github.com/cosmos/cosmos-sdk/types"
	authtypes "github.com/cosmos/cosmos-sdk/x/auth/types"

	servicekeeper "github.com/irismod/service/keeper"
	st "github.com/irismod/service/types"
)

var (
	reqAcc  = authtypes.NewModuleAddress(st.RequestAccName)
	depAcc  = authtypes.NewModuleAddress(st.DepositAccName)
	feeColl = authtypes.NewModuleAddress(authtypes.FeeCollectorName)
)

func ctxOfResp(pre, post *View, id []byte) *st.RequestContext {
	k := hexs(id)
	if c, ok := post.Ctxs[k]; ok {
		return c
	}
	if c, ok := pre.Ctxs[k]; ok {
		return c
	}
	return nil
}

func bi(n int64) *big.Int { return big.NewInt(n) }

// baseOracle gives oracles no-op defaults.
type baseOracle struct{}

func (baseOracle) Invariant(x *OCtx, v *View, m *Mon) []Violation { return nil }
func (baseOracle) Step(x *OCtx, t *Trans) []Violation             { return nil }

func addrBech(a []byte) string { return sdk.AccAddress(a).String() }

type servicekeeperT = servicekeeper.Keeper

func stDef(name string) st.ServiceDefinition {
	return st.NewServiceDefinition(name, "d", nil, AU, "ad", schemasOK)
}

func stBinding(svc string, prov sdk.AccAddress, pricing string) st.ServiceBinding {
	return st.NewServiceBinding(svc, prov, sdk.NewCoins(sdk.NewInt64Coin(denom, 0)), pricing, 1, "{}", true, time.Time{}, prov)
}
