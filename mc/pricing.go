package main

import (
	"encoding/json"
	"math/big"
	"regexp"
	"time"
)

// Independent parse of the published pricing text (DESIGN 9.A). Nothing here calls the module's arithmetic.

type refPromoT struct {
	Start, End time.Time
	Disc       *big.Rat
}
type refPromoV struct {
	Vol  uint64
	Disc *big.Rat
}
type refPricing struct {
	Base   *big.Int
	Denom  string
	ByTime []refPromoT
	ByVol  []refPromoV
}

var rePrice = regexp.MustCompile(`^(\d+)(\.\d+)?([a-z][a-z0-9]{2,7})$`)

func parseRefPricing(text string) refPricing {
	var raw struct {
		Price string `json:"price"`
		T     []struct {
			Start    time.Time `json:"start_time"`
			End      time.Time `json:"end_time"`
			Discount string    `json:"discount"`
		} `json:"promotions_by_time"`
		V []struct {
			Volume   uint64 `json:"volume"`
			Discount string `json:"discount"`
		} `json:"promotions_by_volume"`
	}
	p := refPricing{Base: new(big.Int)}
	if err := json.Unmarshal([]byte(text), &raw); err != nil {
		return p
	}
	if m := rePrice.FindStringSubmatch(raw.Price); m != nil {
		p.Base.SetString(m[1], 10) // scale 0: the decimal part is truncated
		p.Denom = m[3]
	}
	for _, t := range raw.T {
		d, _ := new(big.Rat).SetString(t.Discount)
		p.ByTime = append(p.ByTime, refPromoT{t.Start, t.End, d})
	}
	for _, v := range raw.V {
		d, _ := new(big.Rat).SetString(v.Discount)
		p.ByVol = append(p.ByVol, refPromoV{v.Volume, d})
	}
	return p
}

func basePriceOf(text string) *big.Int { return parseRefPricing(text).Base }

// Price = max(1, floor(base * dT * dV)).
func (p refPricing) Price(t time.Time, vol uint64) *big.Int {
	x := new(big.Rat).SetInt(p.Base)
	for _, w := range p.ByTime {
		if !t.Before(w.Start) && t.Before(w.End) {
			x.Mul(x, w.Disc)
			break
		}
	}
	var dv *big.Rat
	for _, w := range p.ByVol {
		if w.Vol <= vol {
			dv = w.Disc
		}
	}
	if dv != nil {
		x.Mul(x, dv)
	}
	r := new(big.Int).Quo(x.Num(), x.Denom())
	if r.Cmp(big.NewInt(1)) < 0 {
		return big.NewInt(1)
	}
	return r
}
