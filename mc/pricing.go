package main

import (
	"encoding/json"
	"math/big"
	"regexp"
	"time"
)

// Independent parse of the published pricing text (DESIGN 9.A). Nothing here calls the module's arithmetic.

type refPromoT struct {
	Start, End time.Time
	Disc       *big.Rat
}
type refPromoV struct {
	Vol  uint64
	Disc *big.Rat
}
type refPricing struct {
	Base   *big.Int
	Denom  string
	ByTime []refPromoT
	ByVol  []refPromoV
}

var rePrice = regexp.MustCompile(`^(\d+)(\.\d+)?([a-z][a-z0-9]{2,7})$`)

func parseRefPricing(text string) refPricing {
	var raw struct {
		Price string `json:"price"`
		T     []struct {
			Start    time.Time `json:"start_time"`
			End      time.Time `json:"end_time"`
			Discount string    `json:"discount"`
		} `json:"promotions_by_time"`
		V []struct {
			Volume   uint64 `json:"volume"`
			Discount string `json:"discount"`
		} `json:"promotions_by_volume"`
	}
	p := refPricing{Base: new(big.Int)}
	if err := json.Unmarshal([]byte(text), &raw); err != nil {
		return p
	}
	if m := rePrice.FindStringSubmatch(raw.Price); m != nil {
		p.Base.SetString(m[1], 10) // scale 0: the decimal part is truncated
		p.Denom = m[3]
		if tk, ok := refTokens[m[3]]; ok {
			// published in the token's main unit: the stored price is the amount in its smallest unit, truncated
			amt, _ := new(big.Rat).SetString(m[1] + m[2])
			amt.Mul(amt, new(big.Rat).SetInt(new(big.Int).Exp(big.NewInt(10), big.NewInt(int64(tk.scale)), nil)))
			p.Base.Quo(amt.Num(), amt.Denom())
			p.Denom = tk.minUnit
		}
	}
	for _, t := range raw.T {
		d, _ := new(big.Rat).SetString(t.Discount)
		p.ByTime = append(p.ByTime, refPromoT{t.Start, t.End, d})
	}
	for _, v := range raw.V {
		d, _ := new(big.Rat).SetString(v.Discount)
		p.ByVol = append(p.ByVol, refPromoV{v.Volume, d})
	}
	return p
}

// refTokens: main units the token module of the foreign-denomination scenarios knows (world.go fxTokenKeeper). The
// repository's own MockTokenKeeper knows none of them, so no stored pricing text names one outside those scenarios.
var refTokens = map[string]struct {
	minUnit string
	scale   int
}{"kilo": {"stake", 3}, "usd": {"cent", 2}}

func basePriceOf(text string) *big.Int { return parseRefPricing(text).Base }

// Price = max(1, floor(base * dT * dV)).
func (p refPricing) Price(t time.Time, vol uint64) *big.Int {
	r, _ := p.PriceAt(t, vol, nil)
	return r
}

// PriceAt = max(1, floor(base * dT * dV * rate)): rate = 1 for a price in the base denomination, else what the
// exchange-rate service says at this height for "<price denomination>-<base denomination>"; ok = false when a rate
// is needed and there is none.
func (p refPricing) PriceAt(t time.Time, vol uint64, rate func(priceDenom string) (*big.Rat, bool)) (*big.Int, bool) {
	x := new(big.Rat).SetInt(p.Base)
	if rate != nil {
		r, ok := rate(p.Denom)
		if !ok {
			return nil, false
		}
		x.Mul(x, r)
	}
	for _, w := range p.ByTime {
		if !t.Before(w.Start) && t.Before(w.End) {
			x.Mul(x, w.Disc)
			break
		}
	}
	var dv *big.Rat
	for _, w := range p.ByVol {
		if w.Vol <= vol {
			dv = w.Disc
		}
	}
	if dv != nil {
		x.Mul(x, dv)
	}
	r := new(big.Int).Quo(x.Num(), x.Denom())
	if r.Cmp(big.NewInt(1)) < 0 {
		return big.NewInt(1), true
	}
	return r, true
}

// rateFn gives the exchange rates in force at height h under the scenario's host-chain configuration (nil when every
// price is in the base denomination by construction).
func rateFn(sc *Scenario, baseDenom string, h int64) func(string) (*big.Rat, bool) {
	if sc == nil || sc.Rig.FX == nil {
		return nil
	}
	return func(d string) (*big.Rat, bool) {
		if d == baseDenom {
			return big.NewRat(1, 1), true
		}
		s, ok := sc.Rig.FX.Rate(d+"-"+baseDenom, h)
		if !ok {
			return nil, false
		}
		r, ok := new(big.Rat).SetString(s)
		return r, ok
	}
}
