package main

import (
	"bytes"
	"fmt"
	"math/big"
	"runtime/debug"

	service "github.com/irismod/service"
	st "github.com/irismod/service/types"
)

// The "restart" action: the chain is stopped between two blocks and started again from a zero-height export
// (PrepForZeroHeightGenesis, ExportGenesis, validation, the JSON file, InitGenesis into an empty service store; the
// other modules keep their state, as their own genesis export/import would give it back). Exploration then continues
// on the imported state under every oracle of the run: whatever the import rebuilds wrongly (indexes, price terms,
// counters, deposits) shows up in the operations that follow. At most one restart per path.
const restartBit = uint32(1) << 31

func actRestart() Action { return Action{Name: "restart", Kind: "restart", Tmpl: -1, Signer: XX} }

func restartChain(rig *Rig, pre *State) (*State, StepResult) {
	var res StepResult
	same := func() *State {
		return &State{Height: pre.Height, Time: pre.Time, Ms: pre.Ms, Used: pre.Used, Msgs: pre.Msgs, Mon: pre.Mon, Stores: pre.Stores}
	}
	w := rig.Restore(pre)
	var gs *st.GenesisState
	func() {
		defer func() {
			if p := recover(); p != nil {
				res.Panic = fmt.Sprint(p)
				res.PanicTrc = trimTrace(string(debug.Stack()))
			}
		}()
		service.PrepForZeroHeightGenesis(w.ctx, rig.sk)
		gs = service.ExportGenesis(w.ctx, rig.sk)
	}()
	if res.Panic != "" {
		return same(), res
	}
	// what the preparation left behind, should a later phase refuse to go on
	prepared := func() *State {
		pw := rig.Restore(pre)
		service.PrepForZeroHeightGenesis(pw.ctx, rig.sk)
		return &State{Height: pre.Height, Time: pre.Time, Ms: pre.Ms, Used: pre.Used, Msgs: pre.Msgs, Stores: pw.Flush()}
	}
	if err := st.ValidateGenesis(*gs); err != nil {
		res.Prepared = prepared()
		res.Err = fmt.Errorf("exported genesis does not validate: %v", err)
		return same(), res
	}
	bz, err := encCfg.Marshaler.MarshalJSON(gs)
	if err != nil {
		res.Err = fmt.Errorf("exported genesis cannot be written: %v", err)
		res.Prepared = prepared()
		return same(), res
	}
	var gs2 st.GenesisState
	if err := encCfg.Marshaler.UnmarshalJSON(bz, &gs2); err != nil {
		res.Err = fmt.Errorf("exported genesis cannot be read back: %v", err)
		res.Prepared = prepared()
		return same(), res
	}
	stores := w.Flush()
	next := &State{Height: pre.Height, Time: pre.Time, Ms: pre.Ms, Used: pre.Used | restartBit, Msgs: 0, Stores: stores}
	next.Stores[stService] = nil // the new chain's service store starts empty
	nw := rig.Restore(next)
	func() {
		defer func() {
			if p := recover(); p != nil {
				res.Panic = fmt.Sprint(p)
				res.PanicTrc = trimTrace(string(debug.Stack()))
			}
		}()
		service.InitGenesis(nw.ctx, rig.sk, gs2)
	}()
	if res.Panic != "" {
		res.Prepared = prepared()
		return same(), res
	}
	next.Stores = nw.Flush()
	return next, res
}

// monAfterRestart: history variables of the new chain. What the genesis carries over keeps its history (bindings and
// their disabling times, contexts and their totals); what it does not carry (requests, responses, volumes, callbacks
// seen, kills) starts afresh.
func monAfterRestart(f MonFlags, m *Mon, post *View) *Mon {
	n := &Mon{}
	if f.Dis {
		for k, v := range m.Dis {
			if n.Dis == nil {
				n.Dis = map[string]int64{}
			}
			n.Dis[k] = v
		}
	}
	if f.Vol {
		// responses delivered on the old chain still count for C07 ("responses that provider has already delivered");
		// what was delivered before the restart is remembered separately so that the one way in which the module is known
		// to forget them (the genesis does not carry the volume records) can be told from any other miscount
		for k, v := range m.Vol {
			if n.Vol == nil {
				n.Vol, n.VolBase = map[string]uint64{}, map[string]uint64{}
			}
			n.Vol[k], n.VolBase[k] = v, v
		}
	}
	if f.Ctx {
		for id, c := range post.Ctxs {
			if n.Ctx == nil {
				n.Ctx = map[string]CtxMon{}
			}
			e := CtxMon{Created: -1, MaxTotal: c.RepeatedTotal, Inf: c.RepeatedTotal < 0}
			if old, ok := m.Ctx[id]; ok {
				e.MaxTotal, e.Inf, e.Batches = old.MaxTotal, old.Inf, old.Batches
				if c.RepeatedTotal > e.MaxTotal {
					e.MaxTotal = c.RepeatedTotal
				}
			}
			n.Ctx[id] = e
		}
	}
	return n
}

// restartPreserves: what a zero-height export and the import that follows may change is listed in C19 (every context
// paused, no batch in flight, escrow returned). Everything else the genesis carries must come back as it was; a
// difference is reported under the property that speaks about the thing that changed.
func restartPreserves(prop string, x *OCtx, t *Trans) []Violation {
	var out []Violation
	add := func(clause, disc, detail string) { out = append(out, viol(prop, clause, "restart", disc, detail)) }
	pre, post := t.Pre, t.Post
	switch prop {
	case "C09", "C10", "C06", "C12":
		for _, id := range pre.CtxIDs {
			pc, qc := pre.Ctxs[id], post.Ctxs[id]
			name := x.Sc.ctxName(id)
			if qc == nil {
				if prop == "C09" {
					add("context-survives-a-restart", name, "context "+name+" is missing after the restart")
				}
				continue
			}
			switch prop {
			case "C09":
				if pc.ServiceName != qc.ServiceName || !bytes.Equal(pc.Consumer, qc.Consumer) || pc.Input != qc.Input || pc.SuperMode != qc.SuperMode ||
					pc.Repeated != qc.Repeated || pc.ModuleName != qc.ModuleName {
					add("identity-fields-never-change", name, fmt.Sprintf("context %s came back from the restart with other identity fields: %s -> %s", name, pc.String(), qc.String()))
				}
				if pc.BatchCounter != qc.BatchCounter {
					add("batch-counter-only-increases-by-batches", name, fmt.Sprintf("context %s: batch counter %d before the restart, %d after it", name, pc.BatchCounter, qc.BatchCounter))
				}
				x.Wit("C09:context-carried-over-a-restart")
			case "C10":
				if pc.BatchCounter != qc.BatchCounter || pc.RepeatedTotal != qc.RepeatedTotal || pc.RepeatedFrequency != qc.RepeatedFrequency || pc.Repeated != qc.Repeated {
					add("batches-counted-across-a-restart", name, fmt.Sprintf("context %s: counter/total/frequency/repeated %d/%d/%d/%v before the restart, %d/%d/%d/%v after it",
						name, pc.BatchCounter, pc.RepeatedTotal, pc.RepeatedFrequency, pc.Repeated, qc.BatchCounter, qc.RepeatedTotal, qc.RepeatedFrequency, qc.Repeated))
				}
			case "C06":
				same := len(pc.Providers) == len(qc.Providers) && pc.ServiceFeeCap.IsEqual(qc.ServiceFeeCap) && pc.Timeout == qc.Timeout
				for i := 0; same && i < len(pc.Providers); i++ {
					same = bytes.Equal(pc.Providers[i], qc.Providers[i])
				}
				if !same {
					add("context-terms-change-only-by-update", name, fmt.Sprintf("providers / fee cap / timeout of context %s changed across the restart", name))
				}
			case "C12":
				if pc.ResponseThreshold != qc.ResponseThreshold || pc.ModuleName != qc.ModuleName {
					add("threshold-and-owner-carried-over-a-restart", name, fmt.Sprintf("context %s: threshold/module %d/%q before the restart, %d/%q after it", name, pc.ResponseThreshold, pc.ModuleName, qc.ResponseThreshold, qc.ModuleName))
				}
			}
		}
	case "C01", "C02":
		// every pending fee goes back to the consumer who paid it, every unwithdrawn earning to its provider, nothing else moves
		exp := map[string]*big.Int{}
		for _, id := range pre.PendingIDs() {
			if fee, consumer, _, _, _, ok := reqInfo(pre, id); ok {
				addTo(exp, hexs(consumer), fee)
				addTo(exp, hexs(reqAcc), neg(fee))
			}
		}
		for _, p := range universe() {
			if e := pre.EarnedOf(p); e != nil && e.Sign() > 0 {
				addTo(exp, hexs(p), e)
				addTo(exp, hexs(reqAcc), neg(e))
			}
		}
		for _, k := range allBalKeys(pre, post) {
			got, want := balDelta(pre, post, k), exp[k]
			if want == nil {
				want = new(big.Int)
			}
			if got.Cmp(want) != 0 {
				who := nameOf(mustHex(k))
				if k == hexs(reqAcc) {
					who = "escrow"
				}
				add("restart-returns-pending-fees-and-earnings-exactly", who, fmt.Sprintf("%s moved by %s across the restart, pending fees and earnings say %s", who, got, want))
			}
		}
	case "C15":
		for n, raw := range pre.DefRaw {
			if !bytes.Equal(raw, post.DefRaw[n]) {
				add("definition-never-changes", n, "definition "+n+" differs after the restart")
			}
		}
		if len(pre.DefRaw) != len(post.DefRaw) {
			add("definition-never-changes", "count", fmt.Sprintf("%d definitions before the restart, %d after it", len(pre.DefRaw), len(post.DefRaw)))
		}
		for _, br := range pre.Bindings {
			qb := post.Binding(br.B.ServiceName, br.B.Provider)
			if qb == nil || qb.String() != br.B.String() {
				add("binding-carried-over-a-restart", nameOf(br.B.Provider), fmt.Sprintf("binding (%s,%s) differs after the restart", br.B.ServiceName, nameOf(br.B.Provider)))
			}
		}
		if len(pre.Bindings) != len(post.Bindings) {
			add("binding-carried-over-a-restart", "count", fmt.Sprintf("%d bindings before the restart, %d after it", len(pre.Bindings), len(post.Bindings)))
		}
	case "C13":
		if d := rawSetDiff(pre.Withdraw, post.Withdraw); d != "" {
			add("withdrawal-address-changes-only-by-its-owner's-message", "restart", "withdrawal addresses differ after the restart: "+d)
		}
	case "C03", "C14", "C04":
		for _, br := range pre.Bindings {
			qb := post.Binding(br.B.ServiceName, br.B.Provider)
			if qb != nil && (!qb.Deposit.IsEqual(br.B.Deposit) || qb.Available != br.B.Available || !qb.DisabledTime.Equal(br.B.DisabledTime)) {
				add("deposit-and-availability-carried-over-a-restart", nameOf(br.B.Provider), fmt.Sprintf("binding (%s,%s): deposit %s available %v before the restart, %s %v after it",
					br.B.ServiceName, nameOf(br.B.Provider), br.B.Deposit, br.B.Available, qb.Deposit, qb.Available))
			}
		}
	}
	return out
}
