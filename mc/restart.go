package main

import (
	"fmt"
	"runtime/debug"

	service "github.com/irismod/service"
	st "github.com/irismod/service/types"
)

// The "restart" action: the chain is stopped between two blocks and started again from a zero-height export
// (PrepForZeroHeightGenesis, ExportGenesis, validation, the JSON file, InitGenesis into an empty service store; the
// other modules keep their state, as their own genesis export/import would give it back). Exploration then continues
// on the imported state under every oracle of the run: whatever the import rebuilds wrongly (indexes, price terms,
// counters, deposits) shows up in the operations that follow. At most one restart per path.
const restartBit = uint32(1) << 31

func actRestart() Action { return Action{Name: "restart", Kind: "restart", Tmpl: -1, Signer: XX} }

func restartChain(rig *Rig, pre *State) (*State, StepResult) {
	var res StepResult
	same := func() *State {
		return &State{Height: pre.Height, Time: pre.Time, Used: pre.Used, Msgs: pre.Msgs, Mon: pre.Mon, Stores: pre.Stores}
	}
	w := rig.Restore(pre)
	var gs *st.GenesisState
	func() {
		defer func() {
			if p := recover(); p != nil {
				res.Panic = fmt.Sprint(p)
				res.PanicTrc = trimTrace(string(debug.Stack()))
			}
		}()
		service.PrepForZeroHeightGenesis(w.ctx, rig.sk)
		gs = service.ExportGenesis(w.ctx, rig.sk)
	}()
	if res.Panic != "" {
		return same(), res
	}
	if err := st.ValidateGenesis(*gs); err != nil {
		res.Err = fmt.Errorf("exported genesis does not validate: %v", err)
		return same(), res
	}
	bz, err := encCfg.Marshaler.MarshalJSON(gs)
	if err != nil {
		res.Err = fmt.Errorf("exported genesis cannot be written: %v", err)
		return same(), res
	}
	var gs2 st.GenesisState
	if err := encCfg.Marshaler.UnmarshalJSON(bz, &gs2); err != nil {
		res.Err = fmt.Errorf("exported genesis cannot be read back: %v", err)
		return same(), res
	}
	stores := w.Flush()
	next := &State{Height: pre.Height, Time: pre.Time, Used: pre.Used | restartBit, Msgs: 0, Stores: stores}
	next.Stores[stService] = nil // the new chain's service store starts empty
	nw := rig.Restore(next)
	func() {
		defer func() {
			if p := recover(); p != nil {
				res.Panic = fmt.Sprint(p)
				res.PanicTrc = trimTrace(string(debug.Stack()))
			}
		}()
		service.InitGenesis(nw.ctx, rig.sk, gs2)
	}()
	if res.Panic != "" {
		return same(), res
	}
	next.Stores = nw.Flush()
	return next, res
}

// monAfterRestart: history variables of the new chain. What the genesis carries over keeps its history (bindings and
// their disabling times, contexts and their totals); what it does not carry (requests, responses, volumes, callbacks
// seen, kills) starts afresh.
func monAfterRestart(f MonFlags, m *Mon, post *View) *Mon {
	n := &Mon{}
	if f.Dis {
		for k, v := range m.Dis {
			if n.Dis == nil {
				n.Dis = map[string]int64{}
			}
			n.Dis[k] = v
		}
	}
	if f.Vol {
		// responses delivered on the old chain still count for C07 ("responses that provider has already delivered");
		// what was delivered before the restart is remembered separately so that the one way in which the module is known
		// to forget them (the genesis does not carry the volume records) can be told from any other miscount
		for k, v := range m.Vol {
			if n.Vol == nil {
				n.Vol, n.VolBase = map[string]uint64{}, map[string]uint64{}
			}
			n.Vol[k], n.VolBase[k] = v, v
		}
	}
	if f.Ctx {
		for id, c := range post.Ctxs {
			if n.Ctx == nil {
				n.Ctx = map[string]CtxMon{}
			}
			e := CtxMon{Created: -1, MaxTotal: c.RepeatedTotal, Inf: c.RepeatedTotal < 0}
			if old, ok := m.Ctx[id]; ok {
				e.MaxTotal, e.Inf, e.Batches = old.MaxTotal, old.Inf, old.Batches
				if c.RepeatedTotal > e.MaxTotal {
					e.MaxTotal = c.RepeatedTotal
				}
			}
			n.Ctx[id] = e
		}
	}
	return n
}
