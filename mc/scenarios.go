package main

import (
	"crypto/sha256"
	"fmt"
	"sort"
	"time"

	sdk "github.com/cosmos/cosmos-sdk/types"
	paramstypes "github.com/cosmos/cosmos-sdk/x/params/types"

	st "github.com/irismod/service/types"
)

func defaultParams() ParamSet {
	return ParamSet{Name: "tax0.5-slash0.5", Tax: "0.5", Slash: "0.5", MaxTimeout: 3, MinDeposit: 10, Multiple: 2,
		Arbitration: time.Second, Complaint: time.Second}
}

func paramSet(tax, slash string) ParamSet {
	p := defaultParams()
	p.Tax, p.Slash = tax, slash
	p.Name = "tax" + tax + "-slash" + slash
	return p
}

var allAccounts = []sdk.AccAddress{AU, O1, O2, C1, C2, P1, P2, P3, P4, W1, XX}

// AlphaOpts selects the action families of a lifecycle-style alphabet.
type AlphaOpts struct {
	RespKinds     []string // subset of ok,bad,noout
	RespWrong     bool     // responses by another provider / a stranger, second responses, unknown IDs
	CtxOps        []string // subset of pause,start,kill
	CtxWrong      bool     // context operations by a non-consumer
	Updates       []CtxUpdate
	Withdraw      []string // e.g. "O1:", "O1:P1"
	SetW          []string // e.g. "O1:W1"
	BindOps       []Action // static list of binding operations (bind/update/disable/enable/refund)
	ModOps        []string // mpause,mstart,mkill
	ModUpdates    []CtxUpdate
	ConsumerOnMod bool       // consumer messages on module-owned contexts (must fail)
	ShortSigners  bool       // providers whose address is not 20 bytes answer their requests too (handler level; C13 quantifies over provider addresses of every length)
	ParamChanges  []ParamSet // governance changes the module parameters (applied through the keeper, as the params module does)
}

func lifeAlpha(o AlphaOpts) func(sc *Scenario, v *View) []Action {
	return func(sc *Scenario, v *View) []Action {
		var out []Action
		// responses to pending requests, in request-ID order
		pend := v.PendingIDs()
		for _, id := range pend {
			r := v.Reqs[id]
			if r == nil {
				continue
			}
			if len(r.Provider) != 20 && !o.ShortSigners {
				continue // only 20-byte addresses can sign a message on a real chain
			}
			for _, k := range o.RespKinds {
				out = append(out, actRespond(id, r.Provider, k))
			}
			if o.RespWrong {
				other := P2
				if string(r.Provider) == string(P2) {
					other = P1
				}
				out = append(out, actRespond(id, other, "ok"))
				out = append(out, actRespond(id, XX, "ok"))
			}
		}
		if o.RespWrong {
			// a request that is no longer pending but still recorded (answered), and one unknown ID
			for _, id := range v.ReqIDs {
				if !v.ActiveByID[id] {
					out = append(out, actRespond(id, v.Reqs[id].Provider, "ok"))
					break
				}
			}
			unk := make([]byte, 58)
			for i := range unk {
				unk[i] = 0xEE
			}
			out = append(out, actRespond(hexs(unk), P1, "ok"))
		}
		ids := append([]string{}, v.CtxIDs...)
		sort.Strings(ids)
		for _, id := range ids {
			c := v.Ctxs[id]
			isMod := len(c.ModuleName) > 0
			if !isMod || o.ConsumerOnMod {
				for _, op := range o.CtxOps {
					out = append(out, sc.actCtxMsg(op, id, c.Consumer))
					if o.CtxWrong {
						out = append(out, sc.actCtxMsg(op, id, XX))
					}
				}
				for _, u := range o.Updates {
					out = append(out, sc.actUpdCtx(id, c.Consumer, u))
					if o.CtxWrong {
						out = append(out, sc.actUpdCtx(id, XX, u))
					}
				}
			}
			if isMod {
				for _, op := range o.ModOps {
					out = append(out, sc.actMod(op, id, c.Consumer, CtxUpdate{}))
				}
				for _, u := range o.ModUpdates {
					out = append(out, sc.actMod("mupdate", id, c.Consumer, u))
				}
			}
		}
		for _, w := range o.Withdraw {
			ow, pr := splitColon(w)
			out = append(out, actWithdraw(ow, pr))
		}
		for _, w := range o.SetW {
			ow, to := splitColon(w)
			out = append(out, actSetW(ow, to))
		}
		out = append(out, o.BindOps...)
		for _, ps := range o.ParamChanges {
			p := ps
			if v.Params.MaxRequestTimeout == p.MaxTimeout && v.Params.ServiceFeeTax.Equal(sdk.MustNewDecFromStr(p.Tax)) && v.Params.SlashFraction.Equal(sdk.MustNewDecFromStr(p.Slash)) && v.Params.MinDeposit.AmountOf(denom).Int64() == p.MinDeposit && p.MinDepositCoins == nil && v.Params.MinDepositMultiple == p.Multiple && v.Params.BaseDenom == p.baseDenom() &&
				v.Params.ArbitrationTimeLimit == p.Arbitration && v.Params.ComplaintRetrospect == p.Complaint {
				continue // already in force
			}
			out = append(out, Action{Name: "gov(" + p.Name + ")", Kind: "gov", Tmpl: -1, Signer: XX,
				Mod: func(ctx sdk.Context, k servicekeeperT) (err error) {
					// the parameter store refuses a value by panicking (as it does for a proposal): the change does not happen
					defer func() {
						if r := recover(); r != nil {
							err = fmt.Errorf("parameter change refused: %v", r)
						}
					}()
					// as the params module does for a passed proposal: straight into the module's parameter subspace
					if ss, ok := ctx.Value(subspaceKey{}).(paramstypes.Subspace); ok {
						pp := p.Params()
						ss.SetParamSet(ctx, &pp)
						return nil
					}
					k.SetParams(ctx, p.Params())
					return nil
				}})
		}
		return out
	}
}

func splitColon(s string) (string, string) {
	for i := 0; i < len(s); i++ {
		if s[i] == ':' {
			return s[:i], s[i+1:]
		}
	}
	return s, ""
}

// lifeSetup: service "a"; P1 (owner O1) price 2 with a volume promotion, P2 (owner O2) price 1; both qos 1.
func lifeSetup(p1pricing, p2pricing string, dep int64) []Action {
	return []Action{
		actDefine("a", "AU"),
		actBind("a", "P1", "O1", dep, p1pricing, 1),
		actBind("a", "P2", "O2", dep, p2pricing, 1),
	}
}

func lifeFunds(c1, c2 int64) []Funding {
	return []Funding{{O1, 200}, {O2, 200}, {C1, c1}, {C2, c2}}
}

var (
	tOne   = Template{Name: "one", Consumer: "C1", Service: "a", Providers: []string{"P1", "P2"}, Cap: 5, Timeout: 1}
	tRep2  = Template{Name: "rep2", Consumer: "C1", Service: "a", Providers: []string{"P1", "P2"}, Cap: 5, Timeout: 1, Repeated: true, Freq: 1, Total: 2}
	tInf   = Template{Name: "inf", Consumer: "C1", Service: "a", Providers: []string{"P1"}, Cap: 5, Timeout: 1, Repeated: true, Freq: 2, Total: -1}
	tPoor  = Template{Name: "poor", Consumer: "C2", Service: "a", Providers: []string{"P1", "P2"}, Cap: 5, Timeout: 1, Repeated: true, Freq: 1, Total: 2}
	tSuper = Template{Name: "super", Consumer: "C2", Service: "a", Providers: []string{"P1"}, Cap: 5, Timeout: 1, Super: true}
	tLong  = Template{Name: "long", Consumer: "C1", Service: "a", Providers: []string{"P2"}, Cap: 5, Timeout: 2, Repeated: true, Freq: 2, Total: 2}
)

var (
	updTotalUp  = CtxUpdate{Name: "total3", Total: 3}
	updTotalInf = CtxUpdate{Name: "total-1", Total: -1}
	updTimeout2 = CtxUpdate{Name: "timeout2freq2", Timeout: 2, Freq: 2}
	updFreq2    = CtxUpdate{Name: "freq2", Freq: 2}
	updProvP2   = CtxUpdate{Name: "provP2", Providers: []string{"P2"}}
	updCap1     = CtxUpdate{Name: "cap1", Cap: 1}
)

// scLife is the lifecycle scenario S-LIFE.
func scLife(ps ParamSet, tmpls []Template, o AlphaOpts, depth, blocks, msgs int) *Scenario {
	return &Scenario{
		Name: "S-LIFE", Params: ps,
		Funds: lifeFunds(6, 1), Extra: allAccounts,
		Setup:     lifeSetup("p2v", "p1", 10),
		Templates: tmpls,
		Alpha:     lifeAlpha(o),
		Depth:     depth, MaxBlocks: blocks, MaxMsgs: msgs,
	}
}

// scPrice is S-PRICE: as S-LIFE with the two bindings' pricing drawn from the PR table.
func scPrice(ps ParamSet, p1pricing, p2pricing string, tmpls []Template, o AlphaOpts, depth, blocks, msgs int) *Scenario {
	sc := scLife(ps, tmpls, o, depth, blocks, msgs)
	sc.Name = "S-PRICE(" + p1pricing + "," + p2pricing + ")"
	sc.Setup = lifeSetup(p1pricing, p2pricing, 10)
	return sc
}

// ---------------------------------------------------------------------------------------------
// S-BIND

var tSlash = Template{Name: "slash", Consumer: "C1", Service: "a", Providers: []string{"P1"}, Cap: 25, Timeout: 1}
var tSlashSuper = Template{Name: "slashsuper", Consumer: "C2", Service: "a", Providers: []string{"P1"}, Cap: 25, Timeout: 1, Super: true}
var tSlash3 = Template{Name: "slash3", Consumer: "C1", Service: "a", Providers: []string{"P1"}, Cap: 25, Timeout: 3}
var tSlash2 = Template{Name: "slash2", Consumer: "C1", Service: "a", Providers: []string{"P1", "P2"}, Cap: 25, Timeout: 1, Repeated: true, Freq: 1, Total: 2}

func bindOpsFull() []Action {
	return []Action{
		actBind("a", "P1", "O1", 9, "p1", 1),
		actBind("a", "P1", "O1", 10, "p1", 1),
		actBind("a", "P1", "O1", 30, "p20", 1),
		actBind("a", "P1", "O1", 40, "p20", 1),
		actBind("a", "P1", "O1", 30, "p20t", 1), // below base price x multiple, above discounted price x multiple
		actBind("a", "P2", "O2", 10, "p5", 1),
		actBind("a", "P1", "O2", 10, "p1", 1), // provider already owned by O1 once bound
		actUpdate("a", "P1", "O1", 0, "p20", 0),
		actUpdate("a", "P1", "O1", 0, "p1", 0),
		actUpdate("a", "P1", "O1", 30, "", 0),
		actUpdate("a", "P1", "O1", 30, "p20", 0),
		actUpdate("a", "P1", "O1", 0, "", 2),
		actDisable("a", "P1", "O1"),
		actEnable("a", "P1", "O1", 0),
		actEnable("a", "P1", "O1", 30),
		actRefund("a", "P1", "O1"),
		// a lower price together with a top-up the owner cannot pay: refused at the transfer, after the pricing was parsed
		actUpdate("a", "P1", "O1", 1000, "p1", 0),
		// a "top-up" of a negative amount (refused by stateless validation)
		actUpdateCoins("a", "P1", "O1", negCoins(5)), actEnableCoins("a", "P1", "O1", negCoins(5)),
	}
}

func scBind(ps ParamSet, ops []Action, tmpls []Template, respKinds []string, depth, blocks, msgs int) *Scenario {
	return &Scenario{
		Name: "S-BIND", Params: ps,
		Funds: []Funding{{O1, 100}, {O2, 100}, {C1, 60}, {P1, 50}, {P2, 50}}, Extra: allAccounts,
		Setup:     []Action{actDefine("a", "AU")},
		Templates: tmpls,
		Alpha:     lifeAlpha(AlphaOpts{RespKinds: respKinds, BindOps: ops, SetW: []string{"O1:W1", "O1:DEP"}, Withdraw: []string{"O1:"}}), // DEP: the module's own deposit account (refused)
		Depth:     depth, MaxBlocks: blocks, MaxMsgs: msgs,
	}
}

// ---------------------------------------------------------------------------------------------
// S-FEES: two owners; P1,P2 owned by O1; P3,Pp owned by O2; Pp is a byte-prefix of P1 (and never signs).

var tFees = Template{Name: "fees", Consumer: "C1", Service: "a", Providers: []string{"P1", "P2", "P3"}, Cap: 5, Timeout: 3}
var tFees2 = Template{Name: "fees2", Consumer: "C1", Service: "a", Providers: []string{"P1", "P3"}, Cap: 5, Timeout: 2}

func scFees(ps ParamSet, wrong bool, depth, blocks, msgs int) *Scenario {
	o := AlphaOpts{RespKinds: []string{"ok"},
		Withdraw: []string{"O1:", "O1:P1", "O1:P2", "O2:", "O2:P3", "O2:Pp"},
		SetW:     []string{"O1:W1", "O1:O1", "O2:W1", "O1:REQ", "O2:DEP"}, // also the module's own escrow and deposit accounts
		BindOps:  []Action{actBind("ab", "P1", "O1", 10, "p2", 1), actBind("a", "P4", "O1", 10, "p2", 1)}}
	if wrong {
		o.Withdraw = append(o.Withdraw, "O2:P1", "XX:", "XX:P1")
		o.SetW = append(o.SetW, "XX:W1")
		// a provider of the other owner bound to another service; an owner's own address bound as a provider by the other owner
		o.BindOps = append(o.BindOps, actBind("ab", "P3", "O1", 10, "p2", 1), actBind("ab", "O1", "O2", 10, "p2", 1))
	}
	sc := &Scenario{
		Name: "S-FEES", Params: ps,
		Funds: []Funding{{O1, 100}, {O2, 100}, {C1, 60}}, Extra: allAccounts,
		Setup: []Action{actDefine("a", "AU"), actDefine("ab", "AU"),
			actBind("a", "P1", "O1", 10, "p2", 1), actBind("a", "P2", "O1", 10, "p3vv", 1),
			actBind("a", "P3", "O2", 10, "p2", 1), actBind("a", "Pp", "O2", 10, "p2", 1)},
		Templates: []Template{tFees, tFees2},
		Alpha:     lifeAlpha(o),
		Depth:     depth, MaxBlocks: blocks, MaxMsgs: msgs,
	}
	// start with the first batch already issued
	sc.Setup = append(sc.Setup, sc.actCall(0), actE())
	return sc
}

// ---------------------------------------------------------------------------------------------
// S-MOD: contexts created by "another module" through the keeper API, with recording callbacks.

var (
	tMod1    = Template{Name: "mod1", Consumer: "C1", Service: "a", Providers: []string{"P1", "P2"}, Cap: 5, Timeout: 1, Repeated: true, Freq: 1, Total: 2, Module: ModOther, Threshold: 1}
	tMod2    = Template{Name: "mod2", Consumer: "C1", Service: "a", Providers: []string{"P1", "P2"}, Cap: 5, Timeout: 2, Repeated: true, Freq: 2, Total: 2, Module: ModOther, Threshold: 2}
	tModOne  = Template{Name: "modone", Consumer: "C1", Service: "a", Providers: []string{"P1", "P2"}, Cap: 5, Timeout: 1, Module: ModOther, Threshold: 2}
	tModPoor = Template{Name: "modpoor", Consumer: "C2", Service: "a", Providers: []string{"P1", "P2"}, Cap: 5, Timeout: 1, Repeated: true, Freq: 1, Total: 2, Module: ModOther, Threshold: 1}
	tModCap  = Template{Name: "modcap", Consumer: "C1", Service: "a", Providers: []string{"P1", "P2"}, Cap: 1, Timeout: 1, Repeated: true, Freq: 1, Total: 2, Module: ModOther, Threshold: 2}
	tPoorOne = Template{Name: "poorone", Consumer: "C2", Service: "a", Providers: []string{"P1", "P2"}, Cap: 5, Timeout: 1}
	tModHalf = Template{Name: "modhalf", Consumer: "C2", Service: "a", Providers: []string{"P1", "P2"}, Cap: 5, Timeout: 1, Repeated: true, Freq: 1, Total: 2, Module: ModHalf, Threshold: 1}
	tModDup  = Template{Name: "moddup", Consumer: "C2", Service: "a", Providers: []string{"P2"}, Cap: 5, Timeout: 1, Module: ModOther, Threshold: 1, SameTxAs: "mod1"}
	tModDup2 = Template{Name: "moddup2", Consumer: "C1", Service: "a", Providers: []string{"P1", "P2"}, Cap: 5, Timeout: 2, Repeated: true, Freq: 2, Total: 2, Module: ModOther, Threshold: 2, SameTxAs: "mod2"}
	tT0      = Template{Name: "t0", Consumer: "C1", Service: "a", Providers: []string{"P2"}, Cap: 5, Timeout: 0}
	tTneg    = Template{Name: "tneg", Consumer: "C1", Service: "a", Providers: []string{"P2"}, Cap: 5, Timeout: -1}
	tModTneg = Template{Name: "modtneg", Consumer: "C1", Service: "a", Providers: []string{"P1", "P2"}, Cap: 5, Timeout: -3, Module: ModOther, Threshold: 1}
	tBadUTF8 = Template{Name: "latin1", Consumer: "C1", Service: "a", Providers: []string{"P2"}, Cap: 5, Timeout: 2, Repeated: true, Freq: 2, Total: 2, Input: "{\"header\":{},\"body\":{\"memo\":\"caf\xe9\"}}"}
	tDupProv = Template{Name: "dupprov", Consumer: "C1", Service: "a", Providers: []string{"P1", "P2", "P1"}, Cap: 5, Timeout: 1, Repeated: true, Freq: 1, Total: 2}
	tModP    = Template{Name: "modp", Consumer: "C1", Service: "a", Providers: []string{"P1"}, Cap: 5, Timeout: 1, Module: ModOther, Threshold: 1, StartPaused: true}
	tModDupP = Template{Name: "moddupp", Consumer: "C2", Service: "a", Providers: []string{"P2"}, Cap: 5, Timeout: 1, Module: ModOther, Threshold: 1, StartPaused: true, SameTxAs: "modp"}
	tRep1    = Template{Name: "rep1", Consumer: "C1", Service: "a", Providers: []string{"P2"}, Cap: 5, Timeout: 1, Repeated: true, Freq: 1, Total: 1}
	tF3      = Template{Name: "f3", Consumer: "C1", Service: "a", Providers: []string{"P2"}, Cap: 5, Timeout: 1, Repeated: true, Freq: 3, Total: -1}
	tOneTot  = Template{Name: "onetot", Consumer: "C1", Service: "a", Providers: []string{"P2"}, Cap: 5, Timeout: 1, Repeated: false, Freq: 0, Total: 3}
	tHuge    = Template{Name: "huge", Consumer: "C1", Service: "a", Providers: []string{"P2"}, Cap: 5, Timeout: 1, Repeated: true, Freq: 1 << 63, Total: -1}
	tBig     = Template{Name: "bigf", Consumer: "C1", Service: "a", Providers: []string{"P2"}, Cap: 5, Timeout: 1, Repeated: true, Freq: 1 << 62, Total: -1}
	tMax     = Template{Name: "maxf", Consumer: "C1", Service: "a", Providers: []string{"P2"}, Cap: 5, Timeout: 1, Repeated: true, Freq: 1<<63 - 1, Total: -1}
)

func scMod(ps ParamSet, tmpls []Template, o AlphaOpts, depth, blocks, msgs int) *Scenario {
	sc := scLife(ps, tmpls, o, depth, blocks, msgs)
	sc.Name = "S-MOD"
	sc.Rig = RigConfig{CallbackModules: []string{ModOther}, ResponseOnlyModules: []string{ModHalf}}
	return sc
}

func withFunds(sc *Scenario, c1, c2 int64) *Scenario {
	sc.Funds = lifeFunds(c1, c2)
	return sc
}

// ---------------------------------------------------------------------------------------------
// wrong-signer binding operations (C05) and the naming scenario (C15)

func bindOpsAuth() []Action {
	ops := []Action{
		actBind("a", "P1", "O1", 10, "p1", 1),
		actBind("a", "P1", "O2", 10, "p1", 1),  // same (service, provider), other owner
		actBind("ab", "P1", "O2", 10, "p1", 1), // provider owned by O1, other service
		actBind("ab", "P1", "O1", 10, "p1", 1),
		actBind("a", "P2", "O2", 10, "p1", 1),
		// a provider address that is no account address (21 bytes), bound by one owner and then by another to another service
		actBind("a", "PL", "O1", 10, "p1", 1), actBind("ab", "PL", "O2", 10, "p1", 1),
	}
	for _, s := range []string{"O1", "O2", "XX"} {
		ops = append(ops, actUpdate("a", "P1", s, 10, "", 0), actDisable("a", "P1", s), actEnable("a", "P1", s, 0), actRefund("a", "P1", s))
		if s == "O1" {
			ops = append(ops, actEnable("a", "P1", s, 30))
		}
		ops = append(ops, actUpdate("a", "P1", s, 0, "", 0)) // an update that changes nothing still needs the owner's signature
	}
	return ops
}

func scBindAuth(ps ParamSet, depth, blocks, msgs int) *Scenario {
	sc := scBind(ps, bindOpsAuth(), nil, nil, depth, blocks, msgs)
	sc.Name = "S-BIND(auth)"
	sc.Setup = []Action{actDefine("a", "AU"), actDefine("ab", "AU")}
	return sc
}

func bindOpsNames() []Action {
	return []Action{
		actDefine("a", "AU"), actDefine("ab", "AU"), actDefine("a", "XX"),
		actDefine("Ab", "AU"), actDefine("Ab", "XX"), // names are case sensitive; a second "Ab" must be rejected like any other
		actDefineBytes("u8", "AU"), actDefineSplitTags("st", "AU"),
		actBind("a", "P1", "O1", 10, "p1", 1),
		actBind("ab", "P1", "O1", 10, "p2v", 1),
		actBind("ab", "P1", "O2", 10, "p1", 1),
		actBind("a", "Pp", "O2", 10, "p1", 1),
		actBind("ab", "P2", "O2", 10, "p1t", 1),
		actBind("b", "P2", "O2", 10, "p1", 1), // undefined service
		actBind("a", "P1", "O1", 30, "p5", 1), // second binding
		actUpdate("a", "P1", "O1", 0, "p3vv", 0),
		actUpdate("ab", "P1", "O1", 0, "p1t", 2),
		actDisable("a", "P1", "O1"), actEnable("a", "P1", "O1", 0),
		// pricing texts the schema refuses, with and without a deposit
		actUpdate("a", "P1", "O1", 0, "p1x", 0), actUpdate("a", "P1", "O1", 5, "p1x", 0), actUpdate("a", "P1", "O1", 0, "p1d", 0),
		// options that are not JSON, together with a valid pricing / alone (refused by stateless validation)
		actUpdateOpts("a", "P1", "O1", "p2", "not json"), actUpdateOpts("ab", "P1", "O1", "p1", "{"),
		// a provider address with zero bytes (the separator of string keys)
		actBind("a", "P0", "O1", 10, "p1", 1), actBind("ab", "P0", "O1", 10, "p2", 1),
	}
}

var tNames = Template{Name: "names", Consumer: "C1", Service: "a", Providers: []string{"P1", "Pp"}, Cap: 5, Timeout: 1}

func scNames(ps ParamSet, depth, blocks, msgs int) *Scenario {
	return &Scenario{
		Name: "S-BIND(names)", Params: ps,
		Funds: []Funding{{O1, 100}, {O2, 100}, {C1, 60}}, Extra: allAccounts,
		Templates: []Template{tNames},
		Alpha:     lifeAlpha(AlphaOpts{RespKinds: []string{"ok"}, BindOps: bindOpsNames()}),
		Depth:     depth, MaxBlocks: blocks, MaxMsgs: msgs,
	}
}

// ---------------------------------------------------------------------------------------------
// S-MSVC: a module service "ms" registered on the keeper, its definition and binding installed as a host
// chain would (directly through the keeper at genesis).

var MSP = addr20("msprovider")

func init() {
	addrNames["MSP"] = MSP
	// the module's own accounts, as targets of a withdrawal address
	addrNames["REQ"] = sdk.AccAddress(reqAcc)
	addrNames["DEP"] = sdk.AccAddress(depAcc)
	addrNames["FEE"] = sdk.AccAddress(feeColl) // another module account of the host chain
}

var tMsvc = Template{Name: "callms", Consumer: "C1", Service: "ms", Providers: []string{"MSP"}, Cap: 5, Timeout: 1}
var tMsvcSuper = Template{Name: "callmssuper", Consumer: "C1", Service: "ms", Providers: []string{"MSP"}, Cap: 5, Timeout: 1, Super: true}
var tMsvcLow = Template{Name: "callmslow", Consumer: "C2", Service: "ms", Providers: []string{"MSP"}, Cap: 1, Timeout: 1}

func scMsvc(ps ParamSet, depth, blocks, msgs int) *Scenario {
	install := Action{Name: "install(ms)", Kind: "install", Tmpl: -1, Signer: MSP,
		Mod: func(ctx sdk.Context, k servicekeeperT) error {
			k.SetServiceDefinition(ctx, stDef("ms"))
			return k.SetServiceBindingForGenesis(ctx, stBinding("ms", MSP, `{"price":"2stake"}`))
		}}
	return &Scenario{
		Name: "S-MSVC", Params: ps,
		Rig:   RigConfig{ModuleServices: []ModuleSvcSpec{{Module: "msmod", Service: "ms", Provider: MSP, Result: resultOK, Output: outputOK}}},
		Funds: []Funding{{O1, 100}, {O2, 100}, {C1, 60}, {C2, 10}}, Extra: append(append([]sdk.AccAddress{}, allAccounts...), MSP),
		Setup:     []Action{install, actDefine("a", "AU")},
		Templates: []Template{tMsvc, tMsvcLow, tOne, tMsvcSuper},
		Alpha: lifeAlpha(AlphaOpts{RespKinds: []string{"ok"}, CtxOps: []string{"pause", "start", "kill"}, BindOps: []Action{
			actBind("ms", "P1", "O1", 10, "p1", 1), actBind("a", "P1", "O1", 10, "p1", 1), actBind("ms", "MSP", "O1", 10, "p1", 1)}}),
		Depth: depth, MaxBlocks: blocks, MaxMsgs: msgs,
	}
}

// scFeesRefund: S-FEES with P1's binding disabled long enough to be refundable while its first request is pending.
func scFeesRefund(ps ParamSet, depth, blocks, msgs int) *Scenario {
	sc := scFees(ps, false, depth, blocks, msgs)
	sc.Name = "S-FEES(refund)"
	sc.Setup = append(sc.Setup, actDisable("a", "P1", "O1"), actE(), actE())
	base := sc.Alpha
	sc.Alpha = func(sc *Scenario, v *View) []Action {
		return append(base(sc, v), actRefund("a", "P1", "O1"), actEnable("a", "P1", "O1", 10))
	}
	return sc
}

// scFeesSelf: S-FEES where the provider P2 (owned by O1) is itself the owner of provider P4, and withdraws for itself.
func scFeesSelf(ps ParamSet, depth, blocks, msgs int) *Scenario {
	o := AlphaOpts{RespKinds: []string{"ok"},
		Withdraw: []string{"O1:", "O1:P2", "P2:", "P2:P2", "P2:P4"},
		SetW:     []string{"P2:W1"}}
	sc := &Scenario{
		Name: "S-FEES(self)", Params: ps,
		Funds: []Funding{{O1, 100}, {O2, 100}, {C1, 60}, {P2, 50}}, Extra: allAccounts,
		Setup: []Action{actDefine("a", "AU"),
			actBind("a", "P1", "O1", 10, "p2", 1), actBind("a", "P2", "O1", 10, "p2", 1), actBind("a", "P4", "P2", 10, "p3vv", 1)},
		Templates: []Template{{Name: "feesself", Consumer: "C1", Service: "a", Providers: []string{"P1", "P2", "P4"}, Cap: 5, Timeout: 3}},
		Alpha:     lifeAlpha(o),
		Depth:     depth, MaxBlocks: blocks, MaxMsgs: msgs,
	}
	sc.Setup = append(sc.Setup, sc.actCall(0), actE())
	return sc
}

// scFeesLengths: providers of 1, 20 and 21 bytes, each a byte-prefix of the next, all earning: Pp and PL owned by O1,
// P1 (between them in key order) by O2. The messages are delivered at handler level; no chain lets a 1- or 21-byte
// address sign, but C13 quantifies over provider addresses of every length.
func scFeesLengths(ps ParamSet, depth, blocks, msgs int) *Scenario {
	o := AlphaOpts{RespKinds: []string{"ok"}, ShortSigners: true,
		Withdraw: []string{"O1:", "O1:Pp", "O1:PL", "O2:", "O2:P1"},
		SetW:     []string{"O1:W1"}}
	sc := &Scenario{
		Name: "S-FEES(provider lengths)", Params: ps,
		Funds: []Funding{{O1, 100}, {O2, 100}, {C1, 60}}, Extra: allAccounts,
		Setup: []Action{actDefine("a", "AU"),
			actBind("a", "Pp", "O1", 10, "p2", 1), actBind("a", "P1", "O2", 10, "p2", 1), actBind("a", "PL", "O1", 10, "p3vv", 1)},
		Templates: []Template{{Name: "feeslen", Consumer: "C1", Service: "a", Providers: []string{"Pp", "P1", "PL"}, Cap: 5, Timeout: 3}},
		Alpha:     lifeAlpha(o),
		Depth:     depth, MaxBlocks: blocks, MaxMsgs: msgs,
	}
	sc.Setup = append(sc.Setup, sc.actCall(0), actE())
	return sc
}

// scHuge: prices, deposits, fee caps and balances beyond int64 (2^63 and 2^100 base units).
func scHuge(ps ParamSet, depth, blocks, msgs int) *Scenario {
	const p63, d63 = "9223372036854775808", "18446744073709551616"                          // 2^63, 2^64 (= price x multiple 2)
	const p100, d100 = "1267650600228229401496703205376", "2535301200456458802993406410752" // 2^100, 2^101
	sc := &Scenario{
		Name: "S-HUGE", Params: ps,
		Funds: []Funding{{O1, -36}, {O2, -36}, {C1, -36}, {C2, 5}}, Extra: allAccounts, // 10^36 each
		Setup: []Action{actDefine("a", "AU"), actBindBig("a", "P1", "O1", d63, p63, 1), actBindBig("a", "P2", "O2", d100, p100, 1),
			// 10^20 with a time and a volume promotion whose product has 20 decimals: 36-digit intermediate results
			actBindBigText("a", "P3", "O2", "200000000000000000000", "100000000000000000000", fmt.Sprintf(`{"price":"100000000000000000000stake","promotions_by_time":[{"start_time":"%s","end_time":"%s","discount":"0.3333333333"}],"promotions_by_volume":[{"volume":1,"discount":"0.3333333333"}]}`,
				T0.Format("2006-01-02T15:04:05Z"), T0.Add(timeSec(3600)).Format("2006-01-02T15:04:05Z")), 1)},
		Templates: []Template{
			{Name: "huge63", Consumer: "C1", Service: "a", Providers: []string{"P1"}, CapBig: p63, Timeout: 1, Repeated: true, Freq: 1, Total: 2},
			{Name: "huge100", Consumer: "C1", Service: "a", Providers: []string{"P1", "P2"}, CapBig: p100, Timeout: 1},
			{Name: "hugepoor", Consumer: "C2", Service: "a", Providers: []string{"P1"}, CapBig: p100, Timeout: 1},
			{Name: "hugepromo", Consumer: "C1", Service: "a", Providers: []string{"P3"}, CapBig: "100000000000000000000", Timeout: 1, Repeated: true, Freq: 1, Total: 2},
			{Name: "hugesuper", Consumer: "C2", Service: "a", Providers: []string{"P2"}, CapBig: p100, Timeout: 1, Super: true},
		},
		Alpha: lifeAlpha(AlphaOpts{RespKinds: []string{"ok", "bad"}, Withdraw: []string{"O1:", "O2:P2"},
			BindOps: []Action{actDisable("a", "P1", "O1"), actEnable("a", "P1", "O1", 0), actRefund("a", "P1", "O1")}}),
		Depth: depth, MaxBlocks: blocks, MaxMsgs: msgs,
	}
	return sc
}

// scHugeDeposits: deposits and top-ups of 2^127 (the largest a single message may carry) that add up beyond 128 bits.
func scHugeDeposits(ps ParamSet, depth, blocks, msgs int) *Scenario {
	const d127 = "170141183460469231731687303715884105728" // 2^127
	return &Scenario{
		Name: "S-BIND(huge deposits)", Params: ps,
		Funds: []Funding{{O1, -40}, {C1, 60}}, Extra: allAccounts,
		Setup:     []Action{actDefine("a", "AU")},
		Templates: []Template{tSlash},
		Alpha: lifeAlpha(AlphaOpts{RespKinds: []string{"bad"}, BindOps: []Action{
			actBindBig("a", "P1", "O1", d127, "1", 1), actBind("a", "P1", "O1", 10, "p1", 1),
			actUpdateBig("a", "P1", "O1", d127), actDisable("a", "P1", "O1"), actEnableBig("a", "P1", "O1", d127), actRefund("a", "P1", "O1")}}),
		Depth: depth, MaxBlocks: blocks, MaxMsgs: msgs,
	}
}

// scTwoServices: provider P1 serves two services with different pricing.
var tOneAb = Template{Name: "oneab", Consumer: "C1", Service: "ab", Providers: []string{"P1"}, Cap: 9, Timeout: 1, Repeated: true, Freq: 1, Total: 2}

func scTwoServices(ps ParamSet, o AlphaOpts, depth, blocks, msgs int) *Scenario {
	sc := scLife(ps, []Template{tOne, tOneAb}, o, depth, blocks, msgs)
	sc.Name = "S-PRICE(two services)"
	sc.Funds = lifeFunds(40, 5)
	sc.Setup = []Action{actDefine("a", "AU"), actDefine("ab", "AU"),
		actBind("a", "P1", "O1", 10, "p2v", 1), actBind("ab", "P1", "O1", 10, "p5", 1), actBind("a", "P2", "O2", 10, "p1", 1)}
	return sc
}

// scModRestart: S-MOD where the other module answers "paused: insufficient balances" by starting the context again
// from inside the state callback.
func scModRestart(ps ParamSet, tmpls []Template, o AlphaOpts, depth, blocks, msgs int) *Scenario {
	sc := scMod(ps, tmpls, o, depth, blocks, msgs)
	sc.Name = "S-MOD(restart in callback)"
	sc.Rig.ReentrantRestart = true
	return sc
}

// scModPauseSiblings: S-MOD where the other module, told that one of its contexts was paused for lack of funds, pauses
// its other contexts from inside that state callback.
func scModPauseSiblings(ps ParamSet, tmpls []Template, o AlphaOpts, depth, blocks, msgs int) *Scenario {
	sc := scMod(ps, tmpls, o, depth, blocks, msgs)
	sc.Name = "S-MOD(pause siblings in callback)"
	sc.Rig.ReentrantPauseSiblings = true
	return sc
}

// scModSelfKill: S-MOD where the other module kills a context from inside that context's failed response callback.
func scModSelfKill(ps ParamSet, tmpls []Template, o AlphaOpts, depth, blocks, msgs int) *Scenario {
	sc := scMod(ps, tmpls, o, depth, blocks, msgs)
	sc.Name = "S-MOD(kill in response callback)"
	sc.Rig.ReentrantSelfKill = true
	return sc
}

// scModReentrant: S-MOD where the other module reacts inside its callbacks by calling back into the keeper.
func scModReentrant(ps ParamSet, tmpls []Template, o AlphaOpts, depth, blocks, msgs int) *Scenario {
	sc := scMod(ps, tmpls, o, depth, blocks, msgs)
	sc.Name = "S-MOD(reentrant)"
	sc.Rig.Reentrant = true
	return sc
}

// ---------------------------------------------------------------------------------------------
// S-FX: the host chain has a token module (prices may be published in a main unit, "kilo" = 1000 stake, or in a foreign
// token, "usd" = 100 cent) and an exchange-rate module service ("oracle"). P1 is priced in usd, P2 in stake, P3 in kilo.
// The rate cent->stake cycles with the height (0.03, 0.015, 0: a whole number); at height failAt the
// exchange-rate service has no answer.

var (
	tFxOne  = Template{Name: "fxone", Consumer: "C1", Service: "a", Providers: []string{"P1", "P2"}, Cap: 5, Timeout: 1}
	tFxRep  = Template{Name: "fxrep", Consumer: "C1", Service: "a", Providers: []string{"P1"}, Cap: 5, Timeout: 1, Repeated: true, Freq: 1, Total: 3}
	tFxMix  = Template{Name: "fxmix", Consumer: "C1", Service: "a", Providers: []string{"P2", "P1", "P3"}, Cap: 2, Timeout: 1, Repeated: true, Freq: 2, Total: -1}
	tFxPoor = Template{Name: "fxpoor", Consumer: "C2", Service: "a", Providers: []string{"P1"}, Cap: 5, Timeout: 1, Repeated: true, Freq: 1, Total: 2}
)

var tFxMod = Template{Name: "fxmod", Consumer: "C1", Service: "a", Providers: []string{"P1"}, Cap: 5, Timeout: 1, Repeated: true, Freq: 2, Total: 3, Module: ModOther, Threshold: 1}

func fxSpec(failAt ...int64) *FXSpec {
	// 0.03 at heights divisible by 3 ... then 0.015, then a whole-number rate (the rate pattern allows "0", "2", ...)
	return &FXSpec{Rates: map[string][]string{"cent-stake": {"0.015", "0", "0.03"}}, FailAt: failAt}
}

func scFX(ps ParamSet, p1pricing string, tmpls []Template, o AlphaOpts, fx *FXSpec, depth, blocks, msgs int) *Scenario {
	install := Action{Name: "install(oracle-price)", Kind: "install", Tmpl: -1, Signer: XX,
		Mod: func(ctx sdk.Context, k servicekeeperT) error {
			k.SetServiceDefinition(ctx, st.GenOraclePriceSvcDefinition())
			return k.SetServiceBindingForGenesis(ctx, st.GenOraclePriceSvcBinding(denom))
		}}
	return &Scenario{
		Name: "S-FX(" + p1pricing + ")", Params: ps,
		Rig:   RigConfig{FX: fx, CallbackModules: []string{ModOther}},
		Funds: []Funding{{O1, 400}, {O2, 200}, {C1, 12}, {C2, 2}}, Extra: allAccounts,
		Setup: []Action{install, actDefine("a", "AU"),
			// P1's deposit is far above the global minimum, the only one that applies to a price in a foreign token
			actBind("a", "P1", "O1", 200, p1pricing, 1), actBind("a", "P2", "O2", 10, "p1", 1), actBind("a", "P3", "O2", 10, "fkilo2", 1)},
		Templates: tmpls,
		Alpha:     lifeAlpha(o),
		Depth:     depth, MaxBlocks: blocks, MaxMsgs: msgs,
	}
}

// scBindFX: binding operations on a host chain with a token module: prices published in the main unit of the base
// token (0.02kilo = 20stake, minimum deposit 40) and in a foreign token (only the global minimum applies).
func scBindFX(ps ParamSet, depth, blocks, msgs int) *Scenario {
	sc := scBind(ps, []Action{
		actBind("a", "P1", "O1", 30, "fkilo20", 1), actBind("a", "P1", "O1", 40, "fkilo20", 1), actBind("a", "P1", "O1", 10, "fusd1", 1), actBind("a", "P1", "O1", 9, "fusd1", 1),
		actBind("a", "P1", "O1", 10, "fyen", 1),
		actUpdate("a", "P1", "O1", 0, "fkilo20", 0), actUpdate("a", "P1", "O1", 30, "fkilo20", 0), actUpdate("a", "P1", "O1", 0, "fusd1", 0), actUpdate("a", "P1", "O1", 0, "fkilo2", 0),
		actDisable("a", "P1", "O1"), actEnable("a", "P1", "O1", 0), actEnable("a", "P1", "O1", 30),
		// deposits written in the main unit of the base token or in a foreign token (refused by the unmodified module: only coins of the base denomination are taken)
		actBindCoins("a", "P2", "O2", sdk.NewCoins(sdk.NewInt64Coin("kilo", 1)), "p1"), actBindCoins("a", "P2", "O2", sdk.NewCoins(sdk.NewInt64Coin("cent", 50)), "p1"),
		actUpdateCoins("a", "P1", "O1", sdk.NewCoins(sdk.NewInt64Coin("kilo", 1)))},
		[]Template{tSlash}, []string{"bad"}, depth, blocks, msgs)
	sc.Funds = append(sc.Funds, Funding{O2, 5000})
	sc.Name, sc.Rig = "S-BIND(main unit and foreign token)", RigConfig{FX: fxSpec()}
	return sc
}

// scMsvcTwo: two host modules each serve a reserved service name ("ms" and "mt"); users try to bind both.
func scMsvcTwo(ps ParamSet, depth, blocks, msgs int) *Scenario {
	sc := scMsvc(ps, depth, blocks, msgs)
	sc.Name = "S-MSVC(two module services)"
	sc.Rig.ModuleServices = append(sc.Rig.ModuleServices, ModuleSvcSpec{Module: "aamod", Service: "mt", Provider: MSP, Result: resultOK, Output: outputOK},
		ModuleSvcSpec{Module: "zzmod", Service: "mu", Provider: MSP, Result: resultOK, Output: outputOK},
		// a second service under a module name that is taken, same provider (the unmodified keeper refuses the registration)
		ModuleSvcSpec{Module: "msmod", Service: "mv", Provider: MSP, Result: resultOK, Output: outputOK, Optional: true})
	sc.Setup = append(sc.Setup, actDefine("mt", "AU"), actDefine("mu", "AU"), actDefine("mv", "AU"))
	sc.Templates = []Template{tMsvc}
	sc.Alpha = lifeAlpha(AlphaOpts{RespKinds: []string{"ok"}, BindOps: []Action{
		actBind("ms", "P1", "O1", 10, "p1", 1), actBind("mt", "P1", "O1", 10, "p1", 1), actBind("mu", "P2", "O2", 10, "p1", 1), actBind("mv", "P2", "O2", 10, "p1", 1), actBind("a", "P1", "O1", 10, "p1", 1)}})
	return sc
}

// isModuleService: the service name is served by a host module (its binding is installed by the host chain, not by a message).
func (sc *Scenario) isModuleService(name string) bool {
	for _, ms := range sc.Rig.ModuleServices {
		if ms.Service == name {
			return true
		}
	}
	return sc.Rig.FX != nil && name == st.OraclePriceServiceName
}

// scModCapSiblings: S-MOD where the other module, told that one of its contexts was paused for lack of funds, lowers
// the fee cap of its other contexts to 1 from inside that state callback.
func scModCapSiblings(ps ParamSet, tmpls []Template, o AlphaOpts, depth, blocks, msgs int) *Scenario {
	sc := scMod(ps, tmpls, o, depth, blocks, msgs)
	sc.Name = "S-MOD(lower siblings' cap in callback)"
	sc.Rig.ReentrantCapSiblings = true
	return sc
}

// scModSelfStart: S-MOD where the other module starts a context again from inside that context's failed response
// callback (a batch that expired short of its threshold while the context was paused).
var tModGap = Template{Name: "modgap", Consumer: "C1", Service: "a", Providers: []string{"P1", "P2"}, Cap: 5, Timeout: 1, Repeated: true, Freq: 3, Total: 3, Module: ModOther, Threshold: 2}

func scModSelfStart(ps ParamSet, tmpls []Template, o AlphaOpts, depth, blocks, msgs int) *Scenario {
	sc := scMod(ps, tmpls, o, depth, blocks, msgs)
	sc.Name = "S-MOD(start in response callback)"
	sc.Rig.ReentrantSelfStart = true
	return sc
}

var tModGap2 = Template{Name: "modgap2", Consumer: "C1", Service: "a", Providers: []string{"P1", "P2"}, Cap: 5, Timeout: 2, Repeated: true, Freq: 3, Total: 3, Module: ModOther, Threshold: 2}

func modSelfStartRun(o []Oracle, mon MonFlags, d, b, m int) RunSpec {
	return RunSpec{Name: "mod-start-in-response-callback", Sc: withFunds(scModSelfStart(paramSet("0.1", "0.001"), []Template{tModGap, tModGap2},
		AlphaOpts{RespKinds: []string{"ok"}, ModOps: []string{"mpause", "mstart"}}, d, b, m), 40, 5), Oracles: o, Mon: mon}
}

// ---------------------------------------------------------------------------------------------
// magnitudes that ordinary use never reaches

// actCreateMany: a host module creates n one-shot contexts (each under its own transaction hash) while handling one message.
func actCreateMany(n int, consumer, provider string) Action {
	return Action{Name: fmt.Sprintf("mcreate(x%d)", n), Kind: "mcreate", Tmpl: -1, Signer: A(consumer),
		Mod: func(ctx sdk.Context, k servicekeeperT) error {
			for i := 0; i < n; i++ {
				h := sha256.Sum256([]byte(fmt.Sprintf("many-%d", i)))
				c := ctx.WithValue(st.TxHash, h[:]).WithValue(st.MsgIndex, int64(0))
				if _, err := k.CreateRequestContext(c, "a", []sdk.AccAddress{A(provider)}, A(consumer), inputOK, coins(5), 1, false, false, 0, 0, st.RUNNING, 0, ""); err != nil {
					return err
				}
			}
			return nil
		}}
}

// scManyContexts: 129 contexts become due in one block.
func scManyContexts(ps ParamSet, depth, blocks, msgs int) *Scenario {
	sc := scLife(ps, []Template{tOne}, AlphaOpts{RespKinds: []string{"ok"}, BindOps: []Action{actCreateMany(129, "C1", "P2")}}, depth, blocks, msgs)
	sc.Name = "S-LIFE(129 contexts due in one block)"
	sc.Funds = lifeFunds(400, 5)
	return sc
}

// scManyBindings: 101 bindings of one service (providers may be any byte strings), one more bound along the way.
func scManyBindings(ps ParamSet, depth, blocks, msgs int) *Scenario {
	sc := &Scenario{Name: "S-BIND(101 bindings of one service)", Params: ps, Funds: []Funding{{O1, 5000}, {O2, 100}, {C1, 20}}, Extra: allAccounts,
		Setup: []Action{actDefine("a", "AU"), actDefine("ab", "AU")}, Depth: depth, MaxBlocks: blocks, MaxMsgs: msgs}
	for i := 0; i < 101; i++ {
		prov := sdk.AccAddress([]byte(fmt.Sprintf("many-provider-%03d", i)))
		sc.Setup = append(sc.Setup, Action{Name: fmt.Sprintf("bind(a,#%d)", i), Kind: "bind", Svc: "a", Prov: prov, Signer: O1, Tmpl: -1,
			Msg: st.NewMsgBindService("a", prov, coins(10), pricingText("p1"), 1, "{}", O1)})
	}
	sc.Alpha = lifeAlpha(AlphaOpts{BindOps: []Action{actBind("a", "P1", "O1", 10, "p1", 1), actBind("ab", "P1", "O1", 10, "p1", 1), actBind("a", "P2", "O2", 10, "p1", 1)}})
	return sc
}

// scCounter255: a repeated context whose batch counter stands at 254 (as after 254 batches): the next batches are
// number 255, 256 and 257. The counter is put there by the scenario's setup, between two batches.
var tInf255 = Template{Name: "inf255", Consumer: "C1", Service: "a", Providers: []string{"P1", "P2"}, Cap: 5, Timeout: 1, Repeated: true, Freq: 1, Total: -1}

func scCounter255(ps ParamSet, depth, blocks, msgs int) *Scenario {
	sc := withFunds(scLife(ps, []Template{tInf255}, AlphaOpts{RespKinds: []string{"ok"}, CtxOps: []string{"pause", "start"}}, depth, blocks, msgs), 40, 5)
	sc.Name = "S-LIFE(batch counter at 254)"
	ffwd := Action{Name: "fast-forward(inf255,254)", Kind: "install", Tmpl: -1, Signer: XX,
		Mod: func(ctx sdk.Context, k servicekeeperT) error {
			id := sc.CtxID(0)
			rc, ok := k.GetRequestContext(ctx, id)
			if !ok {
				return fmt.Errorf("no context")
			}
			rc.BatchCounter = 254
			k.SetRequestContext(ctx, id, rc)
			return nil
		}}
	sc.Setup = append(sc.Setup, sc.actCall(0), ffwd)
	return sc
}

// scManyProviders: one owner with 101 providers; the one that sorts last earns; whole-owner and per-provider withdrawals.
var PM = sdk.AccAddress([]byte("many-provider-100"))

func init() { addrNames["PM"] = PM }

func scManyProviders(ps ParamSet, depth, blocks, msgs int) *Scenario {
	sc := scManyBindings(ps, depth, blocks, msgs)
	sc.Name = "S-FEES(101 providers of one owner)"
	sc.Templates = []Template{{Name: "manyp", Consumer: "C1", Service: "a", Providers: []string{"PM"}, Cap: 5, Timeout: 2}}
	sc.Alpha = lifeAlpha(AlphaOpts{RespKinds: []string{"ok"}, ShortSigners: true, Withdraw: []string{"O1:", "O1:PM"}})
	sc.Setup = append(sc.Setup, sc.actCall(0), actE())
	return sc
}

// scLazyAccounts: the module's escrow and deposit accounts do not exist yet when the chain starts (they are created on
// first use); owners name them as withdrawal addresses before and after that.
func scLazyAccounts(ps ParamSet, depth, blocks, msgs int) *Scenario {
	sc := &Scenario{Name: "S-FEES(module accounts created on first use)", Params: ps, Rig: RigConfig{LazyServiceAccounts: true},
		Funds: []Funding{{O1, 100}, {C1, 20}}, Extra: allAccounts,
		Setup:     []Action{actDefine("a", "AU")},
		Templates: []Template{{Name: "lazy", Consumer: "C1", Service: "a", Providers: []string{"P1"}, Cap: 5, Timeout: 2}},
		Depth:     depth, MaxBlocks: blocks, MaxMsgs: msgs}
	sc.Alpha = lifeAlpha(AlphaOpts{RespKinds: []string{"ok"}, SetW: []string{"O1:REQ", "O1:DEP"}, Withdraw: []string{"O1:"}, BindOps: []Action{actBind("a", "P1", "O1", 10, "p2", 1)}})
	return sc
}
