package main

import (
	"bytes"
	"fmt"
	"math/big"
	"sort"

	gogotypes "github.com/gogo/protobuf/types"

	sdk "github.com/cosmos/cosmos-sdk/types"
	banktypes "github.com/cosmos/cosmos-sdk/x/bank/types"

	st "github.com/irismod/service/types"
)

// View is a state decoded with the module's protobuf types only. Record identity is taken from the value
// wherever the value carries it; key-identified records keep their raw key (see DESIGN 3.5).
type View struct {
	S *State
	H int64

	Params st.Params

	Defs      map[string]st.ServiceDefinition // by name (from value)
	DefRaw    map[string][]byte               // raw value by name
	DefKeys   [][]byte
	Bindings  []BindingRec // key order
	Owner     []RawRec     // 0x04 raw
	OwnerProv []RawRec     // 0x05 raw
	OwnerBind []RawRec     // 0x03 raw
	Pricing   []RawRec     // 0x06 raw
	Withdraw  []RawRec     // 0x07 raw

	Ctxs   map[string]*st.RequestContext // by ID hex (ID = key[1:], fixed-length identifier, also cross-checked against queue values)
	CtxIDs []string                      // key order

	ExpQ []QueueRec       // 0x09
	NewQ []QueueRec       // 0x10
	ExpH map[string]int64 // 0x11 by ctx hex (key[1:])
	NewH map[string]int64 // 0x12

	Reqs           map[string]*st.CompactRequest // 0x13 by request ID hex (key[1:])
	ReqIDs         []string
	Active         []ActiveRec             // 0x14, value = request ID
	ActiveByID     map[string]bool         // 0x15, value = request ID
	ActiveByIDKeys map[string]string       // value id hex -> key[1:] hex
	Resps          map[string]*st.Response // 0x16 by key[1:]
	RespIDs        []string
	Vol            []RawRec // 0x17
	Earned         []RawRec // 0x18 value = Coin
	OwnerEarned    []RawRec // 0x19
	Unknown        []RawRec // any other prefix

	Bal         map[string]*big.Int // by address hex, denom stake
	OtherDenoms []string
	Supply      *big.Int
}

type RawRec struct {
	K, V []byte
}

type BindingRec struct {
	Key []byte
	B   st.ServiceBinding
	Raw []byte
}

type QueueRec struct {
	Key []byte
	Ctx string // from value
}

type ActiveRec struct {
	Key []byte
	Req string // from value
}

func (v *View) Binding(svc string, prov []byte) *st.ServiceBinding {
	for i := range v.Bindings {
		if v.Bindings[i].B.ServiceName == svc && bytes.Equal(v.Bindings[i].B.Provider, prov) {
			return &v.Bindings[i].B
		}
	}
	return nil
}

func (v *View) BalOf(a []byte) *big.Int {
	if b, ok := v.Bal[hexs(a)]; ok {
		return b
	}
	return new(big.Int)
}

func coinAmt(c sdk.Coins) *big.Int {
	return c.AmountOf(denom).BigInt()
}

func mustUnmarshal(bz []byte, m interface {
	Unmarshal([]byte) error
}) {
	if err := m.Unmarshal(bz); err != nil {
		panic(fmt.Sprintf("decode: %v", err))
	}
}

// Decode builds the view of a state.
func (r *Rig) Decode(s *State) *View {
	v := &View{S: s, H: s.Height,
		Defs: map[string]st.ServiceDefinition{}, DefRaw: map[string][]byte{},
		Ctxs: map[string]*st.RequestContext{}, ExpH: map[string]int64{}, NewH: map[string]int64{},
		Reqs: map[string]*st.CompactRequest{}, ActiveByID: map[string]bool{}, ActiveByIDKeys: map[string]string{},
		Resps: map[string]*st.Response{}, Bal: map[string]*big.Int{}, Supply: new(big.Int)}

	var rawByID [][]byte
	for _, kv := range s.Stores[stService] {
		if len(kv.K) == 0 {
			continue
		}
		p := kv.K[:1]
		switch {
		case bytes.Equal(p, st.ServiceDefinitionKey):
			var d st.ServiceDefinition
			mustUnmarshal(kv.V, &d)
			v.Defs[d.Name] = d
			v.DefRaw[d.Name] = kv.V
			v.DefKeys = append(v.DefKeys, kv.K)
		case bytes.Equal(p, st.ServiceBindingKey):
			var b st.ServiceBinding
			mustUnmarshal(kv.V, &b)
			v.Bindings = append(v.Bindings, BindingRec{Key: kv.K, B: b, Raw: kv.V})
		case bytes.Equal(p, st.OwnerServiceBindingKey):
			v.OwnerBind = append(v.OwnerBind, RawRec{kv.K, kv.V})
		case bytes.Equal(p, st.OwnerKey):
			v.Owner = append(v.Owner, RawRec{kv.K, kv.V})
		case bytes.Equal(p, st.OwnerProviderKey):
			v.OwnerProv = append(v.OwnerProv, RawRec{kv.K, kv.V})
		case bytes.Equal(p, st.PricingKey):
			v.Pricing = append(v.Pricing, RawRec{kv.K, kv.V})
		case bytes.Equal(p, st.WithdrawAddrKey):
			v.Withdraw = append(v.Withdraw, RawRec{kv.K, kv.V})
		case bytes.Equal(p, st.RequestContextKey):
			var c st.RequestContext
			mustUnmarshal(kv.V, &c)
			id := hexs(kv.K[1:])
			v.Ctxs[id] = &c
			v.CtxIDs = append(v.CtxIDs, id)
		case bytes.Equal(p, st.ExpiredRequestBatchKey):
			v.ExpQ = append(v.ExpQ, QueueRec{kv.K, idFromValue(kv.V, st.ContextIDLen)})
		case bytes.Equal(p, st.NewRequestBatchKey):
			v.NewQ = append(v.NewQ, QueueRec{kv.K, idFromValue(kv.V, st.ContextIDLen)})
		case bytes.Equal(p, st.ExpiredRequestBatchHeightKey):
			var h gogotypes.Int64Value
			mustUnmarshal(kv.V, &h)
			v.ExpH[hexs(kv.K[1:])] = h.Value
		case bytes.Equal(p, st.NewRequestBatchHeightKey):
			var h gogotypes.Int64Value
			mustUnmarshal(kv.V, &h)
			v.NewH[hexs(kv.K[1:])] = h.Value
		case bytes.Equal(p, st.RequestKey):
			var c st.CompactRequest
			mustUnmarshal(kv.V, &c)
			id := hexs(kv.K[1:])
			v.Reqs[id] = &c
			v.ReqIDs = append(v.ReqIDs, id)
		case bytes.Equal(p, st.ActiveRequestKey):
			v.Active = append(v.Active, ActiveRec{kv.K, idFromValue(kv.V, st.RequestIDLen)})
		case bytes.Equal(p, st.ActiveRequestByIDKey):
			id := idFromValue(kv.V, st.RequestIDLen)
			if id == "" {
				rawByID = append(rawByID, kv.K)
				continue
			}
			v.ActiveByID[id] = true
			v.ActiveByIDKeys[id] = hexs(kv.K[1:])
		case bytes.Equal(p, st.ResponseKey):
			var c st.Response
			mustUnmarshal(kv.V, &c)
			id := hexs(kv.K[1:])
			v.Resps[id] = &c
			v.RespIDs = append(v.RespIDs, id)
		case bytes.Equal(p, st.RequestVolumeKey):
			v.Vol = append(v.Vol, RawRec{kv.K, kv.V})
		case bytes.Equal(p, st.EarnedFeesKey):
			v.Earned = append(v.Earned, RawRec{kv.K, kv.V})
		case bytes.Equal(p, st.OwnerEarnedFeesKey):
			v.OwnerEarned = append(v.OwnerEarned, RawRec{kv.K, kv.V})
		default:
			v.Unknown = append(v.Unknown, RawRec{kv.K, kv.V})
		}
	}

	v.recoverIdentities(rawByID)

	// bank: balances (prefix 0x02 | addr | denom -> Coin) and supply, read with the bank keeper on a read context
	ctx := r.ReadCtx(s)
	// Balances are read by exact key for every address of the universe and the module accounts; whatever else the
	// bank store holds (coins sent to an address outside the universe) is summed under the pseudo-account "unknown".
	known := new(big.Int)
	for _, a := range balanceUniverse() {
		c := r.bk.GetBalance(ctx, a, denom)
		if c.Amount.IsZero() {
			continue
		}
		v.Bal[hexs(a)] = c.Amount.BigInt()
		known.Add(known, c.Amount.BigInt())
	}
	total := new(big.Int)
	for _, kv := range s.Stores[stBank] {
		if len(kv.K) > 0 && kv.K[0] == banktypes.BalancesPrefix[0] {
			c := coinOf(kv.V)
			if c.Denom == denom {
				total.Add(total, c.Amount.BigInt())
			} else {
				v.OtherDenoms = append(v.OtherDenoms, c.Denom)
			}
		}
	}
	if rest := new(big.Int).Sub(total, known); rest.Sign() != 0 {
		v.Bal[unknownAcc] = rest
	}
	v.Supply = r.bk.GetSupply(ctx).GetTotal().AmountOf(denom).BigInt()
	// the parameters are read from the parameter store itself (the subspace the params module writes), not through the
	// module's getters
	if ss, ok := r.pk.GetSubspace(st.ModuleName); ok {
		ss.GetParamSet(ctx, &v.Params)
	} else {
		v.Params = r.sk.GetParams(ctx)
	}
	return v
}

func coinOf(raw []byte) sdk.Coin {
	var c sdk.Coin
	mustUnmarshal(raw, &c)
	return c
}

// SumEarned is the raw total of all provider earnings records (0x18).
func (v *View) SumEarned() *big.Int {
	t := new(big.Int)
	for _, e := range v.Earned {
		c := coinOf(e.V)
		if c.Denom == denom {
			t.Add(t, c.Amount.BigInt())
		}
	}
	return t
}

func (v *View) SumOwnerEarned() *big.Int {
	t := new(big.Int)
	for _, e := range v.OwnerEarned {
		c := coinOf(e.V)
		if c.Denom == denom {
			t.Add(t, c.Amount.BigInt())
		}
	}
	return t
}

// PendingIDs: request IDs with an active marker (0x15), sorted.
func (v *View) PendingIDs() []string {
	out := make([]string, 0, len(v.ActiveByID))
	for id := range v.ActiveByID {
		out = append(out, id)
	}
	sort.Strings(out)
	return out
}

func uvarVal(raw []byte) uint64 {
	var u gogotypes.UInt64Value
	mustUnmarshal(raw, &u)
	return u.Value
}

func bytesVal(raw []byte) []byte {
	var b gogotypes.BytesValue
	mustUnmarshal(raw, &b)
	return b.Value
}

const unknownAcc = "FFFF"

func balanceUniverse() []sdk.AccAddress {
	out := []sdk.AccAddress{sdk.AccAddress(reqAcc), sdk.AccAddress(depAcc), sdk.AccAddress(feeColl)}
	seen := map[string]bool{}
	for _, a := range out {
		seen[string(a)] = true
	}
	for _, a := range universe() {
		if !seen[string(a)] { // the module accounts also have names in the universe
			seen[string(a)] = true
			out = append(out, sdk.AccAddress(a))
		}
	}
	return out
}

// idFromValue returns the identifier an index record carries in its value (a BytesValue of the expected length),
// or "" if the value does not carry one (a layout where the identifier lives only in the key).
func idFromValue(raw []byte, wantLen int) string {
	var b gogotypes.BytesValue
	if err := b.Unmarshal(raw); err == nil && len(b.Value) == wantLen {
		return hexs(b.Value)
	}
	return ""
}

// recoverIdentities fills in the subject of index records whose value does not name it, by constructing the key the
// module builds for every known context / request (and every height near the current one) and matching it.
func (v *View) recoverIdentities(rawByID [][]byte) {
	heights := func() []int64 {
		var hs []int64
		for d := int64(-2); d <= 12; d++ {
			hs = append(hs, v.H+d)
		}
		for _, h := range v.ExpH {
			hs = append(hs, h)
		}
		for _, h := range v.NewH {
			hs = append(hs, h)
		}
		return hs
	}
	fixQ := func(q []QueueRec, build func([]byte, int64) []byte) {
		for i := range q {
			if q[i].Ctx != "" {
				continue
			}
			ids := append([]string{}, v.CtxIDs...)
			for id := range v.ExpH {
				ids = append(ids, id)
			}
			for id := range v.NewH {
				ids = append(ids, id)
			}
			for _, id := range ids {
				for _, h := range heights() {
					if bytes.Equal(build(mustHex(id), h), q[i].Key) {
						q[i].Ctx = id
					}
				}
			}
			if q[i].Ctx == "" {
				q[i].Ctx = "unidentified:" + hexs(q[i].Key)
			}
		}
	}
	fixQ(v.ExpQ, func(id []byte, h int64) []byte { return st.GetExpiredRequestBatchKey(id, h) })
	fixQ(v.NewQ, func(id []byte, h int64) []byte { return st.GetNewRequestBatchKey(id, h) })
	for i := range v.Active {
		if v.Active[i].Req != "" {
			continue
		}
		for _, rid := range v.ReqIDs {
			r := v.Reqs[rid]
			if c := v.Ctxs[hexs(r.RequestContextId)]; c != nil {
				if bytes.Equal(st.GetActiveRequestKey(c.ServiceName, r.Provider, r.ExpirationHeight, mustHex(rid)), v.Active[i].Key) {
					v.Active[i].Req = rid
				}
			}
		}
		if v.Active[i].Req == "" {
			v.Active[i].Req = "unidentified:" + hexs(v.Active[i].Key)
		}
	}
	for _, k := range rawByID {
		id := ""
		for _, rid := range v.ReqIDs {
			if bytes.Equal(st.GetActiveRequestKeyByID(mustHex(rid)), k) {
				id = rid
			}
		}
		if id == "" {
			id = "unidentified:" + hexs(k)
		}
		v.ActiveByID[id] = true
		v.ActiveByIDKeys[id] = hexs(k[1:])
	}
}
