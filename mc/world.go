package main

import (
	"bytes"
	"crypto/sha256"
	"encoding/binary"
	"fmt"
	"runtime/debug"
	"sort"
	"strings"
	"time"

	tmbytes "github.com/tendermint/tendermint/libs/bytes"
	"github.com/tendermint/tendermint/libs/log"
	tmproto "github.com/tendermint/tendermint/proto/tendermint/types"
	"github.com/tidwall/gjson"

	"github.com/cosmos/cosmos-sdk/codec"
	"github.com/cosmos/cosmos-sdk/simapp/params"
	"github.com/cosmos/cosmos-sdk/store/cachemulti"
	storetypes "github.com/cosmos/cosmos-sdk/store/types"
	sdk "github.com/cosmos/cosmos-sdk/types"
	authkeeper "github.com/cosmos/cosmos-sdk/x/auth/keeper"
	authtypes "github.com/cosmos/cosmos-sdk/x/auth/types"
	bankkeeper "github.com/cosmos/cosmos-sdk/x/bank/keeper"
	banktypes "github.com/cosmos/cosmos-sdk/x/bank/types"
	minttypes "github.com/cosmos/cosmos-sdk/x/mint/types"
	paramskeeper "github.com/cosmos/cosmos-sdk/x/params/keeper"
	paramstypes "github.com/cosmos/cosmos-sdk/x/params/types"

	service "github.com/irismod/service"
	simapp "github.com/irismod/service/app"
	servicekeeper "github.com/irismod/service/keeper"
	servicetypes "github.com/irismod/service/types"
)

const (
	stAuth = iota
	stBank
	stParams
	stService
	nStores
)

var storeNames = [nStores]string{authtypes.StoreKey, banktypes.StoreKey, paramstypes.StoreKey, servicetypes.StoreKey}

const denom = "stake"

// T0 is the block time of the first explored block. Heights start at 2 because that is the first
// height the full SimApp accepts after InitChain+Commit (conformance replay, DESIGN 3.6).
var T0 = time.Date(2020, 9, 14, 0, 0, 0, 0, time.UTC)

const H0 = int64(2)

var encCfg params.EncodingConfig

func init() {
	encCfg = simapp.MakeEncodingConfig()
}

// State is one explored state: everything the module's future depends on.
type State struct {
	Height int64
	Time   int64 // seconds after T0
	Ms     int64 // constant sub-second part of every block time of this run, in milliseconds (0 in all but the sub-second runs)
	Stores [nStores][]KV
	Used   uint32 // bitmask of call templates already used on this path (IDs are a function of the template)
	Msgs   int    // messages delivered since the last EndBlock (per-block message bound)
	Mon    []byte // canonical serialisation of the monitor (history) variables
}

func (s *State) BlockTime() time.Time {
	return T0.Add(time.Duration(s.Time)*time.Second + time.Duration(s.Ms)*time.Millisecond)
}

// Hash is the identity of a state: SHA-256 over every field, nothing dropped.
func (s *State) Hash() [32]byte {
	h := sha256.New()
	var b [8]byte
	w64 := func(v uint64) { binary.BigEndian.PutUint64(b[:], v); h.Write(b[:]) }
	w64(uint64(s.Height))
	w64(uint64(s.Time))
	w64(uint64(s.Ms))
	w64(uint64(s.Used))
	w64(uint64(s.Msgs))
	for i := 0; i < nStores; i++ {
		w64(uint64(len(s.Stores[i])))
		for _, kv := range s.Stores[i] {
			w64(uint64(len(kv.K)))
			h.Write(kv.K)
			w64(uint64(len(kv.V)))
			h.Write(kv.V)
		}
	}
	w64(uint64(len(s.Mon)))
	h.Write(s.Mon)
	var out [32]byte
	copy(out[:], h.Sum(nil))
	return out
}

// StoreHash hashes only height/time and the four stores (used by determinism and conformance comparisons).
func (s *State) StoreHash() [32]byte {
	c := *s
	c.Used, c.Msgs, c.Mon = 0, 0, nil
	return c.Hash()
}

// CallbackRec is one invocation of a module callback seen by the recording "other module".
type CallbackRec struct {
	Kind    string   `json:"kind"` // "response" or "state"
	Ctx     string   `json:"ctx"`
	Outputs []string `json:"outputs,omitempty"`
	Err     string   `json:"err,omitempty"`
	HasErr  bool     `json:"has_err,omitempty"`
	Cause   string   `json:"cause,omitempty"`
	// context record as the callback could read it at call time
	BatchCounter uint64 `json:"batch_counter"`
}

type recorderKey struct{}

// subspaceKey carries the service module's parameter subspace in the context of a driver action: a passed
// parameter-change proposal writes there (params module), not through the service keeper.
type subspaceKey struct{}

type recorder struct {
	log []CallbackRec
}

// ModuleSvcSpec describes a module service registered on the keeper (scenario S-MSVC).
type ModuleSvcSpec struct {
	Module   string
	Service  string
	Provider sdk.AccAddress
	Result   string
	Output   string
	CreatesContext bool // while answering, the host module tries to create a context of its own for service "a" (same message: the keeper refuses it) and does not look at the answer
	Optional bool // a registration the keeper is expected to refuse (e.g. a second service under a module name already taken); only if it is accepted is the service reserved
}

// RigConfig fixes the in-memory (non-store) configuration of the service keeper for a scenario.
type RigConfig struct {
	ReentrantStartSiblings bool     // ... by starting its other (paused) contexts
	ReentrantCapSiblings   bool     // ... by lowering the fee cap of its other contexts to 1 (it has learnt that money is short)
	ReentrantCreate        bool     // the other module answers a failed batch (response callback with an error) by creating a follow-up context
	ReentrantPauseSiblings bool     // the other module answers "paused: insufficient balances" of one context by pausing its other contexts
	ReentrantSelfKill      bool     // the other module answers a failed batch (response callback with an error) by killing that very context
	ReentrantSelfStart     bool     // the other module answers a failed batch by starting that very context again (if it is paused)
	ReentrantRespStartSibs bool     // the other module answers a failed batch of one context by starting its other (paused) contexts
	ReentrantRestart       bool     // the other module reacts to a state callback (context paused for funds) by starting the context again at once
	Reentrant              bool     // the other module reacts inside its callbacks: state callback -> kills that context; response callback with an error -> kills its other contexts
	ResponseOnlyModules    []string // modules that registered a response callback but no state callback
	CallbackModules        []string
	ModuleServices         []ModuleSvcSpec
	LazyServiceAccounts    bool    // the module's two accounts are not created at genesis but on first use
	FX                     *FXSpec // host chain with a token module (main units, foreign tokens) and an exchange-rate service
}

// FXSpec describes the host chain of the foreign-denomination scenarios: a token keeper that knows the base token in
// a main unit ("kilo" = 10^3 stake) and a foreign token ("usd" = 10^2 cent), and the exchange-rate module service
// (module "oracle") that GetExchangedPrice asks. The rate is a function of the pair and the block height only, so
// it is part of no state; at the heights listed in FailAt the service answers with an error code.
type FXSpec struct {
	Rates     map[string][]string // pair "cent-stake" -> rates, indexed by height modulo the length
	FailAt    []int64
	NoService bool // the host has the token module but never registered an exchange-rate service
}

func (f *FXSpec) Rate(pair string, h int64) (string, bool) {
	if f == nil || f.NoService {
		return "", false
	}
	for _, x := range f.FailAt {
		if x == h {
			return "", false
		}
	}
	rs := f.Rates[pair]
	if len(rs) == 0 {
		return "", false
	}
	return rs[int(h%int64(len(rs)))], true
}

// fxTokenKeeper plays the host chain's token module.
type fxTokenKeeper struct{}

func (fxTokenKeeper) GetToken(ctx sdk.Context, d string) (servicetypes.TokenI, error) {
	switch d {
	case "stake", "kilo":
		return servicetypes.MockToken{Symbol: "kilo", MinUnit: "stake", Scale: 3}, nil
	case "cent", "usd":
		return servicetypes.MockToken{Symbol: "usd", MinUnit: "cent", Scale: 2}, nil
	}
	return nil, fmt.Errorf("token %s does not exist", d)
}

// msvcCreatesContext: a host module that, while answering a request to its module service, asks for a context of its own
// (service "a", provider P1) under the transaction that is being handled, and ignores the refusal.
func msvcCreatesContext(ctx sdk.Context, k servicekeeper.Keeper) {
	_, _ = k.CreateRequestContext(ctx, "a", []sdk.AccAddress{P1}, C1, inputOK, coins(5), 1, false, false, 0, 0, servicetypes.RUNNING, 0, "")
}

// fxService is the exchange-rate module service of the host chain.
func fxService(f *FXSpec) *servicetypes.ModuleService {
	return &servicetypes.ModuleService{
		ServiceName: servicetypes.OraclePriceServiceName,
		Provider:    servicetypes.OraclePriceServiceProvider,
		ReuquestService: func(ctx sdk.Context, input string) (string, string) {
			pair := gjson.Get(input, "body.pair").String()
			rate, ok := f.Rate(pair, ctx.BlockHeight())
			if !ok {
				return `{"code":500,"message":"no rate for ` + pair + `"}`, ""
			}
			return `{"code":200,"message":""}`, `{"header":{},"body":{"rate":"` + rate + `"}}`
		},
	}
}

// Rig is the real keepers wired as in app/app.go minus everything the module does not touch.
// Keepers hold only store keys, codecs and (for the service keeper) the callback/module-service maps,
// which are fixed at construction; they are shared by all worlds of a run.
type Rig struct {
	keys    [nStores]*sdk.KVStoreKey
	tkey    *sdk.TransientStoreKey
	keyMap  map[string]storetypes.StoreKey
	ak      authkeeper.AccountKeeper
	bk      bankkeeper.BaseKeeper
	pk      paramskeeper.Keeper
	sk      servicekeeper.Keeper
	handler sdk.Handler
	querier sdk.Querier
	cfg     RigConfig
	reserved map[string]bool // service names whose registration by a host module the keeper accepted
	baseFP  string // fingerprint of the keeper's in-memory containers right after construction (keepermem.go)
}

const ModOther = "othermod" // the "other module" played by the driver
const ModHalf = "halfmod"   // a module that registered only a response callback

func NewRig(cfg RigConfig) *Rig {
	r := &Rig{cfg: cfg, keyMap: map[string]storetypes.StoreKey{}}
	for i, n := range storeNames {
		r.keys[i] = sdk.NewKVStoreKey(n)
		r.keyMap[n] = r.keys[i]
	}
	r.tkey = sdk.NewTransientStoreKey(paramstypes.TStoreKey)
	r.keyMap[paramstypes.TStoreKey] = r.tkey

	appCodec := encCfg.Marshaler
	amino := encCfg.Amino

	r.pk = paramskeeper.NewKeeper(appCodec, amino, r.keys[stParams], r.tkey)
	r.pk.Subspace(authtypes.ModuleName)
	r.pk.Subspace(banktypes.ModuleName)
	r.pk.Subspace(servicetypes.ModuleName)
	sub := func(n string) paramstypes.Subspace { s, _ := r.pk.GetSubspace(n); return s }

	maccPerms := map[string][]string{
		authtypes.FeeCollectorName:  nil,
		minttypes.ModuleName:        {authtypes.Minter},
		servicetypes.DepositAccName: {authtypes.Burner},
		servicetypes.RequestAccName: nil,
	}
	// same rule as SimApp.BlockedAddrs: no module account may receive external tokens
	blocked := map[string]bool{}
	for acc := range maccPerms {
		blocked[authtypes.NewModuleAddress(acc).String()] = true
	}

	r.ak = authkeeper.NewAccountKeeper(appCodec, r.keys[stAuth], sub(authtypes.ModuleName), authtypes.ProtoBaseAccount, maccPerms)
	r.bk = bankkeeper.NewBaseKeeper(appCodec, r.keys[stBank], r.ak, sub(banktypes.ModuleName), blocked)
	var tk servicetypes.TokenKeeper = servicekeeper.MockTokenKeeper{}
	if cfg.FX != nil {
		tk = fxTokenKeeper{}
	}
	r.sk = servicekeeper.NewKeeper(appCodec, r.keys[stService], r.ak, r.bk, tk, sub(servicetypes.ModuleName), authtypes.FeeCollectorName)
	if cfg.FX != nil && !cfg.FX.NoService {
		if err := r.sk.RegisterModuleService(servicetypes.RegisterModuleName, fxService(cfg.FX)); err != nil {
			panic(err)
		}
	}

	for _, m := range cfg.CallbackModules {
		mod := m
		if err := r.sk.RegisterResponseCallback(m, func(ctx sdk.Context, id tmbytes.HexBytes, outs []string, err error) {
			rec, _ := ctx.Context().Value(recorderKey{}).(*recorder)
			if rec == nil {
				return
			}
			c := CallbackRec{Kind: "response", Ctx: hexs(id), Outputs: append([]string{}, outs...)}
			if err != nil {
				c.HasErr, c.Err = true, err.Error()
			}
			if rc, ok := r.sk.GetRequestContext(ctx, id); ok {
				c.BatchCounter = rc.BatchCounter
			}
			rec.log = append(rec.log, c)
			if rc, ok := r.sk.GetRequestContext(ctx, id); ok && cfg.ReentrantCreate && err != nil {
				// ask again: a follow-up one-shot context with the same terms
				if _, cerr := r.sk.CreateRequestContext(ctx, rc.ServiceName, rc.Providers, rc.Consumer, rc.Input, rc.ServiceFeeCap, rc.Timeout,
					false, false, 0, 0, servicetypes.RUNNING, 1, mod); cerr == nil {
					rec.log = append(rec.log, CallbackRec{Kind: "create", Ctx: hexs(id)})
				}
			}
			if rc, ok := r.sk.GetRequestContext(ctx, id); ok && cfg.ReentrantSelfStart && err != nil {
				if r.sk.StartRequestContext(ctx, id, rc.Consumer) == nil {
					rec.log = append(rec.log, CallbackRec{Kind: "selfstart", Ctx: hexs(id)})
				}
			}
			if cfg.ReentrantRespStartSibs && err != nil {
				var others [][]byte
				var consumers []sdk.AccAddress
				r.sk.IterateRequestContexts(ctx, func(oid tmbytes.HexBytes, oc servicetypes.RequestContext) bool {
					if oc.ModuleName == mod && !bytes.Equal(oid, id) {
						others = append(others, append([]byte{}, oid...))
						consumers = append(consumers, oc.Consumer)
					}
					return false
				})
				for i := range others {
					if r.sk.StartRequestContext(ctx, others[i], consumers[i]) == nil {
						rec.log = append(rec.log, CallbackRec{Kind: "start", Ctx: hexs(others[i])})
					}
				}
			}
			if rc, ok := r.sk.GetRequestContext(ctx, id); ok && cfg.ReentrantSelfKill && err != nil {
				if r.sk.KillRequestContext(ctx, id, rc.Consumer) == nil {
					rec.log = append(rec.log, CallbackRec{Kind: "selfkill", Ctx: hexs(id)})
				}
			}
			if cfg.Reentrant && err != nil {
				// the module gives up on its other contexts
				var others [][]byte
				var consumers []sdk.AccAddress
				r.sk.IterateRequestContexts(ctx, func(oid tmbytes.HexBytes, oc servicetypes.RequestContext) bool {
					if oc.ModuleName == mod && !bytes.Equal(oid, id) {
						others = append(others, append([]byte{}, oid...))
						consumers = append(consumers, oc.Consumer)
					}
					return false
				})
				for i := range others {
					if r.sk.KillRequestContext(ctx, others[i], consumers[i]) == nil {
						rec.log = append(rec.log, CallbackRec{Kind: "kill", Ctx: hexs(others[i])})
					}
				}
			}
		}); err != nil {
			panic(err)
		}
		if err := r.sk.RegisterStateCallback(m, func(ctx sdk.Context, id tmbytes.HexBytes, cause string) {
			rec, _ := ctx.Context().Value(recorderKey{}).(*recorder)
			if rec == nil {
				return
			}
			c := CallbackRec{Kind: "state", Ctx: hexs(id), Cause: cause}
			if rc, ok := r.sk.GetRequestContext(ctx, id); ok {
				c.BatchCounter = rc.BatchCounter
			}
			rec.log = append(rec.log, c)
			if rc, ok := r.sk.GetRequestContext(ctx, id); ok && cfg.Reentrant {
				if r.sk.KillRequestContext(ctx, id, rc.Consumer) == nil {
					rec.log = append(rec.log, CallbackRec{Kind: "kill", Ctx: hexs(id)})
				}
			}
			if cfg.ReentrantStartSiblings {
				var others [][]byte
				var consumers []sdk.AccAddress
				r.sk.IterateRequestContexts(ctx, func(oid tmbytes.HexBytes, oc servicetypes.RequestContext) bool {
					if oc.ModuleName == mod && !bytes.Equal(oid, id) {
						others = append(others, append([]byte{}, oid...))
						consumers = append(consumers, oc.Consumer)
					}
					return false
				})
				for i := range others {
					if r.sk.StartRequestContext(ctx, others[i], consumers[i]) == nil {
						rec.log = append(rec.log, CallbackRec{Kind: "start", Ctx: hexs(others[i])})
					}
				}
			}
			if cfg.ReentrantCapSiblings {
				var others [][]byte
				var recs []servicetypes.RequestContext
				r.sk.IterateRequestContexts(ctx, func(oid tmbytes.HexBytes, oc servicetypes.RequestContext) bool {
					if oc.ModuleName == mod && !bytes.Equal(oid, id) {
						others = append(others, append([]byte{}, oid...))
						recs = append(recs, oc)
					}
					return false
				})
				for i := range others {
					if r.sk.UpdateRequestContext(ctx, others[i], nil, 0, sdk.NewCoins(sdk.NewInt64Coin(denom, 1)), 0, 0, 0, recs[i].Consumer) == nil {
						rec.log = append(rec.log, CallbackRec{Kind: "cap1", Ctx: hexs(others[i]), BatchCounter: recs[i].BatchCounter})
					}
				}
			}
			if cfg.ReentrantPauseSiblings {
				var others [][]byte
				var recs []servicetypes.RequestContext
				r.sk.IterateRequestContexts(ctx, func(oid tmbytes.HexBytes, oc servicetypes.RequestContext) bool {
					if oc.ModuleName == mod && !bytes.Equal(oid, id) {
						others = append(others, append([]byte{}, oid...))
						recs = append(recs, oc)
					}
					return false
				})
				for i := range others {
					if r.sk.PauseRequestContext(ctx, others[i], recs[i].Consumer) == nil {
						// the batch counter at the moment of the pause tells whether a later batch of this block came after it
						rec.log = append(rec.log, CallbackRec{Kind: "pause", Ctx: hexs(others[i]), BatchCounter: recs[i].BatchCounter})
					}
				}
			}
			if rc, ok := r.sk.GetRequestContext(ctx, id); ok && cfg.ReentrantRestart {
				if r.sk.StartRequestContext(ctx, id, rc.Consumer) == nil {
					rec.log = append(rec.log, CallbackRec{Kind: "restart", Ctx: hexs(id)})
				}
			}
		}); err != nil {
			panic(err)
		}
	}
	for _, m := range cfg.ResponseOnlyModules {
		if err := r.sk.RegisterResponseCallback(m, func(ctx sdk.Context, id tmbytes.HexBytes, outs []string, err error) {}); err != nil {
			panic(err)
		}
	}
	for _, ms := range cfg.ModuleServices {
		spec := ms
		if err := r.sk.RegisterModuleService(spec.Module, &servicetypes.ModuleService{
			ServiceName: spec.Service,
			Provider:    spec.Provider,
			ReuquestService: func(ctx sdk.Context, input string) (string, string) {
				if spec.CreatesContext {
					msvcCreatesContext(ctx, r.sk)
				}
				return spec.Result, spec.Output
			},
		}); err != nil {
			if !spec.Optional {
				panic(err)
			}
			continue
		}
		if r.reserved == nil {
			r.reserved = map[string]bool{}
		}
		r.reserved[spec.Service] = true
	}

	r.handler = service.NewHandler(r.sk)
	r.querier = servicekeeper.NewQuerier(r.sk, amino)
	r.baseFP = keeperFingerprint(r.sk)
	return r
}

// World is a restored state ready to execute on: base layer + block-level cache + context.
type World struct {
	rig   *Rig
	base  [nStores]*memKV
	tbase *memKV
	cms   cachemulti.Store
	ctx   sdk.Context
	rec   *recorder
}

func (r *Rig) Restore(s *State) *World {
	w := &World{rig: r, rec: &recorder{}}
	stores := map[storetypes.StoreKey]storetypes.CacheWrapper{}
	for i := 0; i < nStores; i++ {
		w.base[i] = newMemKV(s.Stores[i])
		stores[r.keys[i]] = w.base[i]
	}
	w.tbase = newMemKV(nil)
	stores[r.tkey] = w.tbase
	w.cms = cachemulti.NewFromKVStore(newMemKV(nil), stores, r.keyMap, nil, nil)
	hdr := tmproto.Header{ChainID: "svcmc", Height: s.Height, Time: s.BlockTime()}
	w.ctx = sdk.NewContext(w.cms, hdr, false, log.NewNopLogger()).WithValue(recorderKey{}, w.rec)
	return w
}

// Flush writes the block-level cache down and returns the store dumps.
func (w *World) Flush() [nStores][]KV {
	w.cms.Write()
	var out [nStores][]KV
	for i := 0; i < nStores; i++ {
		out[i] = w.base[i].dump()
	}
	return out
}

// StepResult is what one transition observably did besides changing the store.
type StepResult struct {
	Stateless error // ValidateBasic error (message never reached the handler)
	Err       error // handler error
	Panic     string
	PanicTrc  string
	Events    []EventRec
	Callbacks []CallbackRec
	ModErr    error  // error returned by a keeper API call played by the "other module"
	Prepared  *State // restart only: the state after the zero-height preparation, when the restart failed later (export, validation, JSON, import)
}

func (r *StepResult) OK() bool {
	return r.Stateless == nil && r.Err == nil && r.Panic == "" && r.ModErr == nil
}

func (r *StepResult) Outcome() string {
	switch {
	case r.Panic != "":
		return "panic"
	case r.Stateless != nil:
		return "stateless-reject"
	case r.Err != nil:
		return "error"
	case r.ModErr != nil:
		return "error"
	}
	return "ok"
}

func (r *StepResult) ErrString() string {
	switch {
	case r.Panic != "":
		return "panic: " + r.Panic
	case r.Stateless != nil:
		return "stateless: " + r.Stateless.Error()
	case r.Err != nil:
		return r.Err.Error()
	case r.ModErr != nil:
		return r.ModErr.Error()
	}
	return ""
}

type EventRec struct {
	Type  string            `json:"type"`
	Attrs map[string]string `json:"attrs"`
	Order []string          `json:"-"`
}

func convEvents(evs sdk.Events) []EventRec {
	out := make([]EventRec, 0, len(evs))
	for _, e := range evs {
		er := EventRec{Type: e.Type, Attrs: map[string]string{}}
		for _, a := range e.Attributes {
			er.Attrs[string(a.Key)] = string(a.Value)
			er.Order = append(er.Order, string(a.Key))
		}
		out = append(out, er)
	}
	return out
}

// DeliverMsg runs one message exactly as baseapp's runTx/runMsgs would: stateless validation, then the
// handler on a cache-wrapped context carrying the tx hash and message index, written back iff it succeeded.
func (w *World) DeliverMsg(msg sdk.Msg, txHash []byte, msgIndex int64) (res StepResult) {
	if err := msg.ValidateBasic(); err != nil {
		res.Stateless = err
		return
	}
	cctx, write := w.ctx.CacheContext()
	cctx = cctx.WithValue(servicetypes.TxHash, txHash).WithValue(servicetypes.MsgIndex, msgIndex)
	n0 := len(w.rec.log)
	func() {
		defer func() {
			if p := recover(); p != nil {
				res.Panic = fmt.Sprint(p)
				res.PanicTrc = trimTrace(string(debug.Stack()))
			}
		}()
		r, err := w.rig.handler(cctx, msg)
		if err != nil {
			res.Err = err
			return
		}
		if r != nil {
			evs := make(sdk.Events, 0, len(r.Events))
			for _, e := range r.Events {
				evs = append(evs, sdk.Event(e))
			}
			res.Events = convEvents(evs)
		}
	}()
	if res.Err == nil && res.Panic == "" {
		write()
		res.Callbacks = append(res.Callbacks, w.rec.log[n0:]...)
	} else {
		w.rec.log = w.rec.log[:n0]
	}
	return
}

// ModCall runs a keeper API call on behalf of "another module" with message-like atomicity.
func (w *World) ModCall(txHash []byte, f func(ctx sdk.Context, k servicekeeper.Keeper) error, carry bool) (res StepResult) {
	cctx, write := w.ctx.CacheContext()
	cctx = cctx.WithValue(servicetypes.TxHash, txHash).WithValue(servicetypes.MsgIndex, int64(0))
	if ss, ok := w.rig.pk.GetSubspace(servicetypes.ModuleName); ok {
		cctx = cctx.WithValue(subspaceKey{}, ss)
	}
	n0 := len(w.rec.log)
	func() {
		defer func() {
			if p := recover(); p != nil {
				res.Panic = fmt.Sprint(p)
				res.PanicTrc = trimTrace(string(debug.Stack()))
			}
		}()
		res.ModErr = f(cctx, w.rig.sk)
	}()
	if (res.ModErr == nil || carry) && res.Panic == "" {
		write()
		res.Events = convEvents(cctx.EventManager().Events())
		res.Callbacks = append(res.Callbacks, w.rec.log[n0:]...)
	} else {
		w.rec.log = w.rec.log[:n0]
	}
	return
}

// EndBlock runs the module's end-of-block routine on the block context, without any cache layer in
// between: a panic here is a chain halt.
func (w *World) EndBlock() (res StepResult) {
	n0 := len(w.rec.log)
	func() {
		defer func() {
			if p := recover(); p != nil {
				res.Panic = fmt.Sprint(p)
				res.PanicTrc = trimTrace(string(debug.Stack()))
			}
		}()
		service.EndBlocker(w.ctx, w.rig.sk)
	}()
	res.Events = convEvents(w.ctx.EventManager().Events())
	res.Callbacks = append(res.Callbacks, w.rec.log[n0:]...)
	return
}

func trimTrace(s string) string {
	lines := strings.Split(s, "\n")
	var keep []string
	for _, l := range lines {
		l = strings.TrimSpace(l)
		// keep only source positions inside the module under test
		if (strings.HasPrefix(l, "/repo/") || strings.Contains(l, "irismod/service@")) && strings.Contains(l, ".go:") {
			if i := strings.Index(l, " +0x"); i >= 0 {
				l = l[:i]
			}
			keep = append(keep, l)
		}
		if len(keep) >= 6 {
			break
		}
	}
	return strings.Join(keep, " | ")
}

func hexs(b []byte) string { return fmt.Sprintf("%X", b) }

// ---------------------------------------------------------------------------------------------
// Genesis of a world

type Funding struct {
	Addr sdk.AccAddress
	Amt  int64 // a negative value -n stands for 10^n base units (amounts beyond int64)
}

func (f Funding) coins() sdk.Coins {
	if f.Amt < 0 {
		return sdk.NewCoins(sdk.NewCoin(denom, sdk.NewIntWithDecimal(1, int(-f.Amt))))
	}
	if f.Amt == 0 {
		return nil
	}
	return sdk.NewCoins(sdk.NewInt64Coin(denom, f.Amt))
}

// ParamSet is one configuration of the module parameters.
type ParamSet struct {
	Name            string
	Tax             string
	Slash           string
	MaxTimeout      int64
	MinDeposit      int64
	Multiple        int64
	Arbitration     time.Duration
	Complaint       time.Duration
	BaseDenom       string    // "" = stake
	MinDepositCoins sdk.Coins // if set, used as is for MinDeposit (may be malformed on purpose)
}

func (p ParamSet) Params() servicetypes.Params {
	md := sdk.NewCoins(sdk.NewInt64Coin(denom, p.MinDeposit))
	if p.MinDepositCoins != nil {
		md = p.MinDepositCoins
	}
	return servicetypes.NewParams(
		p.MaxTimeout, p.Multiple, md,
		sdk.MustNewDecFromStr(p.Tax), sdk.MustNewDecFromStr(p.Slash),
		p.Complaint, p.Arbitration, 4000, p.baseDenom(),
	)
}

func (p ParamSet) baseDenom() string {
	if p.BaseDenom == "" {
		return denom
	}
	return p.BaseDenom
}

// Genesis builds the initial state: module accounts, every ordinary account that can ever receive coins
// (so that account numbers are fixed), funding through the mint module account, service params.
func (r *Rig) Genesis(ps ParamSet, funded []Funding, extraAccounts []sdk.AccAddress) *State {
	s := &State{Height: H0, Time: 0}
	w := r.Restore(s)
	ctx := w.ctx
	for _, n := range []string{authtypes.FeeCollectorName, minttypes.ModuleName, servicetypes.DepositAccName, servicetypes.RequestAccName} {
		if r.cfg.LazyServiceAccounts && (n == servicetypes.DepositAccName || n == servicetypes.RequestAccName) {
			continue // created by the module on first use, as on a chain whose genesis does not list them
		}
		r.ak.GetModuleAccount(ctx, n) // creates it
	}
	r.ak.SetParams(ctx, authtypes.DefaultParams())
	r.bk.SetParams(ctx, banktypes.DefaultParams())
	r.bk.SetSupply(ctx, banktypes.NewSupply(sdk.NewCoins()))
	for _, f := range funded {
		acc := r.ak.NewAccountWithAddress(ctx, f.Addr)
		r.ak.SetAccount(ctx, acc)
		if c := f.coins(); !c.Empty() {
			if err := r.bk.MintCoins(ctx, minttypes.ModuleName, c); err != nil {
				panic(err)
			}
			if err := r.bk.SendCoinsFromModuleToAccount(ctx, minttypes.ModuleName, f.Addr, c); err != nil {
				panic(err)
			}
		}
	}
	for _, a := range extraAccounts {
		if r.ak.GetAccount(ctx, a) == nil {
			r.ak.SetAccount(ctx, r.ak.NewAccountWithAddress(ctx, a))
		}
	}
	r.sk.SetParams(ctx, ps.Params())
	s.Stores = w.Flush()
	return s
}

// ReadCtx returns a context for read-only inspection of a state (oracles, queries). Writes made through
// it are never flushed.
func (r *Rig) ReadCtx(s *State) sdk.Context {
	return r.Restore(s).ctx
}

func sortKVs(kvs []KV) {
	sort.Slice(kvs, func(i, j int) bool { return bytes.Compare(kvs[i].K, kvs[j].K) < 0 })
}

var _ = codec.NewLegacyAmino
