#!/bin/sh
# usage: ./run_all.sh quick|thorough  — runs every registered check in turn and prints one line per property
tier="${1:-quick}"
cd "$(dirname "$0")"
mkdir -p out
rc=0
for p in C01 C02 C03 C04 C05 C06 C07 C08 C09 C10 C11 C12 C13 C14 C15 C16 C17 C18 C19 C20; do
  ./check $p $tier > out/last_$p.$tier.log 2>&1
  e=$?
  [ $e -ne 0 ] && rc=1
  echo "$p exit=$e $(tail -1 out/last_$p.$tier.log | cut -c1-160)"
done
exit $rc
