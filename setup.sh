#!/bin/sh
# Build the model checker once (warms the Go build cache). Offline.
set -e
cd "$(dirname "$0")/mc"
export GOFLAGS=-mod=mod GOPROXY=off GOSUMDB=off GOTOOLCHAIN=local
go build -o svcmc .
